#!/usr/bin/env python3
"""Self-test: every catalogue mutant must be reported by the named rule (exit 1), every negative must stay silent
(exit 0), on a scratch copy of the current /repo. 16 workers. usage: run.py [PROP ...]"""
import concurrent.futures, os, sys
sys.path.insert(0, os.path.dirname(os.path.abspath(__file__)))
import catalogue, mut
def one(i):
    prop, file, old, new, rule = catalogue.M[i]
    res = mut.run([prop], file, old, new)
    if res and res[0][0] == "EDIT-FAILED":
        return i, "EDIT-FAILED", res[0][1]
    _, code, lines = res[0]
    fired = [l.strip().split("]")[0][1:] for l in lines if l.strip().startswith("[")]
    if rule is None:
        return i, "ok" if code == 0 else "FALSE-ALARM", f"exit {code} {fired[:3]}"
    ok = code == 1 and any(f.startswith(rule) for f in fired)
    return i, "ok" if ok else "MISSED", f"exit {code} {fired[:4]}"
if __name__ == "__main__":
    want = set(sys.argv[1:])
    idx = [i for i, e in enumerate(catalogue.M) if not want or e[0] in want]
    bad = 0
    with concurrent.futures.ProcessPoolExecutor(16) as ex:
        for i, status, detail in ex.map(one, idx):
            e = catalogue.M[i]
            if status != "ok":
                bad += 1
            print(f"{status:12} {e[0]} {e[1]:20} expect={e[4]} {detail}  <<{e[2][:50]!r}>>" if status != "ok" else f"ok           {e[0]} {e[4]}")
    print(f"{len(idx)} entries, {bad} not ok")
    sys.exit(1 if bad else 0)
