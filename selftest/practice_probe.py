import sys, os
repo = os.environ.get("PROBE_REPO", "/repo")
sys.path.insert(0, repo)
from pdpy11 import bk_encoding, reports
from pdpy11.compiler import Compiler
from pdpy11.formats import file_formats
from pdpy11.parser import parse
root = os.path.join(repo, "tests/practice")
ok = bad = 0
for name in sorted(os.listdir(root)):
    sp = os.path.join(root, name, "code.mac")
    src = open(sp).read()
    errs = []
    def h(p, ident, *r):
        if p is not reports.warning: errs.append(ident)
    try:
        with reports.handle_reports(h):
            base, code = Compiler().compile_and_link_files([parse(sp, src)])
        res = file_formats["bin"](base, code)
        exp = open(os.path.join(root, name, "out.bin"), "rb").read()
        if res == exp: ok += 1
        else: bad += 1; print("MISMATCH", name)
    except BaseException as e:
        bad += 1; print("FAIL", name, type(e).__name__, errs[:3])
print(repo, "ok", ok, "bad", bad)
