#!/usr/bin/env python3
"""Run every registered check against the seeded bug-introducing changes under /verif/seeded/<id>/ (not refactor-*).
Each change is applied to a scratch copy of /repo (package + tests), its demo.py must exit 1 there and 0 on the clean
tree, and the checks are run with --repo <scratch>. 16 workers. --record writes detected_by/verified into meta.json.
(The same can be done in place: git -C /repo apply <patch>; ./check <ID>; git -C /repo checkout -- .)"""
import concurrent.futures, glob, json, os, shutil, subprocess, sys, tempfile
V = os.path.dirname(os.path.dirname(os.path.abspath(__file__)))
record = "--record" in sys.argv
dirs = [os.path.abspath(a) for a in sys.argv[1:] if a != "--record"] or [d for d in sorted(glob.glob(os.path.join(V, "seeded", "*"))) if not os.path.basename(d).startswith("refactor-")]
props = [c["property_id"] for c in json.load(open(os.path.join(V, "MANIFEST.json")))["checks"]]
def sh(cmd, **kw):
    return subprocess.run(cmd, shell=True, capture_output=True, text=True, **kw)
def one(d):
    patch = os.path.join(d, "patch.diff")
    if not os.path.exists(patch):
        return None
    meta = json.load(open(os.path.join(d, "meta.json"))) if os.path.exists(os.path.join(d, "meta.json")) else {}
    tmp = tempfile.mkdtemp(prefix="sa-seed-")
    try:
        shutil.copytree("/repo/pdpy11", os.path.join(tmp, "pdpy11"))
        r = sh(f"patch -p1 -s -i {patch}", cwd=tmp)
        if r.returncode:
            return f"{os.path.basename(d)}: PATCH DOES NOT APPLY: {r.stdout.strip()[:200]}"
        demo = sh(f"PYTHONPATH={tmp} timeout 120 /venv/bin/python {os.path.join(d, 'demo.py')}", cwd=d) if os.path.exists(os.path.join(d, "demo.py")) else None
        clean = sh(f"PYTHONPATH=/repo timeout 120 /venv/bin/python {os.path.join(d, 'demo.py')}", cwd=d) if demo is not None else None
        hits, errs = [], []
        for p in props:
            c = sh(f"SA_NO_EVIDENCE=1 ./check {p} --repo {tmp}", cwd=V)
            if c.returncode == 1:
                rules = sorted({l.split("]")[0].strip()[1:] for l in c.stdout.splitlines() if l.startswith("  [")})
                hits.append(f"{p}({','.join(rules)})")
            elif c.returncode != 0:
                errs.append(p)
    finally:
        shutil.rmtree(tmp, ignore_errors=True)
    if record and meta:
        meta["detected_by"] = hits
        meta["verified"] = {"demo_exit_with_change": demo.returncode if demo else None, "demo_exit_clean": clean.returncode if clean else None,
                            "ran": "patch applied to a scratch copy of /repo; demo.py with PYTHONPATH=<scratch> and =/repo; ./check <all 19> --repo <scratch>"}
        json.dump(meta, open(os.path.join(d, "meta.json"), "w"), indent=1, ensure_ascii=False)
    return (f"{os.path.basename(d)}: property={meta.get('property')} demo(mutated)={demo.returncode if demo else '-'} demo(clean)={clean.returncode if clean else '-'} "
            f"DETECTED-BY={' '.join(hits) or 'NONE'}" + (f" analysis-errors={' '.join(errs)}" if errs else ""))
if __name__ == "__main__":
    with concurrent.futures.ThreadPoolExecutor(8) as ex:
        for line in ex.map(one, dirs):
            if line:
                print(line, flush=True)
