#!/usr/bin/env python3
"""Run registered checks against seeded changes: apply each patch to /repo, run demo + checks, undo.
usage: seeded.py [dir ...]   (default: /verif/seeded/*)"""
import glob, json, os, subprocess, sys
V = os.path.dirname(os.path.dirname(os.path.abspath(__file__)))
record = "--record" in sys.argv
dirs = [a for a in sys.argv[1:] if a != "--record"] or sorted(glob.glob(os.path.join(V, "seeded", "*")))
man = json.load(open(os.path.join(V, "MANIFEST.json")))
props = [c["property_id"] for c in man["checks"]]
def sh(cmd, **kw):
    return subprocess.run(cmd, shell=True, capture_output=True, text=True, **kw)
assert sh("git -C /repo status --porcelain").stdout.strip() == "", "/repo is dirty"
for d in dirs:
    patch = os.path.join(d, "patch.diff")
    if not os.path.exists(patch):
        continue
    meta = json.load(open(os.path.join(d, "meta.json"))) if os.path.exists(os.path.join(d, "meta.json")) else {}
    r = sh(f"git -C /repo apply {patch}")
    if r.returncode:
        print(f"{os.path.basename(d)}: PATCH DOES NOT APPLY: {r.stderr.strip()[:200]}")
        continue
    try:
        demo = sh(f"PYTHONPATH=/repo timeout 120 /venv/bin/python {os.path.join(d, 'demo.py')}", cwd=d) if os.path.exists(os.path.join(d, "demo.py")) else None
        hits, errs = [], []
        for p in props:
            c = sh(f"SA_NO_EVIDENCE=1 ./check {p}", cwd=V)
            if c.returncode == 1:
                rules = sorted({l.split("]")[0].strip()[1:] for l in c.stdout.splitlines() if l.startswith("  [")})
                hits.append(f"{p}({','.join(rules)})")
            elif c.returncode != 0:
                errs.append(p)
    finally:
        sh("git -C /repo checkout -- .")
    clean = sh(f"PYTHONPATH=/repo timeout 120 /venv/bin/python {os.path.join(d, 'demo.py')}", cwd=d) if demo is not None else None
    if record and meta:
        meta["detected_by"] = hits
        meta["verified"] = {"demo_exit_with_change": demo.returncode if demo else None, "demo_exit_clean": clean.returncode if clean else None,
                            "ran": "git -C /repo apply patch.diff; demo.py; ./check <all 19>; git -C /repo checkout -- .; demo.py"}
        json.dump(meta, open(os.path.join(d, "meta.json"), "w"), indent=1, ensure_ascii=False)
    print(f"{os.path.basename(d)}: property={meta.get('property')} demo(mutated)={demo.returncode if demo else '-'} demo(clean)={clean.returncode if clean else '-'} "
          f"DETECTED-BY={' '.join(hits) or 'NONE'}" + (f" analysis-errors={' '.join(errs)}" if errs else ""))
