#!/usr/bin/env python3
"""selftest/refactor.py for a subset of the checks, 14 refactorings at a time:  refactor_par.py C05 C17 ...
(the sequential tool runs all 19 checks on all refactorings, about 35 min; this one is for re-grading the checks a change touched)"""
import concurrent.futures, glob, os, shutil, subprocess, sys, tempfile
V = os.path.dirname(os.path.dirname(os.path.abspath(__file__)))
props = sys.argv[1:]


def one(d):
    tmp = tempfile.mkdtemp(prefix="sa-ref-")
    out = []
    try:
        shutil.copytree("/repo/pdpy11", os.path.join(tmp, "pdpy11"))
        r = subprocess.run(["patch", "-p1", "-s", "-i", os.path.join(d, "patch.diff")], cwd=tmp, capture_output=True, text=True)
        if r.returncode:
            return f"{os.path.basename(d)}: patch does not apply"
        for p in props:
            c = subprocess.run([os.path.join(V, "check"), p, "--repo", tmp], capture_output=True, text=True, cwd=V, env={**os.environ, "SA_NO_EVIDENCE": "1"})
            if c.returncode:
                out.append(f"{p}=exit{c.returncode} " + " | ".join(l.strip()[:200] for l in c.stdout.splitlines() if l.startswith("  [") or l.startswith("ANALYSIS-ERROR"))[:500])
    finally:
        shutil.rmtree(tmp, ignore_errors=True)
    return f"{os.path.basename(d)}: " + ("; ".join(out) or "clean")


if __name__ == "__main__":
    bad = 0
    with concurrent.futures.ThreadPoolExecutor(14) as ex:
        for line in ex.map(one, sorted(glob.glob(os.path.join(V, "seeded", "refactor-*")))):
            print(line, flush=True)
            bad += not line.endswith(": clean")
    print(f"{bad} not clean")
    sys.exit(1 if bad else 0)
