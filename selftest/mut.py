#!/usr/bin/env python3
"""Apply one textual edit to a scratch copy of /repo's package and run checks on it.
usage: mut.py PROP[,PROP..] FILE OLD NEW [COUNT]     (OLD must occur exactly COUNT (default 1) times)"""
import os, shutil, subprocess, sys, tempfile
def run(props, file, old, new, count=1, repo="/repo", quiet=False):
    d = tempfile.mkdtemp(prefix="sa-mut-")
    try:
        shutil.copytree(os.path.join(repo, "pdpy11"), os.path.join(d, "pdpy11"))
        p = os.path.join(d, "pdpy11", file)
        s = open(p).read()
        if s.count(old) != count:
            return [("EDIT-FAILED", f"{file}: pattern occurs {s.count(old)} times, expected {count}")]
        open(p, "w").write(s.replace(old, new))
        import py_compile
        try:
            py_compile.compile(p, doraise=True, cfile=os.path.join(d, "x.pyc"))
        except py_compile.PyCompileError as ex:
            return [("EDIT-FAILED", f"does not compile: {ex}")]
        out = []
        for prop in props:
            r = subprocess.run([os.path.join(os.path.dirname(os.path.abspath(__file__)), "..", "check"), prop, "--repo", d],
                               capture_output=True, text=True, env={**os.environ, "SA_NO_EVIDENCE": "1"})
            lines = [l for l in r.stdout.splitlines() if l.startswith("  [") or l.startswith("ANALYSIS-ERROR") or l.startswith("KNOWN")]
            out.append((prop, r.returncode, lines))
        return out
    finally:
        shutil.rmtree(d, ignore_errors=True)
if __name__ == "__main__":
    props = sys.argv[1].split(",")
    res = run(props, sys.argv[2], sys.argv[3], sys.argv[4], int(sys.argv[5]) if len(sys.argv) > 5 else 1)
    for r in res:
        if r[0] == "EDIT-FAILED":
            print(r); sys.exit(3)
        prop, code, lines = r
        print(f"{prop}: exit {code}")
        for l in lines[:8]: print("   ", l[:300])
