"""Seeded single-site edits (each keeps the package importable and the 180 pinned tests green) with the rule that
must report them. Used by `selftest/run.py` and by the sensitivity run of the thorough tier.
Entry: (property, file, old, new, expected rule prefix). Negative entries (expected None) must stay silent."""

M = []
def m(prop, file, old, new, rule):
    M.append((prop, file, old, new, rule))

# ---- C01
m("C01", "architecture.py", '"mov"   : "01ssdd"', '"mov"   : "01ddss"', "C01.T1")
m("C01", "architecture.py", '"blo"   : "103[1oo]oo"', '"blo"   : "103[0oo]oo"', "C01.")
m("C01", "insns.py", "0o60 | register", "0o70 | register", "C01.T2")
m("C01", "insns.py", "str((value >> i) & 1)", "str((value >> index) & 1)", "C01.T3")
m("C01", "insns.py", 'return struct.pack("<H", int(str_opcode_pattern, 2))', 'return struct.pack(">H", int(str_opcode_pattern, 2))', "C01.T3")
m("C01", "insns.py", "max_value = 2 ** bitness - 1", "max_value = 2 ** bitness", "C01.T4")
m("C01", "insns.py", '"sp": 6', '"sp": 7', "C01.T2r")
m("C01", "insns.py", "if cnt_d == 0:\n                operands.append(operand)", "if cnt_d != 0:\n                operands.append(operand)", "C01.T1")
m("C01", "insns.py", 'operands.append(RegisterModeOperandStub("s", [11, 10, 9, 8, 7, 6]))', 'operands.append(RegisterModeOperandStub("s", [5, 4, 3, 2, 1, 0]))', "C01.T1")
m("C01", "insns.py", "if acc >= 2 ** len(self.bit_indexes):", "if acc >= 2 ** len(self.bit_indexes) + 2:", "C01.T4")
# ---- C02
m("C02", "metacommands.py", 'size=lambda state, *operands: 2 * (len(operands) or 1), alias=".dw"', 'size=lambda state, *operands: 2 * len(operands), alias=".dw"', "C02.R1")
m("C02", "deferred.py", "            else:\n                total_len += len(elem)", "            else:\n                pass", "C02.R4")
m("C02", "compiler.py", '"emit_address": addr,', '"emit_address": start,', "C02.R3")
m("C02", "compiler.py", 'link_base["promise"].settle(addr)', 'link_base["promise"].settle(0)', "C02.R6")
m("C02", "metacommands.py", 'return struct.pack("<H", value >> 16) + struct.pack("<H", value & 0xffff)', 'return struct.pack("<H", value & 0xffff)', "C02.R1")
m("C02", "compiler.py", "closure(insn, state, addr)", "closure(insn, state, start)", None)   # not a capture bug: wrong value, caught by C12.R4
m("C12", "compiler.py", "closure(insn, state, addr)", "closure(insn, state, start)", None)
# ---- C03
m("C03", "deferred.py", "new_constant_term += key.constant_term * value", "new_constant_term += key.constant_term", "C03.R7")
m("C03", "deferred.py", "return LinearPolynomial[int]({key: value * lhs for key, value in self.coeffs.items()}, self.constant_term * lhs)", "return LinearPolynomial[int]({key: value * lhs for key, value in self.coeffs.items()}, self.constant_term)", "C03.R7")
m("C03", "deferred.py", "new_coeffs += [(key1, value1 * value) for key1, value1 in key.coeffs.items()]", "new_coeffs += list(key.coeffs.items())", "C03.R7")
m("C03", "types.py", "        not_ready()\n        # TODO", "        # TODO", "C03.R1")
m("C03", "deferred.py", "            self.value = self.fn()\n            self.settled = True", "            self.settled = True\n            self.value = self.fn()", "C03.R2")
m("C03", "deferred.py", "            return lhs + (-self)", "            return lhs + self", "C03.R7")
m("C03", "deferred.py", "return LinearPolynomial[int]({key: -value for key, value in self.coeffs.items()}, -self.constant_term)", "return LinearPolynomial[int]({key: -value for key, value in self.coeffs.items()}, self.constant_term)", "C03.R7")
m("C03", "deferred.py", "        self.depth -= 1\n        return exc_type is NotReadyError", "        self.depth -= 1\n        return exc_type is not None", "C03.R3")
# ---- C04
m("C04", "insns.py", "+ 2 + len(operands_encoding)", "+ 2", "C04.R1")
m("C04", "insns.py", "max_offset = 0 if self.unsigned else 2 ** bitness - 2", "max_offset = 0 if self.unsigned else 2 ** bitness", "C04.R3")
m("C04", "insns.py", "return -offset // 2", "return offset // 2", "C04.R3")
m("C04", "insns.py", 'wait(operand.resolve(state) - state["rel_address"] - 2) % (2 ** 16)', 'wait(operand.resolve(state) - state["rel_address"]) % (2 ** 16)', "C04.R2")
m("C04", "insns.py", "            if offset % 2 == 1:", "            if offset % 4 == 1:", "C04.R3")
m("C04", "insns.py", "min_offset = -2 ** (bitness + self.unsigned) + 2 * self.unsigned", "min_offset = -2 ** (bitness + self.unsigned) + 2", "C04.R3")
# ---- C05
m("C05", "operators.py", '@operator("x & x", precedence=8', '@operator("x & x", precedence=9', "C05.R1")
m("C05", "operators.py", "        return a // b", "        return int(a / b)", "C05.R2")
m("C05", "parser.py", '("^O", "An octal", r"[0-7]", 8)', '("^O", "An octal", r"[0-7]", 10)', "C05.R4")
m("C05", "parser.py", "return types.Number(ctx_start, ctx, num, int(num, 10) * sign, is_valid_label=True, invalid_base8=True)", "return types.Number(ctx_start, ctx, num, int(num, 10) * sign, is_valid_label=True, invalid_base8=False)", "C05.R5")
m("C05", "types.py", 'struct.unpack("<H", bytes_value)[0]', 'struct.unpack(">H", bytes_value)[0]', "C05.R7")
m("C05", "parser.py", "return types.Number(ctx_start, ctx, sign_str + prefix + num, int(num, base) * sign, is_valid_label=False)", "return types.Number(ctx_start, ctx, sign_str + prefix + num, int(num, base), is_valid_label=False)", "C05.R4")
# ---- C06
m("C06", "metacommand_impl.py", "if value <= -2 ** bitness:", "if value < -2 ** bitness:", "C06.R1")
m("C06", "metacommand_impl.py", "return value % (2 ** bitness)", "return value", "C06.R1")
m("C06", "metacommands.py", "def byte(state, *byte_operand: int8)", "def byte(state, *byte_operand: int16)", "C06.R23")
m("C06", "metacommands.py", 'struct.pack("<H", value >> 16) + struct.pack("<H", value & 0xffff)', 'struct.pack("<H", value & 0xffff) + struct.pack("<H", value >> 16)', "C06.R23")
m("C06", "metacommands.py", 'return b"\\x00\\x00" * blkw_count', 'return b"\\x00" * blkw_count', "C06.R4")
m("C06", "metacommands.py", 'return b"\\x00" if wait(state["emit_address"]) % 2 == 1 else b""', 'return b"\\x00" if wait(state["emit_address"]) % 2 == 0 else b""', "C06.R4")
m("C06", "metacommands.py", "bitness=8, unsigned=True, default=0))", "bitness=8, unsigned=False, default=0))", "C06.R6")
m("C06", "parser.py", 'elif char == "t":\n        return "\\t"', 'elif char == "t":\n        return "\\n"', "C06.R6e")
m("C06", "metacommands.py", "    if count == 0:\n", "    if count < 0:\n", "P1")
# ---- C07
m("C07", "reports.py", "if priority in (error, critical):", "if priority is critical:", "C07.R1")
m("C07", "reports.py", "if exc_type is None or exc_type is RecoverableError:\n                    raise UnrecoverableError()", "if exc_type is RecoverableError:\n                    raise UnrecoverableError()", "C07.R2")
m("C07", "_cli.py", "    except reports.UnrecoverableError:\n        sys.exit(1)", "    except reports.UnrecoverableError:\n        pass", "C07.R4")
m("C07", "reports.py", "        if priority is warning:\n            if identifier in self.warning_control:", "        if priority is not critical:\n            if identifier in self.warning_control:", "C07.R5")
m("C07", "_cli.py", "comp = Compiler(output_charset=args.charset)", 'comp = Compiler(output_charset=args.charset if args.warnings is None else "utf-8")', "C07.R6")
m("C07", "reports.py", "max_line_no = min(max(report.line_no for report in reports_lst) + 3, len(lines))", "max_line_no = min(max(report.line_no for report in reports_lst) + 3, len(lines) - 1)", "C07.R9")
m("C07", "metacommands.py", 'def make_raw(state, raw_file_path: str=None) -> bytes:\n    add_emitted_file(state, raw_file_path, "raw", None)', 'def make_raw(state, raw_file_path: str=None) -> bytes:\n    open(raw_file_path, "wb").close()\n    add_emitted_file(state, raw_file_path, "raw", None)', "C07.R3")
# ---- C08
m("C08", "metacommand_impl.py", "            try:\n                return self.fn(state, *cooked_operands)", "            assert len(operands) < 8\n            try:\n                return self.fn(state, *cooked_operands)", "G2")
m("C08", "parser.py", '    if string is None:\n        string = ""\n', "", "G3")
m("C08", "metacommands.py", "if val >= 40:", "if val > 0o50:", "P6")
m("C08", "operators.py", "    try:\n        return a % b\n    except ZeroDivisionError:\n        reports.error(\n            \"arithmetic-error\",\n            (token.ctx_start, token.ctx_end, \"Division by zero\")\n        )\n        return 0", "    return a % b", "P1")
m("C08", "types.py", "        except (ValueError, OverflowError):", "        except ValueError:", "P11")
m("C08", "metacommands.py", "    except (IOError, ValueError):\n        # ValueError: the path cannot name a file at all, e.g. contains '\\0'\n        reports.error(", "    except IOError:\n        reports.error(", "P10")
m("C08", "parser.py", 'if re.fullmatch(r"[0-9]+", num):', "if num.isdigit():", "P5")
m("C03", "deferred.py", "        if not self.settled:\n            not_ready()\n            raise Exception", "        if not self.settled:\n            raise Exception", "C03.R1")  # reported under C03; C08's table keeps the raise as reasoned
# ---- C09 / C10
m("C09", "insns.py", 'get_as_int(state, "an immediate value", operand, operand.operand, bitness=16, unsigned=False))', 'get_as_int(state, "an immediate value", operand, operand.operand, bitness=16, unsigned=False) + wait(state["emit_address"]))', "C09.R23")
m("C10", "insns.py", "if isinstance(operand, Symbol) and not operand.is_necessarily_label and operand.name.lower() in REGISTER_NAMES:\n        return REGISTER_NAMES[operand.name.lower()]", "if isinstance(operand, Symbol) and not operand.is_necessarily_label and operand.name in REGISTER_NAMES:\n        return REGISTER_NAMES[operand.name]", "G6")
m("C10", "containers.py", "return isinstance(key, str) and key.lower() in self.container", "return isinstance(key, str) and key in self.container", "G6.tab")
m("C10", "parser.py", "def regex(cls, regex, skip_whitespace_before=True, case_sensitive=False):", "def regex(cls, regex, skip_whitespace_before=True, case_sensitive=True):", "G6.par")
m("C10", "compiler.py", "        self.symbols = CaseInsensitiveDict()", "        self.symbols = {}", "G6.tab")
m("C10", "metacommands.py", 'if symbol.name.lower() == "all":', 'if symbol.name == "all":', "G6")
m("C10", "parser.py", 'insn.name.name.lower() in ("end", ".end")', 'insn.name.name in ("end", ".end")', "G6")
# ---- C11
m("C11", "compiler.py", 'local_symbol_prefix = f".local{self.next_local_symbol_prefix}."\n        self.next_local_symbol_prefix += 1\n\n        try:', 'local_symbol_prefix = f".local{self.next_local_symbol_prefix}"\n        self.next_local_symbol_prefix += 1\n\n        try:', "C11.R1k")
m("C11", "compiler.py", "                    if not insn.local:\n                        local_symbol_prefix = f\".local{self.next_local_symbol_prefix}.\"\n                        self.next_local_symbol_prefix += 1", "                    if not insn.local:\n                        pass", "C11.R3")
m("C11", "compiler.py", '        if label.local:\n            name = state["local_symbol_prefix"] + label.name', '        if label.local and False:\n            name = state["local_symbol_prefix"] + label.name', "C11.R1")
m("C11", "compiler.py", "        self.next_internal_symbol_prefix += 1\n        return self.compile_block", "        return self.compile_block", "C11.R3")
m("C11", "metacommands.py", 'state["extern_all"] = symbol', 'state["extern_all"] = True', "C11.R5")
# ---- C12
m("C12", "compiler.py", 'link_base["promise"].settle(0o1000)', 'link_base["promise"].settle(0o2000)', "C12.R1")
m("C12", "compiler.py", "            except DeferredCycle:", "            except KeyError:", "C12.R3")
m("C12", "compiler.py", "if length < 0:", "if length < -1:", "C12.R4")
m("C12", "compiler.py", 'return b"\\x00" * length', 'return b"\\x00" * (length + 1)', "C12.R4")
# ---- C13
m("C13", "formats.py", 'struct.pack("<HH", base, len(code)) + code', 'struct.pack("<HH", len(code), base) + code', "C13.R1")
m("C13", "bk_wav.py", "36 + len(data)", "44 + len(data)", "C13.R2")
m("C13", "bk_wav.py", "(byte >> i) & 1", "(byte >> (7 - i)) & 1", "C13.R4")
m("C13", "bk_wav.py", "[env.ZERO, env.ONE]", "[env.ONE, env.ZERO]", "C13.R4")
m("C13", "bk_wav.py", 'ONE = translate_audio_levels("SSLLHHHHLLLL")', 'ONE = translate_audio_levels("SSLLHHHLLLLL")', "C13.R5")
m("C13", "metacommands.py", 'ljust(16, b" ")', 'ljust(16, b"\\0")', "C13.R8")
m("C13", "bk_wav.py", "            + env.PAUSE\n            + encode_data_bits(code, env)", "            + encode_data_bits(code, env)\n            + env.PAUSE", "C13.R3")
m("C13", "_cli.py", 'if output_filename.lower().endswith(".bin"):', 'if output_filename.endswith(".bin"):', "CLI")
m("C13", "bk_wav.py", "    while result > 0xffff:\n        result = (result & 0xffff) + (result >> 16)\n    return result", "    return ((result & 0xffff) + (result >> 16)) & 0xffff", "C13.R6")
m("C13", "bk_wav.py", "    while result > 0xffff:\n        result = (result & 0xffff) + (result >> 16)\n    return result", "    return ((result - 1) % 65535 + 1) if result else 0", None)   # equivalent closed form: must stay silent
# ---- C14 / C15
m("C14", "bk_encoding.py", '"ю"   , "а"', '"а"   , "ю"', "C14.table")
m("C14", "bk_encoding.py", "DECODING_TABLE[char][0]", "DECODING_TABLE[char][-1]", "C14.fn")
m("C14", "bk_encoding.py", "start += 1", "start += 2", "C14.fn")
m("C15", "radix50.py", "$.%", ".$%", "C15.table")
m("C15", "radix50.py", "* 1600", "* 1640", "C15.pack")
m("C15", "metacommands.py", "radix50.TABLE.index(char.upper())", "radix50.TABLE.index(char)", "C15.rad50")
m("C15", "metacommands.py", "a * 1600 + b * 40 + c", "a * 1600 + c * 40 + b", "C15.rad50")
m("C15", "parser.py", "string = string.upper()", "string = string", "C15.lit")
# ---- C16 .. C19
m("C16", "metacommands.py", "        chunk = state[\"compiler\"].compile_block({**state, \"context\": \"repeat\"}, body, addr)", "        chunk = state[\"compiler\"].compile_block({**state, \"context\": \"repeat\"}, body, state[\"emit_address\"])", "C16.R2")
m("C16", "metacommands.py", 'if state["compiler"].times_file_compiled[state["filename"]] > 1:', 'if state["compiler"].times_file_compiled[state["filename"]] >= 1:', "C16.R3")
m("C16", "compiler.py", "        except CompilerStopIteration:\n            pass", "        except KeyError:\n            pass", "C16.R4")
m("C16", "types.py", "    def resolve(self, state):\n        return self._resolve(state)[1]", "    def resolve(self, state):\n        self.cached = self._resolve(state)[1]\n        return self.cached", "G4")
m("C17", "parser.py", "            operands.append(oper)\n            ctx_before_comma = ctx.save()", "            operands.append(oper)", "G9")
m("C17", "types.py", "self.ctx_start = None if ctx_start is None else ctx_start.save()", "self.ctx_start = None if ctx_start is None else ctx_start", "C17.tok")
m("C17", "context.py", '.count("\\t") * 3\n        return', '.count("\\t") * 4\n        return', "C17.col")
m("C17", "insns.py", '(operand.ctx_start, operand.ctx_end, "...but this value does not look like a register")', '(insn.ctx_start, operand.ctx_end, "...but this value does not look like a register")', "G9")
m("C18", "deferred.py", "    def __exit__(self, exc_type, exc_value, exc_tb):\n        self.depth -= 1\n        return exc_type is NotReadyError", "    def __exit__(self, exc_type, exc_value, exc_tb):\n        if exc_type is not None and exc_type is not NotReadyError:\n            return False\n        self.depth -= 1\n        return exc_type is NotReadyError", "G5.bal")
m("C18", "reports.py", "        assert self.handlers_stack.pop() is self\n", "        assert self.handlers_stack[-1] is self\n", "G5.bal")
m("C18", "compiler.py", "        for filename, labels in labels_by_file.items():", "        for filename, labels in set(labels_by_file.items()):", "G5.det")
m("C18", "types.py", "        for name in candidates:\n            if name in compiler.symbols:\n                return compiler.symbols[name]", "        for name in candidates:\n            if name in compiler.symbols:\n                reports.WARNING_CLASSES[name] = []\n                return compiler.symbols[name]", "G5.inv")
m("C19", "compiler.py", "labels.sort(key=lambda item: (item[1], item[0]))", "labels.sort(key=lambda item: (item[0], item[1]))", "C19.text")
m("C19", "compiler.py", 'oct(value)[2:].rjust(6, "0")', 'oct(value)[2:].rjust(5, "0")', "C19.text")
m("C19", "_cli.py", 'lst_file += ".lst"', 'lst_file += ".txt"', "CLI")
m("C19", "compiler.py", '            "format": self.emitted_files[0][2],\n            "path": self.emitted_files[0][3]', '            "format": file_format,\n            "path": filepath', "C19.path")
# ---- negatives: behaviour-preserving edits every rule must stay silent on
for p in ("C01", "C02", "C04", "C06", "C09"):
    m(p, "architecture.py", '"halt"  : "000000"', '"halt"  : "00000[000]"', None)                       # another spelling of the same pattern
m("C12", "compiler.py", 'link_base["promise"].settle(0o1000)', 'link_base["promise"].settle(512)', None)  # same constant, another radix
m("C06", "metacommand_impl.py", "if value <= -2 ** bitness:", "if value < -2 ** bitness + 1:", None)      # same bound
m("C04", "insns.py", "max_offset = 0 if self.unsigned else 2 ** bitness - 2", "max_offset = 0 if self.unsigned else (1 << bitness) - 2", None)
m("C03", "types.py", "            state[\"local_symbol_prefix\"] + self.name,\n            state[\"internal_symbol_prefix\"] + self.name", "            state[\"internal_symbol_prefix\"] + self.name,\n            state[\"local_symbol_prefix\"] + self.name", None)   # disjoint key spaces
m("C11", "types.py", "            state[\"local_symbol_prefix\"] + self.name,\n            state[\"internal_symbol_prefix\"] + self.name", "            state[\"internal_symbol_prefix\"] + self.name,\n            state[\"local_symbol_prefix\"] + self.name", None)
m("C08", "metacommand_impl.py", "            try:\n                return self.fn(state, *cooked_operands)\n            except reports.RecoverableError:\n                return b\"\"", "            return self.fn(state, *cooked_operands)", None)  # already reported; scope exit still fails the run
m("C19", "compiler.py", 'label_name = name[9:].partition(".")[2]', 'label_name = name[8:].partition(".")[2]', None)   # same name: partition after the first dot
m("C13", "formats.py", 'struct.pack("<HH", base, len(code)) + code', 'struct.pack("<H", base) + struct.pack("<H", len(code)) + code', None)
# ---- round 3 rules: G12 (evaluation depth), G13 (loop variants), G1 state updates, G5.memo / G5.viv, C14.flow, C15 multi-piece, C11.R3 include route
m("C03", "compiler.py", "Deferred[int](lambda: insn.value.resolve(state), insn.target.name)", "Deferred[int](lambda: wait(insn.value.resolve(state)), insn.target.name)", "G12")
m("C08", "compiler.py", "Deferred[int](lambda: insn.value.resolve(state), insn.target.name)", "Deferred[int](lambda: wait(insn.value.resolve(state)), insn.target.name)", "G12")
m("C08", "bk_wav.py", "while result > 0xffff:", "while result >= 0xffff:", "G13")
m("C13", "bk_wav.py", "while result > 0xffff:", "while result >= 0xffff:", "C13.R6")
m("C13", "bk_wav.py", "while result > 0xffff:", "while result > 0x1ffff:", "C13.R6")
m("C08", "context.py", "                if self.pos == -1:\n                    self.pos = len(self.code)\n", "", "G13")
m("C08", "context.py", "            if self.code[self.pos].strip() == \"\":\n                self.pos += 1", "            if self.code[self.pos].strip() == \"\":\n                self.pos += 0", "G13")
m("C08", "metacommands.py", "    while len(characters) % 3 != 0:\n        characters.append(0)", "    while len(characters) % 3 != 0:\n        characters.extend([0, 0, 0])", "G13")
m("C04", "insns.py", 'stub.encode(operand_expr, {**state, "rel_address": state["emit_address"] + 2 + len(operands_encoding)})',
  'stub.encode(operand_expr, state)\n            state["rel_address"] = 0', "G1")
m("C18", "parser.py", "def parse(filename, text):", "import functools\n@functools.lru_cache(maxsize=None)\ndef parse(filename, text):", "G5.memo")
m("C12", "parser.py", "def parse(filename, text):", "import functools\n@functools.lru_cache(maxsize=None)\ndef parse(filename, text):", "G5.memo")
m("C18", "devices.py", "    if not is_device_path(path):\n        # 'mode'", "    if not DEVICES[path[1:].split()[0] if path.startswith('~') else path]:\n        # 'mode'", "G5.viv")
m("C14", "parser.py", "    return types.QuotedString(ctx_start, ctx, quote, value)", "    return types.QuotedString(ctx_start, ctx, quote, value.casefold() if not value.isascii() else value)", "C14.flow")
m("C15", "metacommands.py", "    while len(characters) % 3 != 0:\n        characters.append(0)\n", "        while len(characters) % 3 != 0:\n            characters.append(0)\n", "C15.rad50")
m("C11", "compiler.py", "        self.internal_prefix_to_state[self.next_internal_symbol_prefix] = state\n        self.next_internal_symbol_prefix += 1", "        self.internal_prefix_to_state[self.next_internal_symbol_prefix] = state\n        self.next_internal_symbol_prefix += (start == 0 or link_base is not None and \"set_where\" not in link_base)", "C11.R3")
m("C02", "deferred.py", "            else:\n                total_len += len(elem)", "            elif isinstance(elem, self.typ):\n                total_len += len(elem)", "C02.R4")
# negatives for the new rules
m("C08", "bk_wav.py", "while result > 0xffff:", "while result >= 0x10000:", None)
m("C13", "bk_wav.py", "while result > 0xffff:", "while result >= 0x10000:", None)
m("C08", "context.py", "        while self.pos < len(self.code):", "        end = len(self.code)\n        while self.pos < end:", None)
m("C04", "insns.py", 'stub.encode(operand_expr, {**state, "rel_address": state["emit_address"] + 2 + len(operands_encoding)})',
  'stub.encode(operand_expr, dict(state, rel_address=state["emit_address"] + 2 + len(operands_encoding)))', None)
m("C01", "insns.py", 'opcode_inline_value, operand_encoding = stub.encode(operand_expr, {**state, "rel_address": state["emit_address"] + 2 + len(operands_encoding)})',
  'operand_state = dict(state)\n            operand_state["rel_address"] = state["emit_address"] + 2 + len(operands_encoding)\n            opcode_inline_value, operand_encoding = stub.encode(operand_expr, operand_state)', None)
m("C04", "insns.py", 'opcode_inline_value, operand_encoding = stub.encode(operand_expr, {**state, "rel_address": state["emit_address"] + 2 + len(operands_encoding)})',
  'operand_state = dict(state)\n            operand_state["rel_address"] = state["emit_address"] + 2 + len(operands_encoding)\n            opcode_inline_value, operand_encoding = stub.encode(operand_expr, operand_state)', None)
m("C03", "operators.py", "            return Deferred[self.return_type](lambda: invoke(wait(operand)))", "            return Deferred[self.return_type](lambda: invoke(wait(operand)))  # forced here", None)
# C10.parse
m("C10", "context.py", '            elif self.code[self.pos] == ";":', '            elif self.code[self.pos] == "#":', "C10.parse")
m("C10", "context.py", '            if self.code[self.pos].strip() == "":', '            if self.code[self.pos] == " " or self.code[self.pos] == "\\n":', "C10.parse")
# ---- round 4 rules
m("C16", "operators.py", "        invoke = self.fn if self.token else type(self).fn\n        if not self.pure:\n            invoke = wrap_impure(self, invoke)\n\n        if not isinstance(lhs, BaseDeferred)",
  "        invoke = self.fn if self.token else type(self).fn\n        invoke = wrap_impure(self, invoke)\n\n        if not isinstance(lhs, BaseDeferred)", "G4.re")
m("C02", "operators.py", "        invoke = self.fn if self.token else type(self).fn\n        if not self.pure:\n            invoke = wrap_impure(self, invoke)\n\n        if not isinstance(lhs, BaseDeferred)",
  "        invoke = self.fn if self.token else type(self).fn\n        invoke = wrap_impure(self, invoke)\n\n        if not isinstance(lhs, BaseDeferred)", "G4.re")
m("C16", "deferred.py", "                return Concatenator[self.typ](self.lst + rhs.lst)", "                self.lst.extend(rhs.lst)\n                return self", "G4.def")
m("C17", "reports.py", "    handler(priority, identifier, *reports)\n\n    if priority in (error, critical):", "    handler(priority, identifier, *reversed(reports))\n\n    if priority in (error, critical):", "R.deliver")
m("C13", "devices.py", "    return match is not None and match[1].lower() in DEVICES", "    return match is not None", "C13.R7d")
m("C08", "metacommands.py", "    if compiler.include_depth >= MAX_INCLUDE_DEPTH:", "    if compiler.include_depth >= MAX_INCLUDE_DEPTH and compiler.include_depth < 0:", "G14")
m("C08", "metacommands.py", "    compiler.include_depth += 1\n    try:", "    compiler.include_depth += 0\n    try:", "G14")
m("C08", "metacommands.py", "    if compiler.include_depth >= MAX_INCLUDE_DEPTH:", "    if compiler.include_depth > MAX_INCLUDE_DEPTH - 1:", None)
m("C08", "metacommands.py", "    if compiler.include_depth >= MAX_INCLUDE_DEPTH:", "    if not compiler.include_depth < MAX_INCLUDE_DEPTH:", None)
m("C10", "insns.py", "    elif isinstance(operand, operators.register):", "    elif isinstance(operand, operators.register) and state is None:", "C01.T")
m("C05", "deferred.py", "                new_coeffs += [(key1, value1 * value) for key1, value1 in key.coeffs.items()]", "                new_coeffs = dict(new_coeffs); new_coeffs.update({key1: value1 * value for key1, value1 in key.coeffs.items()}); new_coeffs = list(new_coeffs.items())", "C03.R7")
# G13n, G3 type guard, G11 addresses
m("C08", "parser.py", 'Parser.regex(r"[a-z_0-9$.]+"', 'Parser.regex(r"[a-z_0-9$.]*"', "G13n")
m("C08", "compiler.py", "old_addr_value = wait(old_addr)", "old_addr_value = old_addr", "G11")
m("C08", "metacommands.py", "    return b\"\\x00\" * ((-wait(state[\"emit_address\"])) % count)", "    return b\"\\x00\" * ((-state[\"emit_address\"]) % count)", "G11")
# ---- mutation rounds 5-6: argument contracts, spans, forced values
m("C04", "insns.py", "value = wait(opcode_inline_value)", "value = opcode_inline_value", "G11.res")
m("C03", "insns.py", "value = wait(opcode_inline_value)", "value = opcode_inline_value", "G11.res")
m("C06", "metacommand_impl.py", 'cooked_operand = get_as_str(state, comment, state["insn"], operand)', 'cooked_operand = get_as_str(comment, state, state["insn"], operand)', "C06.R1c")
m("C08", "metacommand_impl.py", 'cooked_operand = get_as_str(state, comment, state["insn"], operand)', 'cooked_operand = get_as_str(comment, state, state["insn"], operand)', "C06.R1c")
m("C17", "parser.py", "types.Symbol(ctx_start, ctx_state_after_name, insn_name)", "types.Symbol(ctx_state_after_name, ctx_start, insn_name)", "C17.span")
m("C17", "parser.py", "operator(lhs.ctx_start, ctx_end, lhs, rhs)", "operator(ctx_end, lhs.ctx_start, lhs, rhs)", "C17.span")
m("C03", "types.py", "        return None, 0", "        return 0, None", "C03.R1u")
m("C08", "types.py", "        return None, 0", "        return None,", "C03.R1u")
m("C02", "compiler.py", "self.compile_word_list(insn, insn.words, state)", "self.compile_word_list(insn.words, insn, state)", "BLK.route")
m("C06", "compiler.py", "self.compile_word_list(insn, insn.words, state)", "self.compile_word_list(insn.words, insn, state)", "BLK.route")
m("C12", "compiler.py", "self.set_link_address(insn.value, state)", "self.set_link_address(state, insn.value)", "C12.R4")
m("C13", "devices.py", "return open(path, mode)", "return open(mode, path)", "C13.R7d")
m("C07", "reports.py", "self.nested_handler(priority, identifier, *reports)", "self.nested_handler(identifier, priority, *reports)", "C07.R5")
m("C07", "_cli.py", "comp.emit_files(base, code)", "comp.emit_files(code, base)", "CLI")
m("C13", "_cli.py", "comp.emit_files(base, code)", "comp.emit_files(code, base)", "CLI")
m("C07", "_cli.py", 'choices=["graphical", "bare"]', 'choices=["bare"]', "CLI")
m("C02", "metacommands.py", "parser.parse(include_path, code)", "parser.parse(code, include_path)", "C02.R6")
m("C02", "metacommands.py", 'devices.resolve_relative_path(included_file_path, state["filename"])', 'devices.resolve_relative_path(state["filename"], included_file_path)', "C02.R6")
m("C02", "metacommands.py", 'code = compiler.compile_include(file_ast, state["emit_address"])', 'code = compiler.compile_include(file_ast, state["rel_address"])', "C02.R6")
m("C03", "deferred.py", "return self + (-rhs)", "return self - (-rhs)", "C03.R7")
m("C06", "metacommand_impl.py", "def get_as_int(state, what, token, arg_token, bitness, unsigned, default=None):\n    value = wait(arg_token.resolve(state))", "def get_as_int(state, what, token, arg_token, bitness, unsigned, default=None):\n    value = arg_token.resolve(state)", "C06.R1")
m("C01", "deferred.py", "if isinstance(rhs, LinearPolynomial):", "if isinstance(LinearPolynomial, rhs):", "C03.R7")
