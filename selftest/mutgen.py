#!/usr/bin/env python3
"""Mutation analysis OF THE CHECKERS (not a registered check): generate systematic single-node edits of /repo/pdpy11,
keep those that still pass the pinned tests, and see which of them the 19 static checks report.

For the survivors an independent behavioural oracle says whether the edit changes behaviour at all: the demonstrations of
the seeded changes (seeded/*/demo.py exit 1), the 21 practice programs and the equivalence probes of the refactorings
(seeded/refactor-*/equiv.py against expected.txt). An edit that the oracle sees and no check reports is a GAP to triage.

usage: mutgen.py [--modules a,b] [--limit N] [--seed S] [--jobs J] [--out file.jsonl]"""
import argparse, ast, concurrent.futures, glob, hashlib, json, os, random, shutil, subprocess, sys, tempfile

V = os.path.dirname(os.path.dirname(os.path.abspath(__file__)))
REPO = os.environ.get("VERIF_REPO", "/repo")
PY = "/venv/bin/python"
TESTS = "tests/test_parser.py tests/test_types.py"

CMP = {ast.Lt: ast.LtE, ast.LtE: ast.Lt, ast.Gt: ast.GtE, ast.GtE: ast.Gt, ast.Eq: ast.NotEq, ast.NotEq: ast.Eq, ast.Is: ast.IsNot, ast.IsNot: ast.Is, ast.In: ast.NotIn, ast.NotIn: ast.In}
BIN = {ast.Add: ast.Sub, ast.Sub: ast.Add, ast.Mult: ast.FloorDiv, ast.FloorDiv: ast.Mult, ast.LShift: ast.RShift, ast.RShift: ast.LShift, ast.BitAnd: ast.BitOr, ast.BitOr: ast.BitAnd, ast.Mod: ast.FloorDiv}


def candidates(tree):
    """yield (node, replacement source, kind)"""
    for n in ast.walk(tree):
        if isinstance(n, ast.Compare) and len(n.ops) == 1 and type(n.ops[0]) in CMP:
            m = ast.Compare(n.left, [CMP[type(n.ops[0])]()], n.comparators)
            yield n, ast.unparse(m), "cmp"
        elif isinstance(n, ast.BinOp) and type(n.op) in BIN and not (isinstance(n.left, ast.Constant) and isinstance(n.left.value, str)):
            yield n, ast.unparse(ast.BinOp(n.left, BIN[type(n.op)](), n.right)), "binop"
        elif isinstance(n, ast.Constant) and isinstance(n.value, int) and not isinstance(n.value, bool) and abs(n.value) < 1 << 20:
            yield n, repr(n.value + 1), "const+1"
            if n.value != 0:
                yield n, repr(n.value - 1), "const-1"
        elif isinstance(n, ast.Constant) and isinstance(n.value, bool):
            yield n, repr(not n.value), "bool"
        elif isinstance(n, ast.BoolOp):
            yield n, ast.unparse(ast.BoolOp(ast.Or() if isinstance(n.op, ast.And) else ast.And(), n.values)), "boolop"
        elif isinstance(n, ast.UnaryOp) and isinstance(n.op, ast.Not):
            yield n, ast.unparse(n.operand), "not-removed"
        elif isinstance(n, ast.UnaryOp) and isinstance(n.op, ast.USub) and not isinstance(n.operand, ast.Constant):
            yield n, ast.unparse(n.operand), "neg-removed"
        elif isinstance(n, (ast.If, ast.While)) and not (isinstance(n.test, ast.Constant)):
            yield n.test, "not (" + ast.unparse(n.test) + ")", "cond-negated"
        elif isinstance(n, ast.IfExp):
            yield n, ast.unparse(ast.IfExp(n.test, n.orelse, n.body)), "ifexp-swapped"
        elif isinstance(n, ast.Expr) and isinstance(n.value, ast.Call):
            yield n, "pass", "call-deleted"
        elif isinstance(n, ast.AugAssign):
            yield n, "pass", "augassign-deleted"
        elif isinstance(n, ast.Continue):
            yield n, "pass", "continue-deleted"
        elif isinstance(n, ast.Break):
            yield n, "pass", "break-deleted"
        elif isinstance(n, ast.Slice):
            if n.lower is not None:
                yield n.lower, "(" + ast.unparse(n.lower) + ") + 1", "slice-lower+1"
            if n.upper is not None:
                yield n.upper, "(" + ast.unparse(n.upper) + ") - 1", "slice-upper-1"
        elif isinstance(n, ast.Call) and isinstance(n.func, ast.Attribute) and n.func.attr in ("lower", "upper") and not n.args:
            yield n, ast.unparse(n.func.value), "case-fold-removed"
        elif isinstance(n, ast.Call) and isinstance(n.func, ast.Name) and n.func.id == "wait" and len(n.args) == 1:
            yield n, ast.unparse(n.args[0]), "wait-removed"
        # ---- second set of operators (--ops b)
        if OPS == "b":
            if isinstance(n, ast.Call) and len(n.args) >= 2 and not n.keywords and all(isinstance(a, (ast.Name, ast.Attribute, ast.Subscript)) for a in n.args[:2]) \
                    and ast.unparse(n.args[0]) != ast.unparse(n.args[1]):
                m = ast.Call(n.func, [n.args[1], n.args[0]] + n.args[2:], [])
                yield n, ast.unparse(m), "args-swapped"
            if isinstance(n, (ast.Tuple, ast.List)) and 2 <= len(n.elts) <= 12 and isinstance(getattr(n, "ctx", None), ast.Load) and all(isinstance(e, ast.Constant) for e in n.elts):
                for i in (0, len(n.elts) - 1):
                    m = type(n)([e for j, e in enumerate(n.elts) if j != i], ast.Load())
                    yield n, ast.unparse(m), "element-dropped"
            if isinstance(n, ast.Constant) and isinstance(n.value, str):
                v = n.value
                if v in ("emit_address", "rel_address"):
                    yield n, repr("rel_address" if v == "emit_address" else "emit_address"), "state-key-swapped"
                if v in ("local_symbol_prefix", "internal_symbol_prefix"):
                    yield n, repr("internal_symbol_prefix" if v == "local_symbol_prefix" else "local_symbol_prefix"), "state-key-swapped"
                par = getattr(n, "_p", None)
                if isinstance(par, ast.Call) and isinstance(par.func, ast.Attribute) and par.func.attr in ("regex", "compile", "match", "fullmatch", "sub") and par.args and par.args[0] is n:
                    if "+" in v:
                        i = v.rindex("+")
                        yield n, repr(v[:i] + "*" + v[i + 1:]), "regex-plus-to-star"
                    if "*" in v:
                        i = v.rindex("*")
                        yield n, repr(v[:i] + "+" + v[i + 1:]), "regex-star-to-plus"
                    if "\\b" in v:
                        yield n, repr(v.replace("\\b", "", 1)), "regex-boundary-dropped"
                    if "(?!" in v:
                        i = v.index("(?!")
                        j = v.index(")", i)
                        yield n, repr(v[:i] + v[j + 1:]), "regex-lookahead-dropped"
                if len(v) == 1 and v in "<>()[]{}:=,;#@'\"/$._":
                    pass
            if isinstance(n, ast.Name) and isinstance(n.ctx, ast.Load) and n.id in ("min", "max") and isinstance(getattr(n, "_p", None), ast.Call):
                yield n, "max" if n.id == "min" else "min", "minmax"
            if isinstance(n, ast.keyword) and n.arg in ("maybe", "lookahead", "unsigned", "awaited", "pure", "token", "raw", "no_dot", "skip_whitespace_before", "case_sensitive") and isinstance(n.value, ast.Constant) and isinstance(n.value.value, bool):
                pass    # covered by the bool operator
            if isinstance(n, ast.Return) and isinstance(n.value, ast.Tuple) and len(n.value.elts) == 2:
                m = ast.Return(ast.Tuple([n.value.elts[1], n.value.elts[0]], ast.Load()))
                yield n, ast.unparse(m), "return-pair-swapped"
            if isinstance(n, ast.Subscript) and isinstance(n.slice, ast.Constant) and isinstance(n.slice.value, int) and n.slice.value in (0, 1, -1) and isinstance(n.ctx, ast.Load):
                alt = {0: -1, 1: 0, -1: 0}[n.slice.value]
                yield n, ast.unparse(ast.Subscript(n.value, ast.Constant(alt), ast.Load())), "index-changed"
            if isinstance(n, ast.ExceptHandler) and n.type is not None and isinstance(n.type, ast.Tuple) and len(n.type.elts) >= 2:
                pass
        # ---- third set of operators (--ops c): dropped statements and guards, stale values, swapped siblings
        if OPS == "c":
            if isinstance(n, ast.Assign) and len(n.targets) == 1 and isinstance(n.targets[0], (ast.Name, ast.Attribute, ast.Subscript)) and not isinstance(getattr(n, "_p", None), (ast.Module, ast.ClassDef)):
                yield n, "pass", "assign-deleted"
            if isinstance(n, ast.Return) and n.value is not None and not (isinstance(n.value, ast.Constant) and n.value.value is None):
                yield n, "return None", "return-none"
            if isinstance(n, ast.Raise) and n.exc is not None:
                yield n, "pass", "raise-deleted"
            if isinstance(n, ast.AugAssign):
                yield n, ast.unparse(ast.Assign([n.target], n.value, lineno=0)), "augassign-to-assign"
            if isinstance(n, ast.If) and not (isinstance(n.test, ast.Constant)):
                yield n.test, "True", "cond-true"
                yield n.test, "False", "cond-false"
            if isinstance(n, ast.For) and not isinstance(n.iter, ast.Call):
                yield n.iter, "(" + ast.unparse(n.iter) + ")[1:]", "iter-skip-first"
                yield n.iter, "(" + ast.unparse(n.iter) + ")[:-1]", "iter-skip-last"
            if isinstance(n, ast.Attribute) and isinstance(n.ctx, ast.Load) and n.attr in ("ctx_start", "ctx_end", "lhs", "rhs", "start", "end"):
                alt = {"ctx_start": "ctx_end", "ctx_end": "ctx_start", "lhs": "rhs", "rhs": "lhs", "start": "end", "end": "start"}[n.attr]
                yield n, ast.unparse(ast.Attribute(n.value, alt, ast.Load())), "attr-swapped"
            if isinstance(n, ast.Dict) and 2 <= len(n.keys) <= 8 and not isinstance(getattr(n, "_p", None), (ast.Assign,)) or (isinstance(n, ast.Dict) and 2 <= len(n.keys) <= 4):
                for i in (0, len(n.keys) - 1):
                    if n.keys[i] is not None:
                        yield n, ast.unparse(ast.Dict(n.keys[:i] + n.keys[i + 1:], n.values[:i] + n.values[i + 1:])), "dict-entry-dropped"
            if isinstance(n, ast.Call) and n.keywords and len(n.keywords) <= 3 and not isinstance(n.func, ast.Attribute):
                for i, kw in enumerate(n.keywords):
                    if kw.arg in ("maybe", "lookahead", "default", "skip_whitespace_before", "case_sensitive", "no_dot", "break_on_closing_bracket", "unsigned"):
                        yield n, ast.unparse(ast.Call(n.func, n.args, n.keywords[:i] + n.keywords[i + 1:])), "kwarg-dropped"
            if isinstance(n, ast.Try) and n.finalbody and not n.handlers:
                yield n, ast.unparse(ast.Module(n.body + n.finalbody, [])), "finally-flattened"


def apply(src, node, repl):
    lines = src.split("\n")
    # offsets are in utf-8 bytes
    def idx(lineno, col):
        line = lines[lineno - 1]
        return len(line.encode()[:col].decode())
    a = (node.lineno, idx(node.lineno, node.col_offset))
    b = (node.end_lineno, idx(node.end_lineno, node.end_col_offset))
    head = lines[:a[0] - 1] + [lines[a[0] - 1][:a[1]]]
    tail = [lines[b[0] - 1][b[1]:]] + lines[b[0]:]
    indent = ""
    if isinstance(node, ast.stmt):
        indent = ""
    return "\n".join(head) + repl + "\n".join(tail)


FIRST_SET = {"cmp", "binop", "const+1", "const-1", "bool", "boolop", "not-removed", "neg-removed", "cond-negated", "ifexp-swapped", "call-deleted", "augassign-deleted", "continue-deleted",
             "break-deleted", "slice-lower+1", "slice-upper-1", "case-fold-removed", "wait-removed"}
OPS = "a"
THIRD_SET = {"assign-deleted", "return-none", "raise-deleted", "augassign-to-assign", "cond-true", "cond-false", "iter-skip-first", "iter-skip-last", "attr-swapped", "dict-entry-dropped",
             "kwarg-dropped", "finally-flattened"}


def enumerate_mutants(modules):
    out = []
    for m in modules:
        path = os.path.join(REPO, "pdpy11", m + ".py")
        src = open(path, encoding="utf-8").read()
        tree = ast.parse(src)
        for n_ in ast.walk(tree):
            for c_ in ast.iter_child_nodes(n_):
                c_._p = n_
        for node, repl, kind in candidates(tree):
            if OPS in ("a", "b") and (OPS == "b") == (kind in FIRST_SET):
                continue
            if OPS == "c" and kind not in THIRD_SET:
                continue
            try:
                new = apply(src, node, repl)
                ast.parse(new)
            except Exception:
                continue
            if new == src:
                continue
            out.append({"module": m, "line": node.lineno, "kind": kind, "old": ast.unparse(node)[:80], "new": repl[:80], "src": new})
    return out


def sh(cmd, cwd=None, timeout=600, env=None):
    # own process group, killed as a whole on timeout (a mutant that loops for ever must not leave its python behind)
    import signal
    p = subprocess.Popen(cmd, shell=True, stdout=subprocess.PIPE, stderr=subprocess.STDOUT, text=True, cwd=cwd, env=env, start_new_session=True)
    try:
        out, _ = p.communicate(timeout=timeout)
        return p.returncode, out
    except subprocess.TimeoutExpired:
        try:
            os.killpg(p.pid, signal.SIGKILL)
        except ProcessLookupError:
            pass
        p.communicate()
        return 124, "TIMEOUT"


ORACLE_DEMOS = sorted(d for d in glob.glob(os.path.join(V, "seeded", "C*-*", "demo.py")))
ORACLE_EQUIV = sorted(glob.glob(os.path.join(V, "seeded", "refactor-R*", "equiv.py")))


def run_one(mu):
    tmp = tempfile.mkdtemp(prefix="sa-mg-")
    try:
        shutil.copytree(os.path.join(REPO, "pdpy11"), os.path.join(tmp, "pdpy11"))
        shutil.copytree(os.path.join(REPO, "tests"), os.path.join(tmp, "tests"))
        open(os.path.join(tmp, "pdpy11", mu["module"] + ".py"), "w", encoding="utf-8").write(mu["src"])
        env = dict(os.environ, PYTHONPATH=tmp, PYTHONDONTWRITEBYTECODE="1", PYTHONHASHSEED="0")
        rc, out = sh(f"{PY} -m pytest -q -x -p no:cacheprovider {TESTS}", cwd=tmp, timeout=120, env=env)
        res = {k: mu[k] for k in ("module", "line", "kind", "old", "new")}
        if rc != 0:
            res["status"] = "killed-by-tests"
            return res
        hits, errs = [], []
        for i in range(1, 20):
            p = f"C{i:02d}"
            rc, out = sh(f"SA_NO_EVIDENCE=1 ./check {p} --repo {tmp}", cwd=V, timeout=600)
            if rc == 1:
                rules = sorted({l.split("]")[0].strip()[1:] for l in out.splitlines() if l.startswith("  [")})
                hits.append(f"{p}({','.join(rules)})")
            elif rc != 0:
                errs.append(p)
        res["detected_by"] = hits
        res["analysis_errors"] = errs
        if hits:
            res["status"] = "detected"
            return res
        # oracle: does anything observable change?
        seen = []
        rc, out = sh(f"PROBE_REPO={tmp} {PY} /verif/selftest/practice_probe.py", timeout=300, env=env)
        if rc != 0 or " bad 0" not in out:
            seen.append("practice")
        hangs = 0
        for d in ORACLE_DEMOS:
            rc, out = sh(f"timeout 60 {PY} {d}", cwd=os.path.dirname(d), timeout=90, env=env)
            if rc in (124, 137):
                hangs += 1
            if rc != 0:
                seen.append(os.path.basename(os.path.dirname(d)))
                if len(seen) >= 4 or hangs >= 2:
                    break
        if not seen:
            for e in ORACLE_EQUIV:
                rc, out = sh(f"timeout 300 {PY} {e}", cwd=os.path.dirname(e), timeout=330, env=env)
                exp = open(os.path.join(os.path.dirname(e), "expected.txt")).read()
                if out.strip() != exp.strip():
                    seen.append(os.path.basename(os.path.dirname(e)))
                    break
        res["oracle"] = seen
        res["status"] = ("GAP" if seen else "survived-no-observed-change") if not errs else ("undecided-exit2" if seen else "exit2-no-observed-change")
        return res
    finally:
        shutil.rmtree(tmp, ignore_errors=True)


def main():
    ap = argparse.ArgumentParser()
    ap.add_argument("--modules", default="")
    ap.add_argument("--limit", type=int, default=200)
    ap.add_argument("--seed", type=int, default=1)
    ap.add_argument("--jobs", type=int, default=14)
    ap.add_argument("--out", default="/tmp/mutgen.jsonl")
    ap.add_argument("--retest", default="")
    ap.add_argument("--skip-seen", default="", dest="skip_seen")
    ap.add_argument("--status", default="GAP,undecided-exit2")
    ap.add_argument("--ops", default="a")
    a = ap.parse_args()
    global OPS
    OPS = a.ops
    mods = a.modules.split(",") if a.modules else ["architecture", "bk_encoding", "bk_wav", "builtins", "compiler", "containers", "context", "deferred", "devices", "formats", "insns",
                                                     "metacommand_impl", "metacommands", "operators", "parser", "radix50", "reports", "types", "_cli"]
    allm = enumerate_mutants(mods)
    random.Random(a.seed).shuffle(allm)
    pick = allm[:a.limit]
    if a.skip_seen:
        seen = {tuple(x) for x in json.load(open(a.skip_seen))}
        pick = [m for m in allm if (m["module"], m["line"], m["kind"], m["old"], m["new"]) not in seen][:a.limit]
    if a.retest:
        want = set()
        for l in open(a.retest):
            r = json.loads(l)
            if r.get("status") in a.status.split(","):
                want.add((r["module"], r["line"], r["kind"], r["old"], r["new"]))
        pick = [m for m in allm if (m["module"], m["line"], m["kind"], m["old"], m["new"]) in want]
    print(f"{len(allm)} candidate edits in {mods}; running {len(pick)}", flush=True)
    stats = {}
    with open(a.out, "a") as f, concurrent.futures.ThreadPoolExecutor(a.jobs) as ex:
        for fut in concurrent.futures.as_completed([ex.submit(run_one, m) for m in pick]):
            r = fut.result()
            stats[r["status"]] = stats.get(r["status"], 0) + 1
            f.write(json.dumps(r, ensure_ascii=False) + "\n")
            f.flush()
            if r["status"] in ("GAP", "undecided-exit2"):
                print(f"{r['status']}: {r['module']}:{r['line']} [{r['kind']}] {r['old']!r} -> {r['new']!r} oracle={r.get('oracle')} exit2={r.get('analysis_errors')}", flush=True)
    print(json.dumps(stats), flush=True)


if __name__ == "__main__":
    main()
