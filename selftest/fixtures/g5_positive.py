# positive-control fixture for the determinism scan of rule G5 (never part of /repo): every pattern must fire
import random, time, os
CACHE = {}
def resolve(name):
    if name in CACHE:
        return CACHE[name]
    CACHE[name] = len(name)          # module-level memo written at run time
    return CACHE[name]
def order(labels):
    for x in set(labels):            # iteration over a set
        yield x
def ident(obj):
    return id(obj), hash(obj), random.random(), time.time(), os.environ.get("X")
