#!/usr/bin/env python3
"""Apply behaviour-preserving refactorings (seeded/refactor-*/patch.diff or given dirs) to a scratch copy and run all checks:
none may exit 1 (false alarm); exit 2 (analysis error) is reported separately."""
import glob, json, os, shutil, subprocess, sys, tempfile
V = os.path.dirname(os.path.dirname(os.path.abspath(__file__)))
dirs = [os.path.abspath(a) for a in sys.argv[1:]] or sorted(glob.glob(os.path.join(V, "seeded", "refactor-*")))
props = [c["property_id"] for c in json.load(open(os.path.join(V, "MANIFEST.json")))["checks"]]
bad = 0
for d in dirs:
    tmp = tempfile.mkdtemp(prefix="sa-ref-")
    try:
        shutil.copytree("/repo/pdpy11", os.path.join(tmp, "pdpy11"))
        r = subprocess.run(["patch", "-p1", "-s", "-i", os.path.join(d, "patch.diff")], cwd=tmp, capture_output=True, text=True)
        if r.returncode:
            print(f"{os.path.basename(d)}: patch does not apply: {r.stdout[:200]}")
            continue
        alarms, errors = [], []
        for p in props:
            c = subprocess.run([os.path.join(V, "check"), p, "--repo", tmp], capture_output=True, text=True, env={**os.environ, "SA_NO_EVIDENCE": "1"})
            lines = [l.strip()[:230] for l in c.stdout.splitlines() if l.startswith("  [") or l.startswith("ANALYSIS-ERROR")]
            if c.returncode == 1:
                alarms.append((p, lines))
            elif c.returncode != 0:
                errors.append((p, lines))
        print(f"{os.path.basename(d)}: false alarms={len(alarms)} analysis errors={len(errors)}")
        for p, lines in alarms:
            bad += 1
            for l in lines[:4]:
                print(f"    ALARM {p}: {l}")
        for p, lines in errors:
            for l in lines[:3]:
                print(f"    exit2 {p}: {l}")
    finally:
        shutil.rmtree(tmp, ignore_errors=True)
sys.exit(1 if bad else 0)
