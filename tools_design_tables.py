#!/usr/bin/env python3
"""Rewrite the seeded-changes table of DESIGN.md §10 from seeded/*/meta.json (the 'detected_by' fields are written by
selftest/seeded.py --record)."""
import glob, json, os, re
V = os.path.dirname(os.path.abspath(__file__))
rows = ["| id | property | change | needs | own check reports | other checks |", "|---|---|---|---|---|---|"]
for d in sorted(glob.glob(os.path.join(V, "seeded", "*"))):
    if os.path.basename(d).startswith("refactor-"):
        continue
    try:
        m = json.load(open(os.path.join(d, "meta.json")))
    except Exception:
        continue
    det = m.get("detected_by", [])
    own = [x for x in det if x.startswith(m.get("property", "?") + "(")]
    oth = [x for x in det if not x.startswith(m.get("property", "?") + "(")]
    cell = lambda t: " ".join(str(t).split()).replace("|", "/")[:220]
    rows.append(f"| {os.path.basename(d)} | {m.get('property')} | {cell(m.get('summary',''))} | {cell(m.get('needs',''))} | {', '.join(own) or '**no**'} | {', '.join(oth) or '-'} |")
p = os.path.join(V, "DESIGN.md")
s = open(p).read()
s = re.sub(r"<!-- SEEDED-TABLE-BEGIN -->.*<!-- SEEDED-TABLE-END -->", lambda m_: "<!-- SEEDED-TABLE-BEGIN -->\n" + "\n".join(rows) + "\n<!-- SEEDED-TABLE-END -->", s, flags=re.S)
kf = json.load(open(os.path.join(V, "known_findings.json")))["findings"]
rr = ["| id | rules (instances on the current tree) | fixed defects | known findings |", "|---|---|---|---|"]
for i in range(1, 20):
    pid = f"C{i:02d}"
    try:
        ev = json.load(open(os.path.join(V, "evidence", pid + ".json")))
    except Exception:
        continue
    rules = ", ".join(f"{r['rule']} ({r['instances']})" for r in ev["coverage"]["rules"] if r["rule"] != "sensitivity")
    fixed = sorted({f["rule"] for f in kf if f["status"] == "fixed" and pid in f["properties"]})
    known = sorted({f["rule"] for f in kf if f["status"] == "known" and pid in f["properties"]})
    rr.append(f"| {pid} | {rules} | {', '.join(fixed) or '-'} | {', '.join(known) or '-'} |")
s = re.sub(r"<!-- RULES-TABLE-BEGIN -->.*<!-- RULES-TABLE-END -->", lambda m_: "<!-- RULES-TABLE-BEGIN -->\n" + "\n".join(rr) + "\n<!-- RULES-TABLE-END -->", s, flags=re.S)
open(p, "w").write(s)
print(len(rows) - 2, "rows")
