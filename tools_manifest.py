#!/usr/bin/env python3
"""Regenerate MANIFEST.json from sa/props/*.py metadata (run by hand after adding a property module)."""
import importlib, json, os, sys
sys.path.insert(0, os.path.dirname(os.path.abspath(__file__)))
props = json.loads("[" + ",".join(l for l in open("properties.jsonl") if l.strip()) + "]")
checks, na = [], []
for p in props:
    pid = p["id"]
    try:
        mod = importlib.import_module(f"sa.props.{pid.lower()}")
    except ModuleNotFoundError:
        na.append({"property_id": pid, "reason": "static rules for this property are not built yet (under construction); see DESIGN.md §4"})
        continue
    if getattr(mod, "NOT_APPLICABLE", None):
        na.append({"property_id": pid, "reason": mod.NOT_APPLICABLE})
        continue
    checks.append({
        "property_id": pid,
        "quick_cmd": f"./check {pid} --tier quick",
        "thorough_cmd": f"./check {pid} --tier thorough",
        "evidence_file": f"/verif/evidence/{pid}.json",
        "replay_cmd_template": f"./check {pid} --replay {{path}}",
        "engine": "sa",
        "level_claimed": {"category": "other", "text": mod.LEVEL_TEXT, "design_ref": f"DESIGN.md §4 {pid}"},
        "level_note": mod.LEVEL_NOTE,
        "technique": mod.TECHNIQUE,
    })
manifest = {
    "version": 1,
    "setup_cmd": "true",
    "hooks": {"guard": "PDPY11_VERIF", "enable": "no hooks: nothing is executed or instrumented, the checks only parse /repo's source",
              "baseline_off_cmd": "cd /repo && /venv/bin/python -m pytest -ra -q -p no:cacheprovider --timeout=900 --continue-on-collection-errors",
              "source_commits": [], "add_only": True},
    "engines": [{"name": "sa", "path": "/verif/sa", "serves_properties": [c["property_id"] for c in checks],
                 "kind_free_text": "repository-specific static analyser over the stdlib ast: closed-term folding of module-initialisation code, algebraic normal forms, predicate abstraction of guards (interval x parity cells), call-graph exception-escape, must-dataflow on structured code, mutation/ownership census"}],
    "checks": checks,
    "notes": "Static analysis only: no check imports or runs pdpy11. exit 0 pass / exit 1 VIOLATION / exit 2 ANALYSIS-ERROR (fail closed). Known findings: known_findings.json.",
    "not_applicable": na,
}
json.dump(manifest, open("MANIFEST.json", "w"), indent=1)
print(len(checks), "checks,", len(na), "not applicable")
