"""Handlers around a construct (used by the partial-operation rules P1..P12)."""
import ast

from ..engine.interp import BUILTIN_EXC
from ..engine.loader import FUNC_TYPES, walk_local

HIER = dict(BUILTIN_EXC)
HIER.update({"RecoverableError": "Exception", "UnrecoverableError": "Exception", "NotReadyError": "Exception",
             "DeferredCycle": "Exception", "CompilerStopIteration": "Exception", "Goto": "BaseException",
             "NameError": "Exception", "EOFError": "Exception"})


def exc_isa(name, handler):
    if handler in ("IOError", "EnvironmentError"):
        handler = "OSError"
    while name is not None:
        n = "OSError" if name in ("IOError", "EnvironmentError") else name
        if n == handler:
            return True
        name = HIER.get(name)
    return False


def exc_name(node):
    if node is None:
        return None
    if isinstance(node, ast.Call):
        node = node.func
    if isinstance(node, ast.Attribute):
        return node.attr
    if isinstance(node, ast.Name):
        return node.id
    return None


def handler_names(h):
    if h.type is None:
        return ["BaseException"]
    if isinstance(h.type, ast.Tuple):
        return [exc_name(t) for t in h.type.elts]
    return [exc_name(h.type)]


REPORTING_HELPERS = set()     # names of repo functions whose body reports an error on every path (set by set_repo)


def set_repo(repo):
    """find helper functions that always report, so that `except X: helper(...)` counts as a reporting handler"""
    REPORTING_HELPERS.clear()
    for _ in range(2):
        for q, fn in repo.all_functions():
            if isinstance(fn, ast.FunctionDef) and fn.name not in REPORTING_HELPERS and q.split("::")[0] not in ("reports",):
                body = fn.body
                if body_reports(body):
                    from ..engine import flow
                    mf = flow.MustFlow(lambda x: {"reported"} if is_report_call(x) else set())
                    mf.loop_stack = []
                    out = mf.block(body, frozenset())
                    # facts at every return
                    rets = [n for n in ast.walk(fn) if isinstance(n, ast.Return)]
                    ok = (out is flow.TOP or "reported" in out) and all("reported" in (mf.before.get(id(r)) or ()) for r in rets)
                    if ok:
                        REPORTING_HELPERS.add(fn.name)


def is_report_call(node, priorities=("error", "critical")):
    """reports.error(...) / reports.critical(...) / a helper that always reports"""
    if not isinstance(node, ast.Call):
        return False
    f = node.func
    if isinstance(f, ast.Name) and f.id in REPORTING_HELPERS and "error" in priorities:
        return True
    if isinstance(f, ast.Attribute) and f.attr in REPORTING_HELPERS and "error" in priorities and isinstance(f.value, ast.Name) and f.value.id in ("self", "cls"):
        return True
    if isinstance(f, ast.Attribute) and f.attr in priorities and isinstance(f.value, ast.Name) and f.value.id == "reports":
        return True
    if isinstance(f, ast.Attribute) and f.attr == "emit_report":
        return True
    return False


def body_reports(stmts, priorities=("error", "critical")):
    for s in stmts:
        for n in ast.walk(s):
            if is_report_call(n, priorities):
                return True
    return False


def body_always_reports_or_exits(stmts):
    """handler body reports an error on EVERY path through it (must-dataflow), or prints a message and exits, or re-raises"""
    if body_reports(stmts):
        from ..engine import flow
        mf = flow.MustFlow(lambda x: {"reported"} if is_report_call(x) else set())
        mf.loop_stack = []
        mf.ret_facts = []            # a `return` inside the handler is an exit too: it must come after the report
        out = mf.block(stmts, frozenset())
        return (out is flow.TOP or "reported" in out) and all("reported" in r for r in mf.ret_facts)
    for s in stmts:
        for n in ast.walk(s):
            if isinstance(n, ast.Call) and isinstance(n.func, ast.Attribute) and n.func.attr == "exit":
                return True
            if isinstance(n, ast.Raise):
                return True
    return False


def enclosing_tries(node, stop_at_function=True):
    """[(Try node, handlers)] for every try whose *body* contains node, innermost first"""
    out = []
    child = node
    p = getattr(node, "_parent", None)
    while p is not None:
        if stop_at_function and isinstance(p, FUNC_TYPES):
            break
        if isinstance(p, ast.Try) and any(child is s for s in p.body):
            out.append(p)
        child = p
        p = getattr(p, "_parent", None)
    return out


def covered(node, exc_names, require_report=True):
    """Is every exception in exc_names, raised at node, caught by an enclosing handler (same function) that reports?
    -> (bool, missing list)"""
    tries = enclosing_tries(node)
    missing = []
    for e in exc_names:
        ok = False
        for t in tries:
            hit = None
            for h in t.handlers:
                if any(n is not None and exc_isa(e, n) for n in handler_names(h)):
                    hit = h
                    break
            if hit is not None:
                ok = (not require_report) or body_always_reports_or_exits(hit.body)
                if not ok:
                    # the handler only records what went wrong and the report follows the try statement
                    par = getattr(t, "_parent", None)
                    for field in ("body", "orelse", "finalbody"):
                        blk = getattr(par, field, None)
                        if isinstance(blk, list) and t in blk:
                            follow = blk[blk.index(t) + 1:]
                            ok = bool(follow) and body_always_reports_or_exits(list(hit.body) + follow)
                break
        if not ok:
            missing.append(e)
    return (not missing), missing


def calls_in(fn):
    for n in walk_local(fn):
        if isinstance(n, ast.Call):
            yield n


def callers_of(repo, funcnode):
    """call sites `name(...)` of a module-level function, anywhere in the package (direct name or module.attr)"""
    name = getattr(funcnode, "name", None)
    out = []
    if name is None:
        return out
    for q, fn in repo.all_functions():
        for c in calls_in(fn):
            f = c.func
            if (isinstance(f, ast.Name) and f.id == name) or (isinstance(f, ast.Attribute) and f.attr == name):
                out.append((q, c))
    return out
