"""G2 (explicit raises and asserts), G3 (optional parser results), G10 (dispatch exhaustiveness),
G11 (possibly-deferred values used only the way deferreds can be used)."""
import ast

from ..engine import flow, callgraph
from ..engine.loader import Unknown, norm_text, walk_local, FUNC_TYPES, public_qual
from . import guards

# ---------------------------------------------------------------------------------------- G2
# Frozen discharge table: (function, exception class, normalised guard/argument) -> (rule, reason).
# Keys are line independent. A raise/assert that is reachable from an entry point and is neither discharged
# automatically (reported-first, parser backtracking, import-time only) nor listed here is a VIOLATION.
TABLE = {
    ("bk_encoding::encode", "AssertionError", "errors == 'strict'"): ("D1", "str.encode(charset) is always called without an errors argument (P2 sites)"),
    ("bk_encoding::decode", "AssertionError", "errors == 'strict'"): ("D1", "decode is never reached from assembly"),
    ("bk_encoding::encode", "UnicodeEncodeError", ""): ("P2", "every encode site is under a reporting handler (rule P2)"),
    ("compiler::Compiler.compile_block", "AssertionError", "False"): ("G10", "dispatch over the statement classes built by parser.code (rule G10)"),
    ("compiler::Compiler.compile_insn", "AssertionError", "False"): ("G10", "symbol table values are stored by compile_label/compile_assignment only (rule G10)"),
    ("compiler::Compiler.stop_iteration", "CompilerStopIteration", ""): ("D6", "handled by compile_block (C16.R4)"),
    ("containers::CaseInsensitiveDict.__getitem__", "KeyError", ""): ("D3", "every subscript of a case-insensitive table is dominated by a membership test (rule D3.getitem)"),
    ("deferred::Awaiting.__enter__", "DeferredCycle", ""): ("cycle", "must be caught and reported where values are awaited (rule G2.cycle)"),
    ("deferred::Awaiting.__exit__", "AssertionError", "Awaiting.awaiting_stack.pop() is self.deferred"): ("D3", "LIFO: push/pop only in __enter__/__exit__ of a class used only in `with` (C18 balance)"),
    ("deferred::not_ready", "NotReadyError", ""): ("D6", "raised only in try mode, suppressed by try_compute (C03.R3)"),
    ("deferred::BaseDeferredMetaclass.__getitem__", "TypeError", ""): ("D1t", "type argument of X[T](...) is a class at every construction site (rule G2.typearg)"),
    ("deferred::BaseDeferred.__new__", "TypeError", ""): ("D1t", "same as above"),
    ("deferred::BaseDeferred.get_current_best_estimate", "NotImplementedError", ""): ("D5", "overridden in every instantiated subclass (rule G2.abstract)"),
    ("deferred::BaseDeferred._wait", "NotImplementedError", ""): ("D5", "overridden (rule G2.abstract)"),
    ("deferred::BaseDeferred.__len__", "NotImplementedError", ""): ("D5", "len() is applied to sized chunks only (G11 exception)"),
    ("deferred::BaseDeferred.__repr__", "NotImplementedError", ""): ("D5", "overridden (rule G2.abstract)"),
    ("deferred::BaseDeferred.length", "TypeError", ""): ("D1", "length() is called on byte chunks only (accumulator pairing, C02.R2)"),
    ("deferred::BaseDeferred.__add__", "TypeError", ""): ("D1", "typ is int or bytes at all construction sites (G2.typearg)"),
    ("deferred::BaseDeferred.__radd__", "TypeError", ""): ("D1", "typ is int or bytes"),
    ("deferred::BaseDeferred.__sub__", "TypeError", ""): ("D1", "subtraction is applied to int-typed values only (addresses, operands)"),
    ("deferred::BaseDeferred.__rsub__", "TypeError", ""): ("D1", "as above"),
    ("deferred::BaseDeferred.__pos__", "TypeError", ""): ("D1", "as above"),
    ("deferred::BaseDeferred.__mul__", "TypeError", ""): ("D1", "as above"),
    ("deferred::BaseDeferred.__rmul__", "TypeError", ""): ("D1", "as above"),
    ("deferred::LinearPolynomial.__init__", "TypeError", ""): ("D1", "LinearPolynomial[...] is built with int type, int coefficients and deferred keys at its 11 sites (C03.R7 exercises them)"),
    ("deferred::LinearPolynomial.__rmul__", "AssertionError", "isinstance(lhs, self.typ)"): ("D1", "reflected multiplication is reached with a plain int left operand only"),
    ("deferred::Promise.settle", "AssertionError", "not self.settled"): ("D3", "every settle() is dominated by a 'settled' test (rule D3.settle)"),
    ("deferred::Promise._wait", "Exception", ""): ("reasoned", "every link promise is settled before the first wait outside try mode (compile_and_link_files / compile_include settle before waiting)"),
    ("insns::Instruction.compile_insn.get_opcode", "AssertionError", "str_opcode_pattern.isdigit()"): ("D3", "every non-digit pattern character is replaced by a stub (C01.T3)"),
    ("insns::OffsetOperandStub.encode.fixup_label", "AssertionError", "False"): ("G10", "dispatch over expression classes (rule G10)"),
    ("metacommand_impl::Metacommand.compile_insn.fn", "TypeError", ""): ("G10", "operand types come from the annotation table (rule G10.types)"),
    ("operators::rshift", "AssertionError", "b < 0"): ("D1", "b == 0 and b > 0 are excluded by the preceding arms (C05.R2 sees no raising path)"),
    ("parser::Parser.__call__", "AssertionError", "maybe"): ("D3", "lookahead implies maybe at every call site (rule D3.lookahead)"),
    ("parser::Parser.__call__", "AssertionError", "result is not None"): ("D3", "parser functions return a value on every path (rule D3.parsers)"),
    ("parser::Parser.__or__", "AssertionError", "isinstance(rhs, Parser)"): ("D2", "combinators are built at import time"),
    ("parser::Parser.__add__", "AssertionError", "isinstance(rhs, Parser)"): ("D2", "combinators are built at import time (and from parser objects only)"),
    ("parser::expression_literal_rec", "AssertionError", "False"): ("D1", "opening is '(' , '<' or a caret form: the three arms cover the alternation it was matched by"),
    ("parser::parse_insn_operand", "AssertionError", "operand_type in (str, int)"): ("G10", "operand types come from the annotation table (rule G10.types)"),
    ("radix50::pack_to_int", "AssertionError", "len(string) <= 3"): ("D3", "the caller truncates to 3 (C15.lit)"),
    ("reports::handle_reports.__exit__", "AssertionError", "self.handlers_stack.pop() is self"): ("D3", "LIFO (C18 balance)"),
    ("reports::handle_reports.__exit__", "UnrecoverableError", ""): ("ok", "the reported-failure exception"),
    ("reports::emit_report", "UnrecoverableError", ""): ("ok", "critical diagnostics abort with the reported-failure exception"),
    ("reports::emit_report", "Exception", ""): ("reasoned", "reports are only emitted inside handle_reports scopes: parse/compile/emit run inside them in main_cli, generate_listing reads settled values only"),
    ("reports::GraphicalHandler.__call__", "AssertionError", "ctx_start.filename == ctx_end.filename"): ("D3", "every span is taken from one context (C17 G9)"),
    ("types::Token.__init__", "AssertionError", "ctx_start is None or isinstance(ctx_start, Context)"): ("D1", "tokens are constructed from parser contexts (C17)"),
    ("types::Token.__init__", "AssertionError", "ctx_end is None or isinstance(ctx_end, Context)"): ("D1", "as above"),
    ("types::Token.__eq__", "NotImplementedError", ""): ("D5", "every token class defines __eq__"),
    ("types::ExpressionToken.resolve", "NotImplementedError", ""): ("D5", "every expression class defines resolve (rule G2.abstract)"),
}
IMPORT_TIME = {"insns::init", "operators::operator", "operators::operator.decorator", "metacommand_impl::Metacommand.__init__", "metacommand_impl::_metacommand_impl",
               "metacommand_impl::metacommand", "formats::file_format", "bk_encoding::register", "metacommand_impl::<module>"}


_IT_CACHE = {}


def import_time_functions(repo):
    """Qualified names of functions that run only while the package is being imported: the frozen seed table, decorator
    factories (every use of the name is a decorator) with the functions they return, and - transitively - functions all of whose
    call sites are module top-level code or such functions."""
    key = id(repo)
    if key in _IT_CACHE:
        return _IT_CACHE[key]
    out = set(IMPORT_TIME)
    funcs = dict(repo.all_functions())
    # uses of every simple name: (is_decorator, enclosing function qual or None)
    uses = {}
    for mod in repo.modules.values():
        deco_nodes = set()
        for n in ast.walk(mod.tree):
            if isinstance(n, (ast.FunctionDef, ast.ClassDef)):
                for d in n.decorator_list:
                    f = d.func if isinstance(d, ast.Call) else d
                    deco_nodes.add(id(f))
        for n in ast.walk(mod.tree):
            nm = n.id if isinstance(n, ast.Name) and isinstance(n.ctx, ast.Load) else (n.attr if isinstance(n, ast.Attribute) and isinstance(n.ctx, ast.Load) else None)
            if nm is None:
                continue
            enc = repo.enclosing_function(n)
            uses.setdefault(nm, []).append((id(n) in deco_nodes, None if enc is None else f"{mod.name}::{mod.qualname_of.get(id(enc), '?')}", n))
    changed = True
    while changed:
        changed = False
        for q, fn in funcs.items():
            if q in out or isinstance(fn, ast.Lambda):
                continue
            name = fn.name
            parent = repo.enclosing_function(fn)
            if parent is not None:
                # a nested function returned by an import-time function (the actual decorator of a decorator factory)
                pq = f"{fn._module.name}::{fn._module.qualname_of.get(id(parent), '?')}"
                if pq in out and all(isinstance(u[2]._parent, ast.Return) for u in uses.get(name, []) if u[1] == pq) and any(u[1] == pq for u in uses.get(name, [])):
                    out.add(q)
                    changed = True
                continue
            if "." in q.split("::")[1]:
                continue            # methods are reached through objects: not decided here
            us = [u for u in uses.get(name, [])]
            if not us:
                continue
            # every use is a decoration, or a CALL made by import-time code (a bare reference stores the function for later)
            if all(is_dec or (isinstance(_n._parent, ast.Call) and _n._parent.func is _n and (where is None or where in out)) for is_dec, where, _n in us):
                out.add(q)
                changed = True
    _IT_CACHE[key] = out
    return out


def raise_sites(repo):
    out = []
    for q, fn in repo.all_functions():
        mod = q.split("::")[0]
        if mod in ("devices", "_cli", "cli", "__main__", "__init__"):
            continue
        for n in walk_local(fn):
            if isinstance(n, ast.Raise):
                if n.exc is None:
                    continue
                out.append((q, fn, n, guards.exc_name(n.exc) or "?", ""))
            elif isinstance(n, ast.Assert):
                out.append((q, fn, n, "AssertionError", norm_text(n.test)))
    return out


def is_parser_function(repo, q, fn):
    if not q.startswith("parser::"):
        return False
    top = repo.func("parser::" + q.split("::")[1].split(".")[0]) if "." in q.split("::")[1] and repo.has_func("parser::" + q.split("::")[1].split(".")[0]) else fn
    node = fn
    while node is not None:
        if isinstance(node, ast.FunctionDef):
            for d in node.decorator_list:
                if norm_text(d) in ("Parser", "classmethod"):
                    return True
        if isinstance(node, ast.ClassDef) and node.name == "Parser":
            return True
        node = getattr(node, "_parent", None)
    return q in ("parser::parse_insn_operand",)


# The table is matched by (function, exception class); the guard text is documentation only, so that rewording an
# existing assert does not raise an alarm. A function may hold as many such sites as it has entries; one more is new.
TABLE_BY_SITE = {}
for (_q, _e, _g), _v in TABLE.items():
    TABLE_BY_SITE.setdefault((public_qual(_q), _e), []).append(_v)


# functions holding several sites of one tabled kind (confirmed by reading: five type guards, the maybe/result asserts,
# the two conversions to UnrecoverableError)
SITE_COUNTS = {("deferred::LinearPolynomial.__init__", "TypeError"): 5, ("parser::Parser.__call__", "AssertionError"): 3,
               ("reports::handle_reports.__exit__", "UnrecoverableError"): 2}


def _abstract_method(repo, q, fn, node):
    """`raise NotImplementedError` as the body of C.m where every direct subclass of C defines m and C(...) is never called"""
    mod, _, rest = q.partition("::")
    parts = rest.split(".")
    if len(parts) != 2 or not isinstance(fn, ast.FunctionDef):
        return False
    body = [st for st in fn.body if not (isinstance(st, ast.Expr) and isinstance(st.value, ast.Constant) and isinstance(st.value.value, str))]
    if len(body) != 1 or body[0] is not node:
        return False
    cq = f"{mod}::{parts[0]}"
    subs = [s_ for s_ in repo.subclasses(cq) if s_ != cq]
    if not subs:
        return False
    called = set()
    for m_ in repo.modules.values():
        for c in ast.walk(m_.tree):
            if isinstance(c, ast.Call):
                called.add(c.func.id if isinstance(c.func, ast.Name) else c.func.attr if isinstance(c.func, ast.Attribute) else None)
    if parts[0] in called:
        return False                  # the class itself is instantiated
    concrete = [s_ for s_ in subs if s_.split("::")[1].split(".")[-1] in called]
    if not concrete:
        return False
    for s_ in concrete:               # intermediate classes that are never instantiated may inherit the stub
        owner = repo.find_method(s_, parts[1])
        if owner is None or owner == q:
            return False
    return True


def rule_G2(ck):
    repo = ck.repo
    budget = {k: len(v) for k, v in TABLE_BY_SITE.items()}
    budget.update(SITE_COUNTS)
    reach = callgraph.reachable(repo)
    it = import_time_functions(repo)
    sites = raise_sites(repo)
    used = set()
    # sites whose own (function, exception) entry exists are matched first; what is left of a module's budget may then cover a
    # site of the same exception class that a refactoring moved into another function of the same module (extracted helper)
    sites = sorted(sites, key=lambda s_: 0 if (public_qual(s_[0]), s_[3]) in TABLE_BY_SITE else 1)
    for q, fn, node, exc, guard in sites:
        key = (q, exc, guard)
        pq = public_qual(q)
        verdict = None
        if q in it or pq in it or q not in reach:
            verdict = ("D2", "import-time only / not reachable from an assembly entry point")
        elif exc == "RecoverableError":
            if is_parser_function(repo, q, fn):
                verdict = ("parser", "backtracking signal, consumed by Parser.__call__ (maybe / report=)")
            else:
                facts = flow.facts_before(fn, node, lambda x: {"reported"} if guards.is_report_call(x) else set())
                if facts is None or "reported" in facts:
                    verdict = ("D4", "an error diagnostic precedes the raise on every path")
                else:
                    ck.instance(("raise", q, exc, guard), {"site": q, "raises": exc, "discharge": None}, fn=q)
                    ck.violation(node, "RecoverableError is raised without an error diagnostic on some path: the failure is converted into 'no output' without saying why (or, outside a report scope, escapes as an internal error)",
                                 construct=f"raise RecoverableError without report in {q.split('::')[1]}")
                    continue
        elif exc == "UnrecoverableError":
            verdict = ("ok", "the reported-failure exception")
        elif exc == "NotImplementedError" and _abstract_method(repo, q, fn, node):
            verdict = ("abstract", "the only statement of a method that every subclass overrides, in a class that is never instantiated itself: the body cannot run")
        elif (pq, exc) in TABLE_BY_SITE and budget.get((pq, exc), 0) > 0:
            budget[(pq, exc)] -= 1
            verdict = TABLE_BY_SITE[(pq, exc)][0]
            used.add((pq, exc))
        elif (pq, exc) not in TABLE_BY_SITE:
            modname = pq.split("::")[0]
            donors = sorted(k for k, left in budget.items() if left > 0 and k[1] == exc and k[0].split("::")[0] == modname and k in TABLE_BY_SITE)
            if donors:
                budget[donors[0]] -= 1
                d = TABLE_BY_SITE[donors[0]][0]
                verdict = (d[0], f"moved within the module (entry of {donors[0][0].split('::')[1]}): {d[1]}")
        ck.instance(("raise", q, exc, guard), {"site": q, "raises": exc, "guard": guard[:60], "discharge": verdict[0] if verdict else None}, fn=q)
        if verdict is None:
            what = f"assert {guard}" if exc == "AssertionError" else f"raise {exc}"
            ck.violation(node, f"'{what}' in {q.split('::')[1]} is reachable from the assembly entry points and no discharge rule covers it: when it fires the run ends in the 'unexpected internal compiler error' path",
                         construct=f"{what[:80]} in {q.split('::')[1]}")
    if len(sites) < 80:
        ck.unknown(f"only {len(sites)} raise/assert sites found (about 100 confirmed by hand)")
    return used


def rule_cycle(ck):
    """DeferredCycle must be caught and reported around the waits of compile_and_link_files"""
    repo = ck.repo
    handlers = []
    for q, fn in repo.all_functions():
        for n in walk_local(fn):
            if isinstance(n, ast.ExceptHandler) and "DeferredCycle" in guards.handler_names(n):
                handlers.append((q, n, guards.body_reports(n.body)))
    ck.instance("cycle-handlers", {"handlers of DeferredCycle": [q for q, _, _ in handlers]}, fn="deferred::Awaiting.__enter__")
    fn = repo.func("compiler::Compiler.compile_and_link_files")
    waits = [c for c in guards.calls_in(fn) if isinstance(c.func, ast.Name) and c.func.id == "wait"]
    for w in waits:
        ck.instance(("top-wait", norm_text(w)), {"wait": norm_text(w)}, fn="compiler::Compiler.compile_and_link_files")
    uncovered = [w for w in waits if not guards.covered(w, ["DeferredCycle"])[0]]
    # a handler one level up (main_cli) also counts if it reports
    if uncovered:
        ck.violation(uncovered[0], "values are awaited here without a handler for DeferredCycle: a symbol or size that depends on itself ('.blkb X' / 'X = .') ends in an internal error instead of a 'recursive-definition' diagnostic "
                                   "(the only handler covers the link base)", construct="DeferredCycle uncaught at top-level wait")


def rule_typearg(ck):
    """X[T](...): T must be a class on every path (D1t). `Deferred[self.return_type]` needs a return annotation on every operator."""
    repo = ck.repo
    n = 0
    for q, fn in repo.all_functions():
        for node in walk_local(fn):
            if isinstance(node, ast.Call) and isinstance(node.func, ast.Subscript) and norm_text(node.func.value) in ("Deferred", "SizedDeferred", "LinearPolynomial", "Concatenator", "Promise"):
                t = norm_text(node.func.slice)
                n += 1
                ck.instance(("typearg", q, t, node.lineno), {"site": q, "type argument": t} if t not in ("int", "bytes") else None, fn=q)
                if t in ("int", "bytes", "self.typ", "typ", "cls.typ", "self.return_type and int"):
                    continue      # a literal class, or the type the enclosing object / caller was itself constructed with
                if t == "self.return_type":
                    from .world import eager_interp
                    I = eager_interp(repo)
                    reg = I.explore(lambda: I.module_get("operators", "operators"))[0].value
                    bad = []
                    for kindcls, cid in reg.items():
                        for key, (char, cls) in cid.fields["container"].items():
                            rt = cls.attrs.get("return_type")
                            if rt is None or not (getattr(rt, "name", None) in ("int", "bytes", "str")):
                                bad.append(cls.attrs.get("__name__", char))
                    if bad:
                        ck.violation(node, f"Deferred[self.return_type]: operators {sorted(bad)} have no return annotation, so the type argument is None and the constructor raises TypeError when such an operator is applied to a not-yet-known value "
                                           "(e.g. '.word @X' with X defined later)", construct="Deferred[self.return_type] with unannotated operators")
                    continue
                ck.unknown(f"{q}: type argument {t!r} of a deferred constructor is not recognised")
    if n < 30:
        ck.unknown(f"only {n} deferred construction sites found (46 confirmed by hand)")


def rule_abstract(ck):
    """D5: every class that is instantiated overrides the abstract methods of its bases"""
    repo = ck.repo
    need = {"deferred::BaseDeferred": ["_wait", "get_current_best_estimate", "__repr__"], "types::ExpressionToken": ["resolve"], "types::Token": ["__eq__"]}
    # names used as values somewhere (called, subscripted-and-called, passed on): a class that only ever appears as a base of other
    # classes or as the second argument of isinstance() is an abstract intermediate and is never instantiated
    used = set()
    for m_ in repo.modules.values():
        for n_ in ast.walk(m_.tree):
            if isinstance(n_, ast.Name) and isinstance(n_.ctx, ast.Load):
                par = getattr(n_, "_parent", None)
                if isinstance(par, ast.ClassDef) and n_ in par.bases:
                    continue
                if isinstance(par, ast.Call) and isinstance(par.func, ast.Name) and par.func.id in ("isinstance", "issubclass") and len(par.args) == 2 and (par.args[1] is n_):
                    continue
                if isinstance(par, ast.Tuple) and isinstance(getattr(par, "_parent", None), ast.Call) and getattr(par._parent.func, "id", "") in ("isinstance", "issubclass"):
                    continue
                used.add(n_.id)
    for base, methods in need.items():
        for q in repo.subclasses(base):
            if q == base or q in ("types::ExpressionToken", "operators::operator.Class"):
                continue
            node = repo.cls(q)
            if node.name not in used and any(s_ != q for s_ in repo.subclasses(q)):
                ck.instance(("abstract", q, "intermediate"), {"class": q, "never instantiated": True}, fn=q)
                continue
            abstract_like = q in ("operators::InfixOperator", "operators::UnaryOperator", "operators::PrefixOperator", "operators::PostfixOperator")
            for m in methods:
                impl = repo.find_method(q, m)
                ck.instance(("abstract", q, m), None, fn=q)
                if impl is None or impl.startswith(base + "."):
                    if m == "__repr__" and abstract_like:
                        continue
                    if m == "__eq__" and q in ("types::ExpressionToken",):
                        continue
                    ck.violation(node, f"class {q.split('::')[1]} does not override {m}() of {base.split('::')[1]}, whose body raises NotImplementedError", construct=f"{q.split('::')[1]}.{m} missing")


def rule_D3(ck):
    repo = ck.repo
    # settle() dominated by a 'settled' test
    n = 0
    for q, fn in repo.all_functions():
        for c in guards.calls_in(fn):
            if isinstance(c.func, ast.Attribute) and c.func.attr == "settle":
                recv = norm_text(c.func.value)
                n += 1

                def test_facts(t, recv=recv):
                    txt = norm_text(t)
                    if txt == f"not {recv}.settled":
                        return {"unsettled"}, set()
                    if txt == f"{recv}.settled":
                        return set(), {"unsettled"}
                    return set(), set()
                facts = flow.facts_before(fn, c, lambda x: set(), None, test_facts)
                ck.instance(("settle", q, recv), {"site": q, "call": norm_text(c)[:70], "dominated by settled-test": bool(facts and "unsettled" in facts)}, fn=q)
                if facts is not None and "unsettled" not in facts:
                    ck.violation(c, f"{recv}.settle(...) is not dominated by a test that the promise is still unsettled: a second assignment trips 'assert not self.settled' (internal error)", construct=f"settle without settled-test in {q.split('::')[1]}")
    if n < 2:          # three on the pinned tree; two of them (the default base of a file / of an include) may share a helper
        ck.unknown(f"only {n} settle() sites found (3 confirmed by hand)")
    # lookahead => maybe
    for q, fn in repo.all_functions():
        for c in guards.calls_in(fn):
            kws = {k.arg: k.value for k in c.keywords}
            if "lookahead" in kws and isinstance(kws["lookahead"], ast.Constant) and kws["lookahead"].value:
                ck.instance(("lookahead", q, c.lineno), None, fn=q)
                if not ("maybe" in kws and isinstance(kws["maybe"], ast.Constant) and kws["maybe"].value):
                    ck.violation(c, "a parser is called with lookahead=True but without maybe=True: Parser.__call__ asserts", construct="lookahead without maybe")
    # parser functions return a value on every path
    pmod = repo.module("parser")
    for q, fn in repo.all_functions():
        if not q.startswith("parser::") or not isinstance(fn, ast.FunctionDef):
            continue
        is_parser = any(norm_text(d) == "Parser" for d in fn.decorator_list) or (fn.name == "fn" and ".Parser." in "." + q.split("::")[1] + ".")
        if not is_parser:
            continue
        ck.instance(("parser-returns", q), None, fn=q)
        for r in walk_local(fn):
            if isinstance(r, ast.Return) and (r.value is None or (isinstance(r.value, ast.Constant) and r.value.value is None)):
                ck.violation(r, f"parser function {q.split('::')[1]} returns None on a path: Parser.__call__ asserts 'result is not None'", construct=f"parser returns None in {q.split('::')[1]}")
        if not always_leaves(fn.body):
            ck.violation(fn, f"parser function {q.split('::')[1]} can fall off its end (returning None): Parser.__call__ asserts 'result is not None'", construct=f"parser falls through in {q.split('::')[1]}")
    # subscripts of case-insensitive tables are dominated by membership tests (KeyError)
    for q, fn in repo.all_functions():
        if q.split("::")[0] not in ("compiler", "parser", "types"):
            continue
        for node in walk_local(fn):
            if isinstance(node, ast.Subscript) and isinstance(node.ctx, ast.Load) and norm_text(node.value) in ("builtin_commands", "self.symbols", "compiler.symbols", "self.extern_symbols_mapping"):
                table, key = norm_text(node.value), norm_text(node.slice)

                def test_facts(t, table=table, key=key):
                    pos = set()
                    if isinstance(t, ast.Compare) and len(t.ops) == 1 and isinstance(t.ops[0], ast.NotIn) and norm_text(t.comparators[0]) == table and norm_text(t.left) == key:
                        return set(), {"member"}        # `if k not in T: return ...` - the rest runs with k in T
                    if isinstance(t, ast.UnaryOp) and isinstance(t.op, ast.Not):
                        p2, n2 = test_facts(t.operand)
                        return n2, p2
                    for cmp in ast.walk(t):
                        if isinstance(cmp, ast.Compare) and len(cmp.ops) == 1 and isinstance(cmp.ops[0], ast.In) and norm_text(cmp.comparators[0]) == table and norm_text(cmp.left) == key:
                            pos.add("member")
                    if isinstance(t, ast.BoolOp) and isinstance(t.op, ast.Or):
                        return set(), set()
                    return pos, set()
                facts = flow.facts_before(fn, node, lambda x: set(), None, test_facts)
                # the same test may sit in the enclosing `and` chain: `k in T and T[k]...`
                inline = False
                p, child = node._parent, node
                while p is not None and not isinstance(p, ast.stmt):
                    if isinstance(p, ast.IfExp) and child is p.body:
                        for v in _conj(p.test):
                            if isinstance(v, ast.Compare) and len(v.ops) == 1 and isinstance(v.ops[0], ast.In) and norm_text(v.comparators[0]) == table and norm_text(v.left) == key:
                                inline = True       # T[k] if k in T else ...
                    if isinstance(p, ast.IfExp) and child is p.orelse:
                        t_ = p.test
                        if isinstance(t_, ast.Compare) and len(t_.ops) == 1 and isinstance(t_.ops[0], ast.NotIn) and norm_text(t_.comparators[0]) == table and norm_text(t_.left) == key:
                            inline = True           # ... if k not in T else T[k]
                    child = p
                    if isinstance(p, ast.BoolOp) and isinstance(p.op, ast.And):
                        for v in p.values:
                            if isinstance(v, ast.Compare) and isinstance(v.ops[0], ast.In) and norm_text(v.comparators[0]) == table and norm_text(v.left) == key:
                                inline = True
                    p = p._parent
                ck.instance(("getitem", q, table, key, node.lineno), None, fn=q)
                if not inline and facts is not None and "member" not in facts:
                    ck.violation(node, f"{table}[{key}] is not dominated by '{key} in {table}': a missing name raises KeyError (internal error)", construct=f"{table}[{key}] without membership test")


def _conj(t):
    if isinstance(t, ast.BoolOp) and isinstance(t.op, ast.And):
        out = []
        for v in t.values:
            out += _conj(v)
        return out
    return [t]


def always_leaves(stmts):
    """the statement list cannot complete normally"""
    if not stmts:
        return False
    last = stmts[-1]
    if isinstance(last, (ast.Return, ast.Raise)):
        return True
    if isinstance(last, ast.If):
        return bool(last.orelse) and always_leaves(last.body) and always_leaves(last.orelse)
    if isinstance(last, ast.While) and isinstance(last.test, ast.Constant) and last.test.value:
        return not any(isinstance(n, ast.Break) for n in ast.walk(last))
    if isinstance(last, ast.Try):
        return always_leaves(last.body) and all(always_leaves(h.body) for h in last.handlers)
    if isinstance(last, ast.With):
        return always_leaves(last.body)
    if isinstance(last, ast.Expr) and isinstance(last.value, ast.Call) and norm_text(last.value.func) == "reports.critical":
        return True
    return False


# ---------------------------------------------------------------------------------------- G3
def rule_G3(ck):
    """results of parser calls with a non-critical report= must be None-tested before use"""
    repo = ck.repo
    n = 0
    for q, fn in repo.all_functions():
        if not q.startswith("parser::"):
            continue
        for c in guards.calls_in(fn):
            kw = {k.arg: k.value for k in c.keywords}
            rep = kw.get("report")
            if rep is None:
                continue
            n += 1
            prio = None
            if isinstance(rep, ast.Tuple) and rep.elts:
                prio = norm_text(rep.elts[0])
            elif isinstance(rep, ast.Name):
                prio = "var:" + rep.id
            critical = prio == "reports.critical"
            ck.instance(("report-call", q, c.lineno), {"site": q, "call": norm_text(c.func)[:50], "priority": prio}, fn=q)
            if prio is not None and prio.startswith("var:"):
                # `report` variable: either a critical tuple or None (expression()): check its assignment
                assigns = [a for a in walk_local(fn) if isinstance(a, ast.Assign) and norm_text(a.targets[0]) == rep.id]
                vals = []
                for a in assigns:
                    v = a.value
                    if isinstance(v, ast.IfExp):
                        vals += [v.body, v.orelse]
                    else:
                        vals.append(v)
                critical = all((isinstance(v, ast.Constant) and v.value is None) or (isinstance(v, ast.Tuple) and v.elts and norm_text(v.elts[0]) == "reports.critical") for v in vals) and bool(vals)
                if critical:
                    continue
            if critical:
                continue
            # non-critical: the call may return None
            parent = c._parent
            if isinstance(parent, (ast.Attribute, ast.Subscript)) or (isinstance(parent, ast.Call) and parent.func is not c and c in parent.args and norm_text(parent.func) in ("int", "len", "chr")):
                ck.violation(c, f"the parser call can return None (its report is not critical) and the result is used at once ({norm_text(parent)[:60]}): a malformed input ends in AttributeError/TypeError (internal error)",
                             construct=f"unchecked optional parser result in {q.split('::')[1]}")
                continue
            if isinstance(parent, ast.Assign) and isinstance(parent.targets[0], ast.Name):
                name = parent.targets[0].id

                def test_facts(t, name=name):
                    txt = norm_text(t)
                    if txt == f"{name} is None":
                        return set(), {"notnone"}
                    if txt in (f"{name} is not None", name):
                        return {"notnone"}, set()
                    return set(), set()

                def gen(x, name=name):
                    if isinstance(x, ast.Assign) and norm_text(x.targets[0]) == name and x is not parent:
                        return {"notnone"}
                    return set()
                mf = flow.MustFlow(gen, None, test_facts)
                mf.run(fn)
                for use in walk_local(fn):
                    if isinstance(use, ast.Name) and use.id == name and isinstance(use.ctx, ast.Load) and use.lineno > parent.lineno:
                        up = use._parent
                        if isinstance(up, ast.Compare) and any(isinstance(o, (ast.Is, ast.IsNot)) for o in up.ops):
                            continue
                        stmt = use
                        while not isinstance(stmt, ast.stmt):
                            stmt = stmt._parent
                        facts = mf.before.get(id(stmt))
                        # inside the guarded if body the fact is in `before` of the inner statement
                        if facts is None:
                            continue
                        risky = isinstance(up, (ast.Attribute, ast.Subscript)) or (isinstance(up, ast.Call) and use in up.args)
                        if risky and "notnone" not in facts:
                            ck.violation(use, f"'{name}' may be None here (the parser call at line {parent.lineno} reports without aborting) and is used as a value: malformed input ends in an internal error",
                                         construct=f"unchecked optional parser result '{name}' in {q.split('::')[1]}")
                            break
    if n < 10:
        ck.unknown(f"only {n} parser calls with report= found (14 confirmed by hand)")


# ---------------------------------------------------------------------------------------- G10
    # a reported type mismatch ends the handling of that value: `if not isinstance(x, T): report ...` must leave (return / raise /
    # continue / break), otherwise the code below goes on to use x as a T (AttributeError: internal error)
    for q, fn in repo.all_functions():
        if isinstance(fn, ast.Lambda) or q.split("::")[0] in ("devices", "_cli", "deferred"):
            continue
        for node in walk_local(fn):
            if isinstance(node, ast.If) and isinstance(node.test, ast.UnaryOp) and isinstance(node.test.op, ast.Not) and isinstance(node.test.operand, ast.Call) \
                    and norm_text(node.test.operand.func) == "isinstance" and guards.body_reports(node.body):
                last = node.body[-1]
                leaves = always_leaves(node.body) or isinstance(last, (ast.Continue, ast.Break))
                ck.instance(("type-guard", q, norm_text(node.test)), {"function": q, "guard": norm_text(node.test), "leaves": leaves}, fn=q)
                if not leaves and not node.orelse:
                    x = norm_text(node.test.operand.args[0])
                    ck.violation(node, f"'{norm_text(node.test)}' reports the mismatch but does not leave: the statements below go on to use {x} as the type it is not (AttributeError, an internal error after the diagnostic)",
                                 construct=f"type guard without exit in {public_qual(q).split('::')[1]}")

def constructed_classes(repo, funcs):
    out = set()
    for q in funcs:
        fn = repo.func(q)
        for c in ast.walk(fn):
            if isinstance(c, ast.Call) and isinstance(c.func, ast.Attribute) and norm_text(c.func.value) in ("types", "operators"):
                out.add(c.func.attr)
    return out


def parser_closure(repo, start):
    """parser functions reachable by name from `start` (module-level names of parser.py)"""
    mod = repo.module("parser")
    names = {s.name for s in mod.tree.body if isinstance(s, ast.FunctionDef)} | \
        {t.id for s in mod.tree.body if isinstance(s, ast.Assign) for t in s.targets if isinstance(t, ast.Name)}
    defs = {}
    for s in mod.tree.body:
        if isinstance(s, ast.FunctionDef):
            defs[s.name] = s
        elif isinstance(s, ast.Assign) and isinstance(s.targets[0], ast.Name):
            defs[s.targets[0].id] = s.value
    seen, todo = set(), [start]
    while todo:
        n = todo.pop()
        if n in seen or n not in defs:
            continue
        seen.add(n)
        for m in ast.walk(defs[n]):
            if isinstance(m, ast.Name) and m.id in names:
                todo.append(m.id)
    return seen


def _block_accepts(repo, clsname):
    """compile_block([one statement of class clsname]) reaches that class's compile routine (abstract execution; the routines are stubbed)"""
    from ..engine.interp import Rec, Raised, Unsupported
    from ..engine import sym
    from .world import eager_interp, emit_report_summary, Shapes
    I = eager_interp(repo)
    hits = []
    stub = lambda tag: (lambda I_, fn_, a, k: hits.append(tag) or b"")
    I.summaries = {"reports::emit_report": emit_report_summary, "compiler::Compiler.compile_insn": stub("Instruction"), "compiler::Compiler.compile_word_list": stub("WordList"),
                   "compiler::Compiler.compile_label": stub("Label"), "compiler::Compiler.compile_assignment": stub("Assignment")}

    def thunk():
        del hits[:]
        sh = Shapes(I)
        T = lambda n: I.module_get("types", n)
        tok = {"Instruction": lambda: sh.mk(T("Instruction"), None, None, sh.symbol("nop"), []),
               "WordList": lambda: sh.mk(T("WordList"), None, None, [sh.number("1", 1)]),
               "Label": lambda: sh.mk(T("Label"), None, None, "lab", False),
               "Assignment": lambda: sh.mk(T("Assignment"), None, None, sh.symbol("x"), sh.number("1", 1), False)}.get(clsname)
        if tok is None:
            return None
        comp = I.instantiate(I.module_get("compiler", "Compiler"), [], {})
        block = sh.mk(T("CodeBlock"), None, None, [tok()])
        I.call_method(comp, "compile_block", [{"context": "file", "link_base": {"promise": sym.var("P", "obj"), "set_where": None}}, block, 0])
        return list(hits)
    try:
        ps = I.explore(thunk)
    except Unsupported:
        return False
    return bool(ps) and all(p.kind == "return" and p.value == [clsname] for p in ps)


def rule_G10(ck):
    repo = ck.repo
    # (a) compile_block's statement dispatch vs what parser.code builds
    stmt_parsers = parser_closure(repo, "code") - parser_closure(repo, "expression") - {"code"}
    universe = set()
    for nm in ("label", "assignment", "instruction", "word_list"):
        fn = repo.func(f"parser::{nm}")
        for r in walk_local(fn):
            if isinstance(r, ast.Return) and isinstance(r.value, ast.Call) and norm_text(r.value.func).startswith("types."):
                universe.add(r.value.func.attr)
    fn = repo.func("compiler::Compiler.compile_block")
    handled = set()
    has_else_assert = False
    for n in walk_local(fn):
        if isinstance(n, ast.If) and isinstance(n.test, ast.Call) and norm_text(n.test.func) == "isinstance" and norm_text(n.test.args[0]) == "insn":
            handled.add(norm_text(n.test.args[1]))
        if isinstance(n, ast.Match) and norm_text(n.subject) == "insn":       # match insn: case Instruction(): ...
            for case in n.cases:
                for pat in (case.pattern.patterns if isinstance(case.pattern, ast.MatchOr) else [case.pattern]):
                    if isinstance(pat, ast.MatchClass):
                        handled.add(norm_text(pat.cls))
        if isinstance(n, ast.Assert) and norm_text(n.test) == "False":
            has_else_assert = True
    ck.instance(("dispatch", "compile_block"), {"statement classes built by the parser": sorted(universe), "handled": sorted(handled)}, fn="compiler::Compiler.compile_block")
    if len(universe) < 4:
        ck.unknown(f"statement classes built by parser.code not recognised: {sorted(universe)}")
    missing = universe - handled
    if missing:
        # no isinstance chain (a dispatch table, a visitor ...): decide by executing compile_block on one statement of each class
        missing = {c for c in missing if not _block_accepts(repo, c)}
    if missing:
        ck.violation(fn, f"compile_block does not handle statement class(es) {sorted(missing)} that the parser builds" + ("; they run into 'assert False'" if has_else_assert else "; they are silently dropped"),
                     construct=f"compile_block dispatch misses {','.join(sorted(missing))}")
    # (b) fixup_label vs expression classes
    enc = repo.func("insns::OffsetOperandStub.encode")
    recursive = [n for n in ast.walk(enc) if isinstance(n, ast.FunctionDef) and n is not enc and any(isinstance(c, ast.Call) and isinstance(c.func, ast.Name) and c.func.id == n.name for c in ast.walk(n))]
    if recursive:
        fl = recursive[0]
        built = constructed_classes(repo, [f"parser::{n}" for n in parser_closure(repo, "expression") if repo.has_func(f"parser::{n}")])
        built |= {"InfixOperator", "PrefixOperator", "PostfixOperator"}
        built -= {"call", "CodeBlock", "File", "Instruction", "Label", "Assignment", "WordList"}
        handled = set()
        unconditional = set()
        for n in walk_local(fl):
            if isinstance(n, ast.If):
                t = n.test
                calls = [t] if isinstance(t, ast.Call) else [v for v in getattr(t, "values", []) if isinstance(v, ast.Call)]
                for cl in calls:
                    if norm_text(cl.func) == "isinstance":
                        a = cl.args[1]
                        for e in (a.elts if isinstance(a, ast.Tuple) else [a]):
                            handled.add(norm_text(e).split(".")[-1])
        else_assert = any(isinstance(n, ast.Assert) and norm_text(n.test) == "False" for n in walk_local(fl))
        # operator classes are all subclasses of the three kinds
        universe = {b for b in built if b[0].isupper()}
        missing = universe - handled
        ck.instance(("dispatch", "fixup_label"), {"expression classes the parser builds": sorted(universe), "handled": sorted(handled), "else is assert False": else_assert}, fn="insns::OffsetOperandStub.encode.fixup_label")
        if else_assert and missing:
            ck.violation(fl, f"fixup_label ends in 'assert False' but the parser also builds {sorted(missing)} (e.g. 'br 10.', \"br 'a\", 'br <1>'): such a branch operand is an internal error instead of a diagnostic or a value",
                         construct="fixup_label dispatch: assert False on unhandled expression classes")
    # (c) operand types: annotation table vs the asserts that consume it
    from .world import eager_interp
    I = eager_interp(repo)
    table = I.explore(lambda: (I.module_env("metacommands"), I.module_get("metacommand_impl", "metacommands"))[1])[0].value
    types_used = set()
    for name, cmd in table.items():
        for oi in cmd.fields["operand_info"]:
            types_used.add(getattr(oi["type"], "name", repr(oi["type"])))
    fn = repo.func("parser::parse_insn_operand")
    asserts = [n for n in walk_local(fn) if isinstance(n, ast.Assert) and "operand_type" in norm_text(n.test)]
    ck.instance(("dispatch", "operand types"), {"annotation types": sorted(types_used), "assert": norm_text(asserts[0].test) if asserts else None}, fn="parser::parse_insn_operand")
    if asserts:
        allowed = {norm_text(e) for e in asserts[0].test.comparators[0].elts} if isinstance(asserts[0].test, ast.Compare) and isinstance(asserts[0].test.comparators[0], ast.Tuple) else set()
        extra = types_used - allowed
        if extra:
            # is the extra type mapped away before the assert?  (`if operand_type is types.X: operand_type = int`)
            mapped = set()
            for n in walk_local(fn):
                if isinstance(n, ast.If) and isinstance(n.test, ast.Compare) and norm_text(n.test.left) == "operand_type" and isinstance(n.test.ops[0], ast.Is) and n.lineno < asserts[0].lineno:
                    if any(isinstance(s, ast.Assign) and norm_text(s.targets[0]) == "operand_type" and norm_text(s.value) in allowed for s in n.body):
                        mapped.add(norm_text(n.test.comparators[0]).split(".")[-1])
            extra -= mapped
        if extra:
            # not the shape this clause reads (the mapping may sit in a helper): decide by running the real statement parser on an
            # excess operand of every directive that takes such a type
            from ..props.c05 import run_parser
            crashed = []
            for name, cmd in sorted(table.items(), key=lambda kv: str(kv[0])):
                if any(getattr(oi["type"], "name", "") in extra for oi in cmd.fields["operand_info"]):
                    text = f"{name} 2, 3 {{ nop }}\n"
                    try:
                        r_, pos_, errs_, raised_ = run_parser(I, "code", text)
                    except Unknown as ex_:
                        crashed.append((text.strip(), str(ex_)[:80]))
                        continue
                    ck.instance(("dispatch", "excess operand", name), {"text": text.strip(), "raised": raised_, "errors": errs_}, fn="parser::parse_insn_operand")
                    if raised_ in ("AssertionError", "TypeError", "AttributeError", "KeyError", "IndexError"):
                        crashed.append((text.strip(), raised_))
            if crashed:
                ck.violation(asserts[0], f"operand types in the annotation table include {sorted(extra)}, which 'assert operand_type in (...)' does not allow: {crashed[0][0]!r} ends in {crashed[0][1]} (an internal error)",
                             construct="parse_insn_operand type assert vs annotation table")
    # (the cooking of every annotation type is exercised by C02.R1 / C06, which run every directive)
    # (d) compile_insn's symbol-kind dispatch: values of Compiler.symbols are stored by compile_label / compile_assignment only
    stores = []
    for q, f in repo.all_functions():
        for n in walk_local(f):
            if isinstance(n, ast.Assign) and isinstance(n.targets[0], ast.Subscript) and norm_text(n.targets[0].value) in ("self.symbols", "compiler.symbols"):
                stores.append(q)
    ck.instance(("dispatch", "symbol kinds"), {"writers of the symbol table": sorted(set(stores))}, fn="compiler::Compiler.compile_insn")
    if set(stores) - {"compiler::Compiler.compile_label", "compiler::Compiler.compile_assignment"}:
        ck.violation("compiler::Compiler.compile_insn", f"the symbol table is also written by {sorted(set(stores))}: compile_insn's Label/Assignment dispatch ends in 'assert False' for other kinds", construct="symbol table writers")


# ---------------------------------------------------------------------------------------- G11
def may_return_deferred(fn):
    for r in walk_local(fn):
        if isinstance(r, ast.Return) and r.value is not None:
            for c in ast.walk(r.value):
                if isinstance(c, ast.Call) and isinstance(c.func, ast.Subscript) and norm_text(c.func.value) in ("Deferred", "SizedDeferred"):
                    return True
    return False


ALLOWED_BINOPS = (ast.Add, ast.Sub, ast.Mult)


def rule_G11(ck):
    """values that may be an unevaluated Deferred are used only with +, -, *, unary +/-, wait(), isinstance, is / is not"""
    repo = ck.repo
    sources = {q.split("::")[1] for q, fn in repo.all_functions() if isinstance(fn, ast.FunctionDef) and may_return_deferred(fn) and "." not in q.split("::")[1]}
    ck.instance("sources", {"functions that may return an unevaluated deferred": sorted(sources)})
    n = 0
    for q, fn in repo.all_functions():
        if q.split("::")[0] in ("deferred", "devices", "_cli", "parser", "reports"):
            continue
        tainted = {}
        for a in walk_local(fn):
            if isinstance(a, ast.Assign) and len(a.targets) == 1 and isinstance(a.targets[0], ast.Name) and isinstance(a.value, ast.Call):
                f = a.value.func
                nm = f.id if isinstance(f, ast.Name) else None
                if nm in sources:
                    tainted.setdefault(a.targets[0].id, []).append(a)
            # (register := try_as_register(...)) is the same binding
            if isinstance(a, ast.NamedExpr) and isinstance(a.target, ast.Name) and isinstance(a.value, ast.Call) and isinstance(a.value.func, ast.Name) and a.value.func.id in sources:
                tainted.setdefault(a.target.id, []).append(a)
        for name, assigns in tainted.items():
            for use in walk_local(fn):
                if not (isinstance(use, ast.Name) and use.id == name and isinstance(use.ctx, ast.Load)):
                    continue
                p = use._parent
                n += 1
                bad = None
                if isinstance(p, ast.BinOp) and not isinstance(p.op, ALLOWED_BINOPS):
                    bad = norm_text(p)
                elif isinstance(p, ast.Compare) and not all(isinstance(o, (ast.Is, ast.IsNot)) for o in p.ops):
                    bad = norm_text(p)
                elif isinstance(p, ast.UnaryOp) and isinstance(p.op, (ast.Not, ast.Invert)):
                    bad = norm_text(p)
                elif isinstance(p, ast.IfExp) and p.test is use or (isinstance(p, (ast.If, ast.While)) and p.test is use):
                    bad = "truth test of " + name
                elif isinstance(p, ast.FormattedValue) or isinstance(p, ast.JoinedStr):
                    continue
                ck.instance(("use", q, name, use.lineno, use.col_offset), None, fn=q)
                if bad:
                    ck.violation(use, f"'{name}' comes from {norm_text(assigns[0].value.func)}(), which may return an unevaluated deferred (a '%expr' register whose value is defined later); "
                                      f"'{bad[:50]}' is not an operation a deferred supports: TypeError, or a silently wrong branch. '(%<reg>)' with a later 'reg = 5' dies, '(r5)' assembles",
                                 construct=f"deferred-unsafe use of {name} in {q.split('::')[1]}")
    if n < 5:
        ck.unknown(f"only {n} uses of possibly-deferred results found (nine confirmed by hand)")
    _g11_addresses(ck)
    _g11_tuple_results(ck)


def rule_G11_results(ck):
    _g11_tuple_results(ck)


def _deferred_positions(fn):
    """positions of the returned tuple that may hold an unevaluated deferred (Deferred[..](..) / SizedDeferred[..](..) built in place)"""
    out = set()
    for r in walk_local(fn):
        if isinstance(r, ast.Return) and isinstance(r.value, ast.Tuple):
            for i, e in enumerate(r.value.elts):
                if any(isinstance(c, ast.Call) and isinstance(c.func, ast.Subscript) and norm_text(c.func.value) in ("Deferred", "SizedDeferred") for c in ast.walk(e)):
                    out.add(i)
    return out


# positions whose deferreds are byte chunks (a SizedDeferred supports len() and +): not numbers, not judged here
def _g11_tuple_results(ck):
    """Methods that return tuples with a possibly-deferred NUMBER in some position (the operand encoders: the bits that go into the
    opcode word): the caller's name bound to that position - directly, or through a list of tuples it was appended to and a loop
    that unpacks that list again, nested functions included - may be combined with + - *, stored, passed on, or forced with wait()."""
    repo = ck.repo
    methods = {}
    for q, fn in repo.all_functions():
        if isinstance(fn, ast.FunctionDef) and "." in q.split("::")[1]:
            pos = {i for i in _deferred_positions(fn)
                   if any(isinstance(r, ast.Return) and isinstance(r.value, ast.Tuple) and len(r.value.elts) > i and "SizedDeferred" not in norm_text(r.value.elts[i]) and "Deferred" in norm_text(r.value.elts[i])
                          for r in walk_local(fn))}
            if pos:
                methods.setdefault(fn.name, set()).update(pos)
    ck.instance("tuple-sources", {"methods with a possibly-deferred number in a result position": {k: sorted(v) for k, v in sorted(methods.items())}})
    n = 0
    shared_lists = {}        # (module, list name, position) -> origin: a list of tuples handed from one method to another keeps its name
    todo = []
    for q, fn in repo.all_functions():
        if isinstance(fn, ast.Lambda) or "<locals>" in q or q.split("::")[0] in ("deferred", "devices", "_cli", "parser", "reports"):
            continue
        if any(q.split("::")[1].startswith(o.split("::")[1] + ".") for o, f2 in repo.all_functions() if o.split("::")[0] == q.split("::")[0] and isinstance(f2, ast.FunctionDef) and f2 is not fn and any(x is fn for x in ast.walk(f2))):
            continue                     # nested functions are walked with their outermost function
        todo.append((q, fn))
    for pass_ in (0, 1):
      for q, fn in todo:
        names = {}
        lists = {(k[1], k[2]): v for k, v in shared_lists.items() if k[0] == q.split("::")[0]} if pass_ else {}
        grew = True
        while grew:
            grew = False
            for a in ast.walk(fn):
                if isinstance(a, ast.Assign) and len(a.targets) == 1 and isinstance(a.targets[0], ast.Tuple) and isinstance(a.value, ast.Call) and isinstance(a.value.func, ast.Attribute) \
                        and a.value.func.attr in methods:
                    for i in methods[a.value.func.attr]:
                        if i < len(a.targets[0].elts) and isinstance(a.targets[0].elts[i], ast.Name) and a.targets[0].elts[i].id not in names:
                            names[a.targets[0].elts[i].id] = f"position {i} of .{a.value.func.attr}()"
                            grew = True
                # v2 = v
                if isinstance(a, ast.Assign) and len(a.targets) == 1 and isinstance(a.targets[0], ast.Name) and isinstance(a.value, ast.Name) and a.value.id in names and a.targets[0].id not in names:
                    names[a.targets[0].id] = names[a.value.id]
                    grew = True
                # L.append((x, v))
                if isinstance(a, ast.Call) and isinstance(a.func, ast.Attribute) and a.func.attr == "append" and isinstance(a.func.value, ast.Name) and len(a.args) == 1 and isinstance(a.args[0], ast.Tuple):
                    for i, e in enumerate(a.args[0].elts):
                        if isinstance(e, ast.Name) and e.id in names and (a.func.value.id, i) not in lists:
                            lists[(a.func.value.id, i)] = names[e.id]
                            grew = True
                # for x, v in L:
                if isinstance(a, (ast.For, ast.comprehension)) and isinstance(a.iter, ast.Name) and isinstance(a.target, ast.Tuple):
                    for i, e in enumerate(a.target.elts):
                        if isinstance(e, ast.Name) and (a.iter.id, i) in lists and e.id not in names:
                            names[e.id] = lists[(a.iter.id, i)]
                            grew = True
        if not pass_:
            for (ln, i), origin in lists.items():
                shared_lists[(q.split("::")[0], ln, i)] = origin
            continue
        if not names:
            continue
        for node in ast.walk(fn):
            if not (isinstance(node, ast.Name) and isinstance(node.ctx, ast.Load) and node.id in names):
                continue
            n += 1
            ck.instance(("tuple-result-use", q, node.id, node.lineno, node.col_offset), None, fn=q)
            p = node._parent
            bad = None
            if isinstance(p, ast.BinOp) and not isinstance(p.op, ALLOWED_BINOPS):
                bad = norm_text(p)
            elif isinstance(p, ast.Compare) and not all(isinstance(o, (ast.Is, ast.IsNot)) for o in p.ops):
                bad = norm_text(p)
            elif isinstance(p, ast.UnaryOp) and isinstance(p.op, (ast.Not, ast.Invert)):
                bad = norm_text(p)
            elif isinstance(p, (ast.If, ast.While, ast.IfExp)) and p.test is node:
                bad = "truth test of " + node.id
            elif isinstance(p, ast.Call) and isinstance(p.func, ast.Name) and p.func.id in ("range", "int", "oct", "hex", "bin", "abs", "divmod", "chr", "bytes", "str"):
                bad = norm_text(p)
            elif isinstance(p, ast.Subscript) and p.slice is node:
                bad = norm_text(p)
            if bad:
                ck.violation(node, f"'{node.id}' is {names[node.id]}, which may be an unevaluated deferred (a branch offset or an immediate that depends on a later label); "
                                   f"'{bad[:60]}' is not an operation a deferred supports (TypeError at the closing evaluation) - it has to be forced with wait() first: 'br later' dies, 'br earlier' assembles",
                             construct=f"deferred result used without wait in {public_qual(q).split('::')[1]}")
    if n < 2:
        ck.unknown(f"only {n} uses of possibly-deferred tuple results found (compile_insn: two confirmed by hand)")


ADDRESS_PARAMS = {"addr", "old_addr", "start", "address"}


def _g11_addresses(ck):
    """The location counter and symbol values are deferreds until the image is laid out: state['emit_address'], state['rel_address'],
    the address parameters of the compiler's methods and the values stored in the symbol table may only be combined with + - *
    (LinearPolynomial arithmetic), stored, passed on, or forced with wait(); everything else (%, comparisons, shifts, truth
    tests, formatting into bytes) needs the wait() first."""
    repo = ck.repo
    n = 0

    def bad_use(node):
        """node: an expression that IS a possibly-deferred address -> text of the unsupported use, or None"""
        p = node._parent
        if isinstance(p, ast.Call) and isinstance(p.func, ast.Name) and p.func.id == "wait":
            return None
        if isinstance(p, ast.BinOp):
            if isinstance(p.op, ALLOWED_BINOPS):
                return bad_use(p)          # still a (polynomial) deferred: look at what happens to the sum
            return norm_text(p)
        if isinstance(p, ast.UnaryOp):
            return bad_use(p) if isinstance(p.op, (ast.USub, ast.UAdd)) else norm_text(p)
        if isinstance(p, ast.Compare) and not all(isinstance(o, (ast.Is, ast.IsNot)) for o in p.ops):
            return norm_text(p)
        if isinstance(p, (ast.If, ast.While, ast.IfExp)) and p.test is node:
            return "truth test of " + norm_text(node)
        if isinstance(p, ast.BoolOp):
            return norm_text(p)
        if isinstance(p, ast.Call) and isinstance(p.func, ast.Name) and p.func.id in ("range", "int", "len", "oct", "hex", "bin", "abs", "divmod", "chr", "bytes"):
            return norm_text(p)
        if isinstance(p, ast.Subscript) and p.slice is node:
            return norm_text(p)
        return None
    for q, fn in repo.all_functions():
        mod = q.split("::")[0]
        if mod not in ("compiler", "metacommands", "insns", "metacommand_impl", "types", "operators") or isinstance(fn, ast.Lambda) and False:
            continue
        # names that hold addresses in this function
        names = set()
        if mod == "compiler" and not isinstance(fn, ast.Lambda):
            names |= {a.arg for a in fn.args.args if a.arg in ADDRESS_PARAMS}
        if not isinstance(fn, ast.Lambda):
            for loop in walk_local(fn):
                # for name, (token, value) in self.symbols.items():
                if isinstance(loop, ast.For) and "symbols" in norm_text(loop.iter) and ".items()" in norm_text(loop.iter) and isinstance(loop.target, ast.Tuple) and len(loop.target.elts) == 2 \
                        and isinstance(loop.target.elts[1], ast.Tuple) and len(loop.target.elts[1].elts) == 2 and isinstance(loop.target.elts[1].elts[1], ast.Name):
                    names.add(loop.target.elts[1].elts[1].id)
        # a local that is assigned an address (or a sum / difference / multiple of addresses) is one too
        def addr_expr(e):
            if isinstance(e, ast.Name):
                return e.id in names
            if isinstance(e, ast.Subscript) and isinstance(e.slice, ast.Constant) and e.slice.value in ("emit_address", "rel_address") and norm_text(e.value).endswith("state"):
                return True
            if isinstance(e, ast.BinOp) and isinstance(e.op, ALLOWED_BINOPS):
                return addr_expr(e.left) or addr_expr(e.right)
            if isinstance(e, ast.UnaryOp) and isinstance(e.op, (ast.USub, ast.UAdd)):
                return addr_expr(e.operand)
            return False
        if not isinstance(fn, ast.Lambda):
            grew = True
            while grew:
                grew = False
                for a_ in ast.walk(fn):
                    if isinstance(a_, ast.Assign) and len(a_.targets) == 1 and isinstance(a_.targets[0], ast.Name) and a_.targets[0].id not in names and addr_expr(a_.value):
                        # only if EVERY assignment to that name is an address (a name re-used for a waited value is not one)
                        others = [b_ for b_ in ast.walk(fn) if isinstance(b_, ast.Assign) and any(isinstance(t_, ast.Name) and t_.id == a_.targets[0].id for t_ in b_.targets)]
                        if all(addr_expr(b_.value) for b_ in others):
                            names.add(a_.targets[0].id)
                            grew = True
        nodes = list(ast.walk(fn)) if not isinstance(fn, ast.Lambda) and names else (list(walk_local(fn)) if not isinstance(fn, ast.Lambda) else list(ast.walk(fn.body)))
        for node in nodes:
            is_addr = (isinstance(node, ast.Subscript) and isinstance(node.ctx, ast.Load) and isinstance(node.slice, ast.Constant) and node.slice.value in ("emit_address", "rel_address")
                       and norm_text(node.value).endswith("state")) or (isinstance(node, ast.Name) and isinstance(node.ctx, ast.Load) and node.id in names)
            if not is_addr:
                continue
            # a closure parameter with the same name shadows: free variables of nested functions are the same objects, so keep them
            n += 1
            bad = bad_use(node)
            ck.instance(("address-use", q, norm_text(node), node.lineno, node.col_offset), None, fn=q)
            if bad:
                ck.violation(node, f"{norm_text(node)} may still be an unevaluated deferred (a location counter or symbol value that depends on later statements); '{bad[:60]}' is not an operation a deferred supports "
                                   "(TypeError, or a silently wrong branch) - it has to be forced with wait() first", construct=f"deferred address used without wait in {public_qual(q).split('::')[1]}")
    if n < 15:
        ck.unknown(f"only {n} uses of location counters / symbol values found (over 25 confirmed by hand)")


# ---------------------------------------------------------------------------------------------------------------
# G12 - evaluation depth: a thunk that forces another deferred nests one Python recursion per link of a definition chain
VALUE_MODULES = ("compiler", "types", "operators", "deferred")
# forcing sites that are accepted, with the reason (keyed by the public function that creates the thunk)
G12_ACCEPTED = {
    "deferred::BaseDeferred.length": "forces the chunk whose length it is: a sink of a bytes value, not a link between symbol values",
    "deferred::Deferred.length": "forces the chunk whose length it is: a sink of a bytes value, not a link between symbol values",
    "deferred::BaseDeferred.__mul__": "reached only while BOTH factors are unknown; at the closing wait every symbol has a definition, the product of a value and an unknown is a "
                                      "LinearPolynomial, and wait() iterates over those without nesting (chains of 3000 'a = k * b' links assemble in either order)",
    "deferred::LinearPolynomial.__mul__": "same as BaseDeferred.__mul__: product of two unknown polynomials only",
}


def _forcing_calls(node):
    out = []
    for n in ast.walk(node):
        if isinstance(n, ast.Call):
            f = n.func
            if (isinstance(f, ast.Name) and f.id == "wait") or (isinstance(f, ast.Attribute) and f.attr == "wait"):
                out.append(n)
    return out


def _thunk_type(thunk):
    """text of T in the Deferred[T](thunk) / SizedDeferred[T](n, thunk) call the thunk is handed to, or None"""
    def ctor(call):
        f = call.func
        if isinstance(f, ast.Subscript) and norm_text(f.value) in ("Deferred", "SizedDeferred"):
            return norm_text(f.slice)
        return None
    if isinstance(thunk, ast.Lambda):
        p = getattr(thunk, "_parent", None)
        return ctor(p) if isinstance(p, ast.Call) else None
    p = getattr(thunk, "_parent", None)
    while p is not None and not isinstance(p, FUNC_TYPES):
        p = getattr(p, "_parent", None)
    if p is None:
        return None
    for n in walk_local(p):
        if isinstance(n, ast.Call) and any(isinstance(a, ast.Name) and a.id == thunk.name for a in n.args):
            t = ctor(n)
            if t:
                return t
    return None


def rule_G12(ck):
    """Definition chains of any length (C03) must not need Python recursion proportional to their length (C08: RecursionError
    is an internal crash). wait() is a loop: a thunk that RETURNS an unevaluated deferred costs no stack. A thunk that calls
    wait() itself keeps its frames alive while the next link is evaluated."""
    from . import thunks
    repo = ck.repo
    sites = {}
    for r in thunks.analyse(repo):
        q = r["qual"]
        if q.split("::")[0] not in VALUE_MODULES:
            continue
        calls = _forcing_calls(r["thunk"])
        if not calls:
            continue
        if _thunk_type(r["thunk"]) == "bytes":
            # a chunk of output bytes: forced once by the output stage; symbol values refer to it only through length()
            ck.instance(("sink", public_qual(q)), {"function": public_qual(q), "verdict": "bytes chunk (a sink of the evaluation, not a link between symbol values)"}, fn=q)
            continue
        sites.setdefault(public_qual(q), []).append((r["thunk"], calls, "thunk"))
    # operator functions are invoked from inside the operators' thunks
    for fn, dec in repo.decorated("operators", "operator"):
        calls = _forcing_calls(fn)
        if calls:
            sites.setdefault("operators::" + fn.name, []).append((fn, calls, "operator function (runs inside the operator's thunk)"))
    for where, lst in sorted(sites.items()):
        node, calls, kind = lst[0]
        why = G12_ACCEPTED.get(where)
        ck.instance(("forcing", where), {"function": where, "kind": kind, "forces": sorted({norm_text(c)[:50] for _, cs, _ in lst for c in cs}), "verdict": "accepted: " + why if why else "recursion link"}, fn=where)
        if why:
            continue
        ck.violation(node, f"the lazily evaluated value built in {where.split('::')[1]} forces its operand with {norm_text(calls[0])[:40]} from inside its own thunk: resolving a chain of definitions "
                           "'a0 = f(a1)', 'a1 = f(a2)', ... written before the definitions they refer to nests one Python recursion per link (about ten frames), so ~100 links end in "
                           "RecursionError ('unexpected internal compiler error') while the same definitions in dependency order assemble", construct=f"forcing thunk in {where.split('::')[1]}")
    if len(sites) < 6:
        ck.unknown(f"only {len(sites)} forcing thunks found in {VALUE_MODULES} (eight confirmed by hand)")


# ---------------------------------------------------------------------------------------------------------------
# G0 - the package imports: the top level of every module folds without raising
def rule_G0(ck):
    """`python -m pdpy11` imports every module of the package before it reads a source file. Each module's top level (table
    construction, decorators, class bodies) is folded by the interpreter; an exception there is an exception of every run."""
    from ..engine.interp import ModuleRaises, Unsupported, Interp
    repo = ck.repo
    I = Interp(repo)
    I.module_skip = {"devices", "_cli", "cli", "__main__", "__init__"}
    n = 0
    for name in sorted(repo.modules):
        if name in I.module_skip:
            continue
        try:
            I.explore(lambda name=name: I.module_env(name) and None)
            n += 1
            ck.instance(("module", name), None, fn=f"{name}::<module>")
        except ModuleRaises as ex:
            ck.instance(("module", name), {"module": name, "raises": ex.exc}, fn=f"{ex.module}::<module>")
            ck.violation(f"{ex.module}::<module>", f"importing pdpy11.{ex.module} raises {ex.exc} ({ex}): every run of the assembler dies before it reads a source file", construct=f"module {ex.module} raises at import")
        except Unsupported as ex:
            ck.unknown(f"module {name}: {ex}")
    if n < 12 and not ck.current.findings:
        ck.unknown(f"only {n} modules folded")


# ---------------------------------------------------------------------------------------------------------------
# G16 - the deferral protocol passes through: no blanket handler between a value that may not be ready and its waiter
BLANKET = ("Exception", "BaseException")
G16_POSITIVE = '''
def f(state, chunk):
    try:
        val = get_as_int(state, "x", chunk, chunk.expr, bitness=None, unsigned=True)
    except Exception:
        val = 0
    return val
'''


def _blanket_handlers(tree):
    """except handlers that also catch NotReadyError / RecoverableError / DeferredCycle (bare, Exception, BaseException, or a
    tuple naming one of them), guard a body that calls something, and do not re-raise what they caught"""
    out = []
    for t in ast.walk(tree):
        if not isinstance(t, ast.Try):
            continue
        if not any(isinstance(c, ast.Call) for s_ in t.body for c in ast.walk(s_)):
            continue
        for h in t.handlers:
            names = []
            if h.type is None:
                names = ["<bare>"]
            else:
                for e in (h.type.elts if isinstance(h.type, ast.Tuple) else [h.type]):
                    names.append(e.attr if isinstance(e, ast.Attribute) else getattr(e, "id", "?"))
            if not (h.type is None or any(n in BLANKET for n in names)):
                continue
            # a handler that always ends in a bare `raise` (or `raise ex`) only observes
            last = h.body[-1] if h.body else None
            if isinstance(last, ast.Raise) and (last.exc is None or (isinstance(last.exc, ast.Name) and last.exc.id == h.name)):
                continue
            out.append((t, h, names))
    return out


def rule_G16(ck):
    """Inside the package (the command line's last-resort handler apart) no `except Exception` / bare `except` may stand
    between code that evaluates operands and its caller: NotReadyError ('not yet: ask again when everything is compiled'),
    RecoverableError ('already reported') and DeferredCycle travel through these frames as exceptions. A blanket handler
    turns 'not yet' into a value: the directive settles early with a made-up operand and is never evaluated again."""
    repo = ck.repo
    pos = _blanket_handlers(ast.parse(G16_POSITIVE))
    if len(pos) != 1:
        raise Unknown("G16 self-check: the matcher does not recognise the reference example")
    n = 0
    for q, fn in repo.all_functions():
        mod = q.split("::")[0]
        if isinstance(fn, ast.Lambda) or "<locals>" in q:
            continue
        tries = [t for t in walk_local(fn) if isinstance(t, ast.Try)]
        for t in tries:
            n += 1
            ck.instance(("try", q, t.lineno), None, fn=q)
        if mod in ("_cli",):
            continue          # the catch-all 'unexpected internal compiler error' path is the one place a blanket handler belongs
        for t, h, names in _blanket_handlers(fn):
            if not any(x is t for x in walk_local(fn)):
                continue
            ck.violation(h, f"'except {', '.join(names)}' around {norm_text(t.body[0])[:70]!r} also catches NotReadyError, RecoverableError and DeferredCycle: an operand that is merely not known YET "
                            "(a symbol defined further down) is replaced by the handler's substitute, the directive settles with it and is never evaluated again - "
                            "and a failure that was never reported is swallowed silently", construct=f"blanket exception handler in {public_qual(q).split('::')[1]}")
    if n < 8:
        ck.unknown(f"only {n} try statements found in the package (12 confirmed by hand)")
