"""The 'eager world' used by the value rules: every operand value is available, so lazily evaluated
objects are replaced by their values (an opaque atom for user expressions). The laziness protocol itself
is the subject of other rules (C03, G1, G11), not of the value rules."""
from ..engine import sym
from ..engine.interp import Interp, PyFn, ClassVal, Rec, Raised, ExcVal, Bound, Closure, Unsupported
from ..engine.sym import S, is_sym

STATE = sym.var("state", "any")
DOT = sym.op("item", STATE, "emit_address")
REL = sym.op("item", STATE, "rel_address")


def emit_report_summary(I, fn, args, kwargs):
    prio = args[0]
    env = I.module_env("reports")
    name = next((n for n in ("error", "critical", "warning") if env.vars.get(n) is prio), "?")
    I.effect("report", name, args[1], tuple(args[2:]))
    if name == "critical":
        cls = env.vars["UnrecoverableError"]
        raise Raised(ExcVal(cls.name, cls=cls))
    return None


def wait_summary(I, fn, args, kwargs):
    x = args[0]
    if is_sym(x):
        return x
    return NotImplemented


def sized_construct(I, fn, args, kwargs):
    cls, typ, size, thunk = args
    value = I.call(thunk, [], {})
    I.effect("sized", size, value)
    return sym.op("sized", size, value)


def deferred_construct(I, fn, args, kwargs):
    thunk = args[2]
    return I.call(thunk, [], {})


def get_as_int_opaque(I, fn, args, kwargs):
    """get_as_int(state, what, token, arg_token, bitness, unsigned, default=None) kept as one atom"""
    names = ["state", "what", "token", "arg_token", "bitness", "unsigned", "default"]
    b = dict(zip(names, args))
    b.update(kwargs)
    val = I.call_method(b["arg_token"], "resolve", [b["state"]])
    I.effect("get_as_int", val, b.get("bitness"), b.get("unsigned"), b.get("default"))
    return sym.op("get_as_int", val, b.get("bitness"), b.get("unsigned"), b.get("default"))


EAGER = {
    "reports::emit_report": emit_report_summary,
    "deferred::wait": wait_summary,
    "deferred::SizedDeferred.construct": sized_construct,
    "deferred::Deferred.construct": deferred_construct,
}


def _ctx_isinstance(x, classes):
    """opaque source positions are Context objects"""
    if is_sym(x) and any(getattr(c, "name", "") == "Context" for c in classes):
        txt = repr(x)
        if "ctx" in txt:
            return True
    # the statement state is a plain dict: never an instance of a class of the package
    if is_sym(x) and x == STATE:
        from ..engine.interp import ClassVal
        if all(isinstance(c, ClassVal) for c in classes):
            return False
        if any(getattr(c, "name", "") == "dict" for c in classes):
            return True
    return None


_CACHE = {}


def eager_interp(repo, opaque_get_as_int=True, extra=None):
    """One interpreter per (repo, get_as_int policy): module top levels are folded once and shared."""
    key = (id(repo), opaque_get_as_int)
    I = _CACHE.get(key)
    if I is None:
        I = _CACHE[key] = Interp(repo)
        I.module_skip = {"devices", "_cli", "cli", "__main__", "__init__"}   # top levels touching the OS: names resolved lazily
    s = dict(EAGER)
    if opaque_get_as_int:
        s["metacommand_impl::get_as_int"] = get_as_int_opaque
    if extra:
        s.update(extra)
    I.summaries = s
    I.call_hook = None
    I.isinstance_hook = _ctx_isinstance
    I.attr_hook = None
    I.cellvars = {}
    return I


class Shapes:
    """Builds parse-tree shapes (abstract records of the repo's token classes) inside a path."""

    def __init__(self, I):
        self.I = I
        self.types = lambda n: I.module_get("types", n)
        self.ops = lambda n: I.module_get("operators", n)

    def xexpr(self, value, name="X"):
        """an expression token whose value is `value`"""
        base = self.types("ExpressionToken")
        cls = ClassVal("XExpr", None, [base])
        cls.attrs["resolve"] = PyFn(lambda I, args, kw: value, "XExpr.resolve")
        cls.attrs["text"] = PyFn(lambda I, args, kw: name, "XExpr.text")
        cls.attrs["__repr__"] = PyFn(lambda I, args, kw: name, "XExpr.__repr__")
        r = Rec(cls)
        r.fields.update(ctx_start=sym.var(f"{name}.ctx_start", "obj"), ctx_end=sym.var(f"{name}.ctx_end", "obj"))
        return r

    def mk(self, cls, *args, **kw):
        r = self.I.instantiate(cls, list(args), kw)
        self.n = getattr(self, "n", 0) + 1
        r.fields["ctx_start"] = sym.var(f"tok{self.n}.ctx_start", "obj")
        r.fields["ctx_end"] = sym.var(f"tok{self.n}.ctx_end", "obj")
        return r

    def with_text(self, r, text):
        r.fields["text"] = PyFn(lambda I, args, kw: text, "text")
        return r

    def symbol(self, name, label=False):
        return self.with_text(self.mk(self.types("Symbol"), None, None, name, label), name)

    def number(self, rep, value, is_valid_label=False):
        return self.with_text(self.mk(self.types("Number"), None, None, rep, value, is_valid_label), rep)

    def paren(self, inner, o="(", c=")"):
        return self.mk(self.types("ParenthesizedExpression"), None, None, inner, o, c)

    def un(self, opname, operand):
        return self.mk(self.ops(opname), None, None, operand)

    def bin(self, opname, lhs, rhs):
        return self.mk(self.ops(opname), None, None, lhs, rhs)


def metacommand(I, name):
    """The Metacommand record registered under `name` (folds the metacommands module on first use)."""
    I.module_env("metacommands")
    table = I.module_get("metacommand_impl", "metacommands")
    if name not in table:
        from ..engine.loader import Unknown
        raise Unknown(f"directive {name} is not registered")
    return table[name]


def metacommand_fn(I, name):
    return metacommand(I, name).fields["fn"]


def closure_pattern(parser_rec):
    """the compiled regular expression a Parser.regex(...) object closes over, whatever its local name"""
    import re as _re
    fn = parser_rec.fields.get("fn") if isinstance(parser_rec, Rec) else None
    env = getattr(fn, "env", None)
    while env is not None:
        for v in env.vars.values():
            if isinstance(v, _re.Pattern):
                return v
        env = env.parent
    return None
