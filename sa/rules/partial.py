"""P-rules: Python operations that are partial on values a program text can produce."""
import ast

from ..engine import flow, sym
from ..engine.loader import Unknown, norm_text, walk_local, FUNC_TYPES
from ..engine.sym import is_sym
from . import guards

SKIP_MODULES = ("devices", "_cli", "cli", "__main__", "__init__", "version", "architecture")


def phase_functions(repo):
    for q, fn in repo.all_functions():
        if q.split("::")[0] in SKIP_MODULES:
            continue
        yield q, fn


# ------------------------------------------------------------------ P1 division
def _const_nonzero(node):
    # a closed arithmetic expression over integer literals (1 << 16, 2 ** 16 - 1, ...)
    if all(isinstance(n, (ast.BinOp, ast.UnaryOp, ast.operator, ast.unaryop, ast.expr_context)) or (isinstance(n, ast.Constant) and isinstance(n.value, int)) for n in ast.walk(node)):
        try:
            v = eval(compile(ast.Expression(body=ast.parse(ast.unparse(node), mode="eval").body), "<const>", "eval"), {"__builtins__": {}}, {})
            return v != 0
        except Exception:
            return False
    try:
        v = ast.literal_eval(node)
        return isinstance(v, (int, float)) and v != 0
    except Exception:
        pass
    # 2 ** e, (2 ** 16 - 1)-like constant expressions
    if isinstance(node, ast.BinOp) and isinstance(node.op, ast.Pow):
        try:
            return ast.literal_eval(node.left) not in (0,)
        except Exception:
            return False
    if isinstance(node, ast.BinOp) and isinstance(node.op, (ast.Sub, ast.Add, ast.Mult)):
        try:
            import operator
            l, r = _fold(node.left), _fold(node.right)
            return l is not None and r is not None and {ast.Sub: operator.sub, ast.Add: operator.add, ast.Mult: operator.mul}[type(node.op)](l, r) != 0
        except Exception:
            return False
    return False


def _fold(node):
    try:
        return ast.literal_eval(node)
    except Exception:
        if isinstance(node, ast.BinOp) and isinstance(node.op, ast.Pow):
            l, r = _fold(node.left), _fold(node.right)
            if l is not None and r is not None:
                return l ** r
        return None


def rule_P1(ck):
    """a // b, a % b, a / b with a divisor that can be zero: handler that reports, or a dominating non-zero test"""
    repo = ck.repo
    n = 0
    for q, fn in phase_functions(repo):
        for node in walk_local(fn):
            if not (isinstance(node, ast.BinOp) and isinstance(node.op, (ast.FloorDiv, ast.Mod, ast.Div))):
                continue
            if isinstance(node.op, ast.Mod) and isinstance(node.left, (ast.Constant, ast.JoinedStr)) and isinstance(getattr(node.left, "value", None), str):
                continue   # string formatting
            if _const_nonzero(node.right):
                continue
            if isinstance(node.right, ast.Name):
                # a local name for such an expression (modulus = 2 ** bitness), bound exactly once
                binds = [a_ for a_ in ast.walk(fn) if isinstance(a_, (ast.Assign, ast.AugAssign, ast.AnnAssign, ast.For, ast.comprehension, ast.NamedExpr, ast.arg))
                         and ((isinstance(a_, ast.arg) and a_.arg == node.right.id) or any(isinstance(m_, ast.Name) and m_.id == node.right.id and isinstance(m_.ctx, ast.Store) for m_ in ast.walk(a_) if not isinstance(a_, ast.arg)))]
                if len(binds) == 1 and isinstance(binds[0], ast.Assign) and len(binds[0].targets) == 1 and isinstance(binds[0].targets[0], ast.Name) and _const_nonzero(binds[0].value):
                    continue
            n += 1
            div = norm_text(node.right)
            ck.instance(("div", q, norm_text(node)), {"site": q, "expression": norm_text(node)[:80]}, fn=q)
            ok, missing = guards.covered(node, ["ZeroDivisionError"])
            if ok:
                continue
            # dominating test: `if div == 0: ... return/raise` or `if div != 0`/`if div:` around it

            def test_facts(t, div=div):
                txt = norm_text(t)
                if txt in (f"{div} == 0", f"0 == {div}", f"not {div}"):
                    return set(), {"nonzero"}
                if txt in (f"{div} != 0", f"0 != {div}", div, f"{div} > 0"):
                    return {"nonzero"}, set()
                if txt in (f"{div} <= 0", f"{div} < 1"):
                    return set(), {"nonzero"}
                return set(), set()
            facts = flow.facts_before(fn, node, lambda x: set(), None, test_facts)
            if facts is not None and "nonzero" in facts:
                continue
            if isinstance(node.right, ast.Constant) and node.right.value == 0:
                pass
            # len(x) style divisors of internal tables are not program values
            if isinstance(node.right, ast.Call) and norm_text(node.right.func) == "len":
                continue
            ck.violation(node, f"'{norm_text(node)[:70]}': the divisor {div} comes from the program and may be zero; no handler reports ZeroDivisionError and no zero test dominates the division "
                               "(the assembler dies with an internal error)", construct=f"division by {div}")
    if n < 3:
        ck.unknown(f"only {n} divisions with a non-constant divisor found (5 confirmed by hand)")


def _range_checked(repo, fn, call, arg):
    """chr(arg) is dominated by a test that confines arg to 0 .. 0x10FFFF (instead of a handler)"""
    def value_of(node):
        try:
            return int(ast.literal_eval(node))
        except Exception:
            pass
        if isinstance(node, ast.Name):
            try:
                return value_of(repo.module_assign(fn._module.name if hasattr(fn, "_module") else "types", node.id))
            except Exception:
                return None
        if isinstance(node, ast.BinOp) and isinstance(node.op, (ast.Sub, ast.Add)):
            a, b = value_of(node.left), value_of(node.right)
            if a is not None and b is not None:
                return a - b if isinstance(node.op, ast.Sub) else a + b
        return None

    def test_facts(t):
        pos = set()
        if isinstance(t, ast.Compare):
            items = [t.left] + list(t.comparators)
            lo = hi = False
            for (a, op_, b) in zip(items, t.ops, items[1:]):
                if norm_text(b) == arg and isinstance(op_, (ast.LtE, ast.Lt)) and value_of(a) is not None and value_of(a) + (1 if isinstance(op_, ast.Lt) else 0) >= 0:
                    lo = True
                if norm_text(a) == arg and isinstance(op_, (ast.LtE, ast.Lt)) and value_of(b) is not None and value_of(b) - (1 if isinstance(op_, ast.Lt) else 0) <= 0x10FFFF:
                    hi = True
                if norm_text(a) == arg and isinstance(op_, (ast.GtE, ast.Gt)) and value_of(b) is not None and value_of(b) + (1 if isinstance(op_, ast.Gt) else 0) >= 0:
                    lo = True
                if norm_text(b) == arg and isinstance(op_, (ast.GtE, ast.Gt)) and value_of(a) is not None and value_of(a) - (1 if isinstance(op_, ast.Gt) else 0) <= 0x10FFFF:
                    hi = True
            if lo:
                pos.add("lo")
            if hi:
                pos.add("hi")
        elif isinstance(t, ast.BoolOp) and isinstance(t.op, ast.And):
            for v in t.values:
                pos |= test_facts(v)[0]
        return pos, set()
    facts = flow.facts_before(fn, call, lambda x: set(), None, test_facts)
    return facts not in (None, flow.TOP) and {"lo", "hi"} <= set(facts)


# ------------------------------------------------------------------ P10 / P11
def rule_P10(ck):
    """open()/open_device() with a path from program text: handlers must cover OSError and ValueError and report"""
    repo = ck.repo
    n = 0
    for q, fn in phase_functions(repo):
        if q.startswith(("bk_", "formats", "reports")):
            continue
        for c in guards.calls_in(fn):
            if isinstance(c.func, ast.Name) and c.func.id in ("open", "open_device"):
                n += 1
                ck.instance(("open", q, norm_text(c)), {"site": q, "call": norm_text(c)}, fn=q)
                ok, missing = guards.covered(c, ["OSError", "ValueError"])
                if not ok:
                    ck.violation(c, f"{norm_text(c)}: the path comes from the program text; {', '.join(missing)} is not caught and reported here "
                                    "(ValueError: a path with an embedded NUL or a lone surrogate cannot name a file) - the assembler dies with an internal error", construct=f"{norm_text(c.func)}() unguarded {'+'.join(missing)}")
    if n < 3:
        ck.unknown(f"only {n} open() sites found (3 confirmed by hand)")


def _loops_over_constant_range(fn, name):
    """every binding of `name` in fn is the target of a for / comprehension over range(<integer constants>)"""
    bind = []
    for n_ in ast.walk(fn):
        if isinstance(n_, (ast.For, ast.comprehension)) and any(isinstance(t, ast.Name) and t.id == name for t in ast.walk(n_.target)):
            it = n_.iter
            ok = isinstance(it, ast.Call) and isinstance(it.func, ast.Name) and it.func.id == "range" and it.args and all(isinstance(a, ast.Constant) and isinstance(a.value, int) for a in it.args)
            bind.append(ok and isinstance(n_.target, ast.Name))
        elif isinstance(n_, (ast.Assign, ast.AugAssign, ast.AnnAssign, ast.NamedExpr)):
            tg = n_.targets if isinstance(n_, ast.Assign) else [n_.target]
            if any(isinstance(t, ast.Name) and t.id == name for t_ in tg for t in ast.walk(t_)):
                bind.append(False)
        elif isinstance(n_, ast.arg) and n_.arg == name:
            bind.append(False)
    return bool(bind) and all(bind)


def rule_P11(ck):
    """chr(n) with n from an operand: ValueError and OverflowError"""
    repo = ck.repo
    n = 0
    for q, fn in phase_functions(repo):
        for c in guards.calls_in(fn):
            if isinstance(c.func, ast.Name) and c.func.id == "chr" and c.args and not isinstance(c.args[0], ast.Constant):
                arg = norm_text(c.args[0])
                # chr(int(two hex digits, 16)) is bounded by construction
                if isinstance(c.args[0], ast.Call) and norm_text(c.args[0].func) == "int" and len(c.args[0].args) == 2:
                    continue
                # chr(i) where i runs over range(<constant>) (building a table at import time) is bounded by construction
                if isinstance(c.args[0], ast.Name) and _loops_over_constant_range(fn, c.args[0].id):
                    continue
                n += 1
                ck.instance(("chr", q), {"site": q, "call": norm_text(c)}, fn=q)
                ok, missing = guards.covered(c, ["ValueError", "OverflowError"])
                if not ok and _range_checked(repo, fn, c, arg):
                    continue
                if not ok:
                    ck.violation(c, f"chr({arg}): {arg} is an unbounded operand value; {', '.join(missing)} is not caught here (a huge code point overflows a C int)", construct=f"chr unguarded {'+'.join(missing)}")
    if n < 1:
        ck.unknown("no chr() of an operand value found (1 confirmed by hand)")


# ------------------------------------------------------------------ P5 int(text, base) in number()
_VALUATION_DONE = {}


def _number_valuation(ck):
    """the `number` parser on texts made of decimal digits of every script (values 1, 8, 9), alone, after an ASCII digit and with a
    trailing dot: whatever it answers, it must not die in int() (ValueError -> internal compiler error)"""
    key = id(ck.repo)
    if key in _VALUATION_DONE:
        return _VALUATION_DONE[key]
    import unicodedata
    from .world import eager_interp
    from ..props.c05 import run_parser
    I = eager_interp(ck.repo)
    chars = [chr(c) for c in range(0x80, 0x1FFFF) if unicodedata.category(chr(c)) == "Nd" and unicodedata.digit(chr(c), None) in (1, 8, 9)]
    # one digit of each value per script block is enough (the blocks are contiguous runs of ten)
    texts = []
    for ch in chars[::1][:240]:
        texts += [ch, "1" + ch, ch + ".", "0x" + ch, "1" + ch + "$"]
    bad = None
    n = 0
    try:
        for t in texts:
            r, pos, errs, raised = run_parser(I, "number", t + " ")
            n += 1
            if raised in ("ValueError", "TypeError", "IndexError", "KeyError", "AttributeError", "AssertionError"):
                bad = (t, raised)
                break
    except Unknown:
        _VALUATION_DONE[key] = False
        return False
    ck.instance(("int", "valuation"), {"number() on decimal digits of other scripts": n, "first internal exception": bad}, fn="parser::number")
    if bad:
        ck.violation("parser::number", f"the number {bad[0]!r} (a decimal digit of another script) makes number() die with {bad[1]}: the text passes the digit test but int() refuses it - "
                                       "'unexpected internal compiler error' instead of a diagnostic or 'not a number'", construct="number(): digits of other scripts")
    _VALUATION_DONE[key] = True
    return True


def rule_P5(ck):
    repo = ck.repo
    fn = repo.func("parser::number")
    n = 0
    for c in guards.calls_in(fn):
        if not (isinstance(c.func, ast.Name) and c.func.id == "int" and len(c.args) == 2):
            continue
        arg = norm_text(c.args[0])
        base = _fold(c.args[1])
        n += 1
        ok, _ = guards.covered(c, ["ValueError"], require_report=False)
        if ok:
            ck.instance(("int", arg, base, "handler"), {"call": norm_text(c), "evidence": "ValueError handler"}, fn="parser::number")
            continue

        def test_facts(t):
            txt = norm_text(t)
            pos, neg = set(), set()
            if txt.endswith(".isdigit()"):
                pos.add("unicode-digits:" + txt[:-10])
            if txt.startswith("re.fullmatch(") and isinstance(t, ast.Call) and len(t.args) == 2 and isinstance(t.args[0], ast.Constant) and t.args[0].value in ("[0-9]+", r"[0-9]+\Z"):
                pos.add("ascii-digits:" + norm_text(t.args[1]))
            if isinstance(t, ast.BoolOp) and isinstance(t.op, ast.Or) and all(isinstance(v, ast.Compare) and isinstance(v.ops[0], ast.In) and isinstance(v.left, ast.Constant) for v in t.values):
                who = {norm_text(v.comparators[0]) for v in t.values}
                chars = {v.left.value for v in t.values}
                if len(who) == 1 and chars == {"8", "9"}:
                    neg.add("no-ascii-89:" + who.pop())
            return pos, neg
        facts = flow.facts_before(fn, c, lambda x: set(), None, test_facts) or frozenset()
        evidence = sorted(f for f in facts if f.endswith(":" + arg))
        ck.instance(("int", arg, base, tuple(evidence)), {"call": norm_text(c), "base": base, "dominating guards": evidence}, fn="parser::number")
        if base is None:
            # int(num, base) with the regex of the same table row: C05.R4 compares the digit class with the base
            continue
        ascii_ok = any(f.startswith("ascii-digits:") for f in evidence)
        uni = any(f.startswith("unicode-digits:") for f in evidence)
        if base >= 10 and (uni or ascii_ok):
            continue
        if base == 8 and ascii_ok and any(f.startswith("no-ascii-89:") for f in evidence):
            continue
        if base == 8 and uni:
            ck.violation(c, f"int({arg}, 8) is guarded by str.isdigit(), which is true for every Unicode decimal digit, and by a test for the ASCII characters '8'/'9' only: "
                            "a digit of another script with value 8 or 9 (e.g. U+0668) raises ValueError (internal compiler error), others are silently read as numbers",
                         construct=f"int({arg}, 8) under isdigit()")
            continue
        # not a guard idiom this rule reads: decide by running the real parser on decimal digits of every script
        if not _number_valuation(ck):
            ck.unknown(f"parser::number: int({arg}, {base}) has no recognised guard ({evidence}) and the valuation could not be run")
    if n < 4:
        ck.unknown(f"only {n} int(text, base) conversions found in number() (6 confirmed by hand)")


# ------------------------------------------------------------------ P12 unbounded multipliers
def rule_P12(ck):
    """bytes * n, range(n), 2 ** n with n an operand of unbounded type"""
    repo = ck.repo
    from .world import eager_interp, metacommand
    I = eager_interp(repo)
    table = I.explore(lambda: (I.module_env("metacommands"), I.module_get("metacommand_impl", "metacommands"))[1])[0].value
    seen = set()
    for name, cmd in sorted(table.items()):
        fn = cmd.fields["fn"]
        if id(fn) in seen:
            continue
        seen.add(id(fn))
        unbounded = {oi["name"] for oi in cmd.fields["operand_info"] if getattr(oi["hint"], "name", None) == "uint"}
        for node in ast.walk(fn.node):
            hit = None
            if isinstance(node, ast.BinOp) and isinstance(node.op, ast.Mult):
                for side in (node.left, node.right):
                    names = {m.id for m in ast.walk(side) if isinstance(m, ast.Name)}
                    if names & unbounded:
                        hit = norm_text(node)
            if isinstance(node, ast.Call) and norm_text(node.func) == "range" and {m.id for a in node.args for m in ast.walk(a) if isinstance(m, ast.Name)} & unbounded:
                hit = norm_text(node)
            if hit:
                q = f"metacommands::{fn.name}"
                ck.instance(("mult", q, hit), {"directive": name, "expression": hit[:80], "operand type": "uint (no upper bound)"}, fn=q)
                # a dominating upper-bound test discharges it
                bounded = False
                for t in ast.walk(fn.node):
                    if isinstance(t, ast.If) and isinstance(t.test, ast.Compare) and any(isinstance(o, (ast.Gt, ast.GtE)) for o in t.test.ops) \
                            and {m.id for m in ast.walk(t.test.left) if isinstance(m, ast.Name)} & unbounded and guards.body_reports(t.body):
                        bounded = True
                if not bounded:
                    ck.violation(node, f"'{name}': {hit[:70]} with an operand that has no upper bound: a huge value exhausts memory/time or overflows instead of being reported", construct=f"unbounded multiplier in {fn.name}")
    # shifts: 2 ** b
    for q in ("operators::lshift", "operators::rshift"):
        if not repo.has_func(q):
            continue
        fn = repo.func(q)
        for node in ast.walk(fn):
            if isinstance(node, ast.BinOp) and isinstance(node.op, ast.Pow) and not isinstance(node.right, ast.Constant):
                ck.instance(("pow", q), {"site": q, "expression": norm_text(node)}, fn=q)
                ck.violation(node, f"{norm_text(node)}: the exponent is an unbounded program value", construct=f"unbounded exponent in {q.split('::')[1]}")


# ------------------------------------------------------------------ P6 struct.pack slot ranges
SLOT = {"B": (0, 255), "H": (0, 65535), "I": (0, 2 ** 32 - 1), "b": (-128, 127), "h": (-32768, 32767)}


def bound(x, cells=None, table_len=40):
    """interval of an integer normal form, or None if not bounded"""
    cells = cells or {}
    if not is_sym(x):
        if isinstance(x, (int, bool)):
            return (int(x), int(x))
        return None
    if x in cells:
        c = cells[x]
        if c.lo is not None and c.hi is not None:
            return (c.lo, c.hi)
        return None
    if x[0] == "lin":
        lo = hi = x[2]
        for t, c in x[1]:
            b = bound(t, cells, table_len)
            if b is None:
                return None
            lo += min(c * b[0], c * b[1])
            hi += max(c * b[0], c * b[1])
        return (lo, hi)
    if x[0] == "op":
        n, a = x[1], x[2:]
        if n == "get_as_int":
            bits, unsigned = a[1], a[2]
            if bits is None:
                return None
            return (0, 2 ** bits - 1)
        if n == "mod" and not is_sym(a[1]) and a[1] > 0:
            return (0, a[1] - 1)
        if n == "and":
            for z in a:
                if not is_sym(z) and z >= 0:
                    return (0, z)
            return None
        if n == "shr" and not is_sym(a[1]):
            b = bound(a[0], cells, table_len)
            if b is None:
                return None
            return (b[0] >> a[1], b[1] >> a[1])
        if n == "index" and isinstance(a[0], (str, tuple)):
            return (0, len(a[0]) - 1)
        if n == "bit":
            return (0, 1)
        if n == "int" and len(a) == 2 and a[1] == 2 and is_sym(a[0]):
            # base-2 reading of a string of k single-bit characters
            parts = a[0][2:] if a[0][:2] == ("op", "cat") else (a[0],)
            k = 0
            for p in parts:
                if is_sym(p):
                    if p[:2] == ("op", "str") and is_sym(p[2]) and p[2][:2] == ("op", "bit"):
                        k += 1
                    else:
                        return None
                else:
                    k += len(p)
            return (0, 2 ** k - 1)
        if n == "mul":
            lo, hi = 1, 1
            for z in a:
                b = bound(z, cells, table_len)
                if b is None or b[0] < 0:
                    return None
                lo, hi = lo * b[0], hi * b[1]
            return (lo, hi)
        if n == "apply" and a[0] == "checksum":
            return None
    return None


def collect_packs(x, out):
    if is_sym(x):
        if x[:2] == ("op", "pack"):
            out.append(x)
        for a in (x[2:] if x[0] == "op" else [t for t, _ in x[1]] if x[0] == "lin" else []):
            collect_packs(a, out)
    elif isinstance(x, (tuple, list)):
        for a in x:
            collect_packs(a, out)
