"""Abstract execution of _cli.main_cli over the finite space of CLI configurations (output selectors x --lst x
--implicit-bin x outcome of compilation). The compiler, the parser, argparse and the file system are replaced by
models; what is observed is the list of files written (path, content normal form), what goes to stdout, and the exit
status."""
from ..engine import sym
from ..engine.interp import Interp, Rec, ClassVal, PyFn, Raised, ExcVal, Ext, Unsupported
from ..engine.loader import Unknown
from .world import eager_interp

BASE = sym.var("base", "int")
CODE = sym.var("code", "bytes")
LISTING = sym.var("listing_text", "str")


class Exit(Exception):
    pass


def run_cli(repo, outfile=None, lst=False, implicit_bin=False, emitted=None, compile_error=None, infiles=("/src/prog.mac",), report_format="graphical",
            warnings=None, write_error=False, emit_error=False):
    """-> dict(events=[...], exit=int|None, paths=n). emitted: None or (format, path) of the first file written by directives."""
    I = eager_interp(repo)
    I.summaries = {}
    events = []

    def args_rec():
        r = Rec(ClassVal("Namespace"))
        r.fields.update(infiles=list(infiles), outfile=outfile, implicit_bin=implicit_bin, lst=lst, charset="bk", report_format=report_format, warnings=warnings)
        return r

    parser_stub = Rec(ClassVal("ArgumentParserStub"))
    parser_stub.cls.attrs["add_argument"] = PyFn(lambda I_, a, k: None, "add_argument")
    parser_stub.cls.attrs["parse_args"] = PyFn(lambda I_, a, k: args_rec(), "parse_args")

    def sys_exit(I_, a, k):
        events.append(("exit", a[0] if a else 0))
        raise Raised(ExcVal("SystemExit", args=tuple(a)))

    def open_model(I_, a, k):
        path = a[0]
        mode = a[1] if len(a) > 1 else k.get("mode", "r")
        f = Rec(ClassVal("FileStub"))
        if "w" in mode:
            if write_error:
                raise Raised(ExcVal("OSError", args=("disk full",)))
            events.append(("open-w", path, mode))
            f.cls.attrs["write"] = PyFn(lambda I2, aa, kk: events.append(("write", path, aa[1])) or None, "write")
        else:
            events.append(("open-r", path))
            f.cls.attrs["read"] = PyFn(lambda I2, aa, kk: sym.var("source_text", "str"), "read")
        f.cls.attrs["__enter__"] = PyFn(lambda I2, aa, kk: aa[0], "__enter__")
        f.cls.attrs["__exit__"] = PyFn(lambda I2, aa, kk: None, "__exit__")
        return f

    def compiler_ctor(I_, a, k):
        events.append(("Compiler", tuple(a[1:]), tuple(sorted(k.items()))))
        c = Rec(ClassVal("CompilerStub"))

        def compile_and_link(I2, aa, kk):
            events.append(("compile", len(aa[1]), tuple(repr(x) for x in aa[1])))
            if compile_error == "reported":
                I2.call(I2.module_get("reports", "error"), ["some-error", (sym.var("s", "obj"), sym.var("e", "obj"), "text")], {})
                return BASE, CODE
            if compile_error == "critical":
                I2.call(I2.module_get("reports", "critical"), ["some-error", (sym.var("s", "obj"), sym.var("e", "obj"), "text")], {})
            if compile_error == "internal":
                raise Raised(ExcVal("TypeError", args=("boom",)))
            if compile_error == "warning":
                I2.call(I2.module_get("reports", "warning"), ["implicit-operand", (sym.var("s", "obj"), sym.var("e", "obj"), "text")], {})
            return BASE, CODE

        def emit_files(I2, aa, kk):
            events.append(("emit_files", aa[1] if len(aa) > 1 else kk.get("base"), aa[2] if len(aa) > 2 else kk.get("code")))
            if emit_error:
                I2.call(I2.module_get("reports", "error"), ["io-error", (sym.var("s", "obj"), sym.var("e", "obj"), "text")], {})
            if emitted is None:
                return False, None
            return True, {"format": emitted[0], "path": emitted[1]}
        c.cls.attrs["compile_and_link_files"] = PyFn(compile_and_link, "compile_and_link_files")
        c.cls.attrs["emit_files"] = PyFn(emit_files, "emit_files")
        c.cls.attrs["generate_listing"] = PyFn(lambda I2, aa, kk: events.append(("generate_listing",)) or LISTING, "generate_listing")
        return c

    handler_calls = []

    def hook(I_, f, args, kwargs, node):
        if isinstance(f, Ext):
            d = f.dotted
            if d == "sys.exit":
                return sys_exit(I_, args, kwargs)
            if d == "codecs.lookup":
                return sym.var("codec", "obj")
            if d == "os.path.abspath":
                return args[0]
            if d == "builtins.open":
                return open_model(I_, args, kwargs)
            if d == "sys.stdout.buffer.write":
                events.append(("stdout", args[0]))
                return None
            if d == "sys.stdin.read":
                return sym.var("stdin_text", "str")
            if d == "traceback.print_exc":
                events.append(("traceback",))
                return None
            if d.startswith("platform."):
                return "x"
            if d == "builtins.print":
                events.append(("print", "stderr" if kwargs.get("file") is not None and getattr(kwargs.get("file"), "dotted", "") == "sys.stderr" else "stdout"))
                return None
            if d in ("sys.stderr.write", "sys.stdout.write"):
                events.append(("print", "stderr" if d.startswith("sys.stderr") else "stdout"))
                return None
        return NotImplemented
    I.call_hook = hook
    I.summaries["devices::open_device"] = lambda I_, fn, a, k: open_model(I_, a, k)
    I.summaries["parser::parse"] = lambda I_, fn, a, k: events.append(("parse", a[0])) or sym.var(f"ast:{a[0]}", "obj")
    I.summaries["compiler::Compiler.__init__"] = None
    for hname in ("GraphicalHandler", "BareHandler"):
        I.summaries[f"reports::{hname}.__call__"] = lambda I_, fn, a, k, hname=hname: events.append(("diagnostic", hname, a[2])) or None

    def thunk():
        del events[:]
        env = I.module_env("_cli")
        env.vars["argparser"] = parser_stub
        env.vars["Compiler"] = PyFn(compiler_ctor, "Compiler")
        env.vars["version"] = "x"
        main = I.module_get("_cli", "main_cli")
        try:
            I.call(main, [], {})
            code = None
        except Raised as r:
            if r.exc.name != "SystemExit":
                raise
            code = r.exc.args[0] if r.exc.args else 0
        return code, list(events)
    del I.summaries["compiler::Compiler.__init__"]
    paths = I.explore(thunk)
    return paths


def bin_form():
    return sym.cat(sym.pack("<HH", BASE, sym.length(CODE)), CODE)


def expected(cfg):
    """(exit status, [(kind, path, content)]) required by the statements of C07 / C13 / C19"""
    ce = cfg.get("compile_error")
    if ce in ("reported", "critical", "internal") or cfg.get("emit_error"):
        return 1, []
    out = cfg.get("outfile")
    emitted = cfg.get("emitted")
    src = cfg.get("infiles", ("/src/prog.mac",))[0]
    writes = []
    anchor = emitted
    if out is None and emitted is None and cfg.get("implicit_bin"):
        out = (src[:-4] if src.lower().endswith(".mac") else src) + ".bin"
    if out is not None:
        name = out.split("/")[-1]
        fmt = "bin" if name.lower().endswith(".bin") else "raw"
        content = bin_form() if fmt == "bin" else CODE
        ext = name.split(".")[-1] if "." in name else ""
        if out in ("-", "-." + ext):
            writes.append(("stdout", None, content))
        else:
            if cfg.get("write_error"):
                return 1, []
            writes.append(("file", out, content))
        anchor = (fmt, out)
    if cfg.get("lst") and anchor is not None:
        p = anchor[1]
        if p.endswith("." + anchor[0]):
            p = p.rpartition(".")[0]
        p += ".lst"
        if p == "-.lst":
            p = "listing.lst"
        writes.append(("file", p, LISTING))
    return None, writes


def observed(path):
    code, events = path.value
    writes = []
    for e in events:
        if e[0] == "write":
            writes.append(("file", e[1], e[2]))
        elif e[0] == "stdout":
            writes.append(("stdout", None, e[1]))
    opened = [e[1] for e in events if e[0] == "open-w"]
    return code, writes, opened, events


def matrix():
    for outfile in (None, "out.bin", "dir.v1/prog", "image.raw", "-", "-.bin", "X.BIN"):
        for lst in (False, True):
            if outfile == "X.BIN" and lst:
                continue      # how an upper-case suffix is stripped for the listing name is not specified
            for implicit_bin in (False, True):
                for emitted in (None, ("bin", "a/b.bin"), ("raw", "a/c"), ("bk_wav", "t.wav")):
                    for ce in (None, "warning", "reported", "critical", "internal"):
                        yield dict(outfile=outfile, lst=lst, implicit_bin=implicit_bin, emitted=emitted, compile_error=ce)
    for out in ("prog.v2.bin", "build.d/prog.bin", "a.b.c/x.y.raw", "rel.1/img"):
        yield dict(outfile=out, lst=True)
    yield dict(outfile=None, emitted=("bin", "out.d/prog.v3.bin"), lst=True)
    yield dict(outfile="out.bin", infiles=("/src/a.mac", "/src/b.mac", "/src/c.mac"))
    yield dict(outfile=None, implicit_bin=True, lst=True, infiles=("/src/first.mac", "/other/second.mac"))
    yield dict(outfile="out.bin", write_error=True)
    yield dict(outfile=None, emitted=("bin", "a/b.bin"), emit_error=True, lst=True)
    yield dict(outfile="o.bin", emit_error=True)
    yield dict(outfile=None, implicit_bin=True, infiles=("/src/PROG.MAC",))
    yield dict(outfile=None, implicit_bin=True, infiles=("/src/noext",))


def rule_cli(ck, aspects=("exit", "writes", "noninterference")):
    """aspects: which clauses to judge (exit status / files written and their content / independence of report options)"""
    repo = ck.repo
    where = "_cli::main_cli"
    repo.func(where)
    n = 0
    # the model stubs argparse: every option main_cli reads from the parsed arguments must be one the parser defines
    import ast as _ast
    cli = repo.module("_cli")
    defined = set()
    for c in _ast.walk(cli.tree):
        if isinstance(c, _ast.Call) and isinstance(c.func, _ast.Attribute) and c.func.attr == "add_argument":
            dest = next((k.value.value for k in c.keywords if k.arg == "dest" and isinstance(k.value, _ast.Constant)), None)
            if dest is None:
                names = [a.value for a in c.args if isinstance(a, _ast.Constant) and isinstance(a.value, str)]
                longs = [x for x in names if x.startswith("--")] or names
                dest = longs[0].lstrip("-").replace("-", "_") if longs else None
            if dest:
                defined.add(dest)
    main = repo.func(where)
    argnames = {t.id for a in _ast.walk(main) if isinstance(a, _ast.Assign) and isinstance(a.value, _ast.Call) and isinstance(a.value.func, _ast.Attribute) and a.value.func.attr == "parse_args"
                for t in a.targets if isinstance(t, _ast.Name)}
    reads = {a.attr for a in _ast.walk(main) if isinstance(a, _ast.Attribute) and isinstance(a.ctx, _ast.Load) and isinstance(a.value, _ast.Name) and a.value.id in argnames}
    ck.instance(("cli", "arguments"), {"defined": sorted(defined), "read by main_cli": sorted(reads)}, fn=where)
    if not argnames or len(defined) < 5:
        ck.unknown(f"the argument parser of _cli is not recognised ({sorted(defined)})")
    # both report formats the handlers implement are selectable, and the default is one of them
    for c in _ast.walk(cli.tree):
        if isinstance(c, _ast.Call) and isinstance(c.func, _ast.Attribute) and c.func.attr == "add_argument" and any(isinstance(a, _ast.Constant) and a.value == "--report-format" for a in c.args):
            kw = {k.arg: k.value for k in c.keywords}
            try:
                choices = _ast.literal_eval(kw["choices"]) if "choices" in kw else None
                default = _ast.literal_eval(kw["default"]) if "default" in kw else None
            except ValueError:
                ck.unknown("--report-format: choices / default are not literals")
                break
            compared = {x.value for n_ in _ast.walk(main) if isinstance(n_, _ast.Compare) and "report_format" in _ast.unparse(n_) for x in _ast.walk(n_) if isinstance(x, _ast.Constant) and isinstance(x.value, str)}
            ck.instance(("cli", "report-format"), {"choices": choices, "default": default, "formats main_cli tells apart": sorted(compared)}, fn=where)
            if choices is not None and (not {"graphical", "bare"} <= set(choices) or not compared <= set(choices)):
                ck.violation(where, f"--report-format accepts {choices}; both formats ('graphical', 'bare') and every format main_cli tests for ({sorted(compared)}) have to be selectable: "
                                    "a run that asks for the missing one ends in a usage error (exit 2, nothing assembled) whatever the program", construct="cli report-format choices")
            if choices is not None and default is not None and default not in choices:
                ck.violation(where, f"--report-format defaults to {default!r}, which is not among {choices}", construct="cli report-format default")
            break
    else:
        ck.unknown("no --report-format option found in _cli")
    for r in sorted(reads - defined):
        ck.violation(where, f"main_cli reads args.{r}, but no add_argument defines it: every run dies with AttributeError before anything is assembled", construct=f"cli argument {r} undefined")
    for cfg in matrix():
        try:
            paths = run_cli(repo, **cfg)
        except Unsupported as ex:
            raise Unknown(f"main_cli model, configuration {cfg}: {ex}") from None
        n += 1
        label = ", ".join(f"{k}={v!r}" for k, v in cfg.items() if v not in (None, False))
        if len(paths) != 1 or paths[0].kind != "return":
            ck.violation(where, f"[{label}] main_cli does not end on one path: {[(p.kind, p.value if p.kind == 'raise' else '') for p in paths]}", construct=f"cli paths [{label}]")
            continue
        code, writes, opened, events = observed(paths[0])
        want_code, want_writes = expected(cfg)
        ck.instance(("cli", label), {"configuration": label, "exit": code, "written": [(k, p) for k, p, _ in writes]} if n % 37 == 1 else None, fn=where)
        # every input file is parsed and handed to the compiler, in the order given
        infiles = list(cfg.get("infiles", ("/src/prog.mac",)))
        compiles = [e for e in events if e[0] == "compile"]
        want_asts = tuple(repr(sym.var(f"ast:{f}", "obj")) for f in infiles)
        if len(compiles) != 1 or compiles[0][2] != want_asts:
            ck.violation(where, f"[{label}] the compiler receives {compiles[0][2] if compiles else None} for the input files {infiles}; expected the parse of each file, in order, in one compilation",
                         construct="cli hands every parsed file to the compiler")
            continue
        # what the compiler returned - (link base, image) - is what the directives' outputs are written from, in that order
        for e in events:
            if e[0] == "emit_files" and (e[1] != BASE or e[2] != CODE):
                ck.violation(where, f"[{label}] emit_files receives ({e[1]!r}, {e[2]!r}); the compiler returned (base, image) = ({BASE!r}, {CODE!r}) and emit_files(base, code) writes the files the source asked for from them",
                             construct="cli hands (base, image) to emit_files")
        if "exit" in aspects:
            if bool(code) != bool(want_code):
                ck.violation(where, f"[{label}] exit status is {code!r}, expected {'non-zero' if want_code else 'zero (no sys.exit)'}: a run fails iff an error was reported",
                             construct=f"cli exit status ({'error' if want_code else 'success'} case, compile_error={cfg.get('compile_error')}, emit_error={cfg.get('emit_error', False)}, write_error={cfg.get('write_error', False)})")
                continue
            if want_code and (writes or opened):
                ck.violation(where, f"[{label}] the run fails but {[(k, p) for k, p, _ in writes] or opened} was written/opened for writing", construct="cli writes on a failing run")
                continue
        if "writes" in aspects and not want_code:
            if [(k, p) for k, p, _ in writes] != [(k, p) for k, p, _ in want_writes]:
                ck.violation(where, f"[{label}] outputs written are {[(k, p) for k, p, _ in writes]}, expected {[(k, p) for k, p, _ in want_writes]}", construct="cli output paths",
                             expected=str([(k, p) for k, p, _ in want_writes]), found=str([(k, p) for k, p, _ in writes]))
            elif writes != want_writes:
                bad = next((g, w) for g, w in zip(writes, want_writes) if g != w)
                ck.violation(where, f"[{label}] output {bad[0][1] or 'stdout'} holds {bad[0][2]!r}, expected {bad[1][2]!r}", construct="cli output content", expected=repr(bad[1][2]), found=repr(bad[0][2]))
    if "noninterference" in aspects:
        for base in (dict(outfile="o.bin", lst=True), dict(outfile="-"), dict(outfile=None, emitted=("bin", "a/b.bin"), lst=True), dict(outfile="o.bin", compile_error="reported")):
            ref = None
            for rf in ("graphical", "bare"):
                for w in (None, ["all"], ["no-implicit-operand"], ["no-all", "meta-typo"]):
                    cfg = dict(base, report_format=rf, warnings=w)
                    if "compile_error" not in cfg:
                        cfg["compile_error"] = "warning"
                    paths = run_cli(repo, **cfg)
                    n += 1
                    if len(paths) != 1 or paths[0].kind != "return":
                        ck.violation(where, f"main_cli with --report-format={rf} -W{w} does not end on one path", construct="cli paths (report options)")
                        continue
                    code, writes, opened, events = observed(paths[0])
                    sig = (code, writes)
                    ck.instance(("cli-opt", str(base), rf, str(w)), None, fn=where)
                    if ref is None:
                        ref = sig
                    elif sig != ref:
                        ck.violation(where, f"with --report-format={rf} and -W {w} the run ends with exit {code!r} and outputs {[(k, p) for k, p, _ in writes]}; with the default options exit {ref[0]!r} and {[(k, p) for k, p, _ in ref[1]]}: "
                                            "report options must not change the outputs or the exit status", construct="cli report options change the outcome")
    if n < 500:
        ck.unknown(f"only {n} CLI configurations evaluated")
