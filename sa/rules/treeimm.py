"""G4 - the parse tree is read-only during compilation (mutation census, E7)."""
import ast

from ..engine.loader import public_qual, norm_text, walk_local, FUNC_TYPES

PHASE_MODULES = ("compiler", "insns", "metacommands", "metacommand_impl", "operators", "types", "formats", "builtins")

# one named symbol each, with the reason
EXCEPTIONS = {
    ("compiler::Compiler.compile_block", "label_error_emitted"): "diagnostic de-duplication flag inside '.repeat' (the error it guards is raised on every assembly by the first iteration)",
    ("compiler::Compiler.compile_block", "assignment_error_emitted"): "diagnostic de-duplication flag inside '.repeat'",
    ("types::Number.resolve", "reported_invalid_base8"): "diagnostic de-duplication flag of the 8/9 error (pinned behaviour; re-assembling one parsed tree twice is outside the CLI)",
    ("types::AngleBracketedChar.resolve", "reported_error"): "diagnostic de-duplication flag (pinned behaviour)",
    ("types::CharLiteral.resolve", "evaluated_value"): "CharLiteral cache: depends on the per-run output charset only, not on position or symbols",
}
IDEMPOTENT_FUNCS = {
    "insns::OffsetOperandStub.encode.fixup_label": "replaces a Number leaf by a Symbol that resolves identically; re-application is a no-op",
}


def token_classes(repo):
    out = set()
    for q, node in repo.all_classes():
        if repo.is_subclass(q, "types::Token"):
            out.add(q)
    return out


def token_fields(repo):
    """attributes assigned in __init__ of Token subclasses -> structural (initialised from a constructor parameter) or not"""
    fields = {}
    for q in token_classes(repo):
        init = repo.find_method(q, "__init__")
        if not init or not init.startswith(q.split("::")[0] + "::" + q.split("::")[1] + "."):
            continue
        fn = repo.func(init)
        params = {a.arg for a in fn.args.args}
        for n in walk_local(fn):
            if isinstance(n, (ast.Assign, ast.AnnAssign)):
                targets = n.targets if isinstance(n, ast.Assign) else [n.target]
                for t in targets:
                    if isinstance(t, ast.Attribute) and norm_text(t.value) == "self" and n.value is not None:
                        from_param = bool({m.id for m in ast.walk(n.value) if isinstance(m, ast.Name)} & params)
                        fields[t.attr] = fields.get(t.attr, False) or from_param
    return fields


def census(repo):
    """-> list of (qual, store node, receiver text, attr, receiver kind)"""
    toks = token_classes(repo)
    out = []
    for q, fn in repo.all_functions():
        modname = q.split("::")[0]
        if modname not in PHASE_MODULES:
            continue
        if q.endswith(".__init__") or ".__init__." in q:
            continue
        # enclosing class
        cls = None
        p = fn
        while p is not None:
            if isinstance(p, ast.ClassDef):
                cls = repo.qual(p)
                break
            p = getattr(p, "_parent", None)
        for n in walk_local(fn):
            targets = []
            if isinstance(n, ast.Assign):
                targets = n.targets
            elif isinstance(n, (ast.AugAssign, ast.AnnAssign)):
                targets = [n.target]
            for t in targets:
                for tt in ([t] if not isinstance(t, (ast.Tuple, ast.List)) else t.elts):
                    if isinstance(tt, ast.Attribute):
                        recv = norm_text(tt.value)
                        if recv in ("self", "cls"):
                            if cls is None or cls not in toks:
                                continue
                            kind = "self (token method)"
                        elif isinstance(tt.value, ast.Name):
                            if tt.value.id in ("Class", "Deferred", "Awaiting", "handle_reports"):
                                continue
                            kind = "name"
                        else:
                            kind = "expr"
                        out.append((q, n, recv, tt.attr, kind))
    return out


def rule_G4(ck, modules=None, floor=5):
    """modules: restrict the census to stores made by functions of these modules (C10 uses the operand encoders only)"""
    repo = ck.repo
    fields = token_fields(repo)
    toks = token_classes(repo)
    if len(toks) < 15 or len(fields) < 15:
        ck.unknown(f"token class hierarchy not recognised ({len(toks)} classes, {len(fields)} fields)")
    stores = [x for x in census(repo) if modules is None or x[0].split('::')[0] in modules]
    for q, n, recv, attr, kind in stores:
        why = EXCEPTIONS.get((q, attr)) or next((EXCEPTIONS[(o, attr)] for o in ck._owners(public_qual(q)) if (o, attr) in EXCEPTIONS), None)
        idem = IDEMPOTENT_FUNCS.get(q)
        verdict = "exception: " + why if why else ("exception: " + idem if idem else ("tree field" if attr in fields else "not a tree field"))
        ck.instance(("store", q, recv, attr), {"function": q, "store": norm_text(n)[:90], "verdict": verdict}, fn=q)
        if why or idem:
            continue
        is_token = kind.startswith("self")
        if not is_token and attr not in fields and kind == "name":
            # field ownership: the same name is read through a token-only field in this function
            fnode = repo.func(q)
            token_only = {"ctx_start", "ctx_end", "lhs", "rhs", "operand", "expr", "operands", "words", "insns", "target", "chunks", "representation", "is_extern"}
            is_token = any(isinstance(m, ast.Attribute) and norm_text(m.value) == recv and m.attr in token_only and isinstance(m.ctx, ast.Load) for m in ast.walk(fnode))
        if attr not in fields and is_token:
            ck.violation(n, f"compile-phase code stores a new attribute '{attr}' on a parse-tree node: a value computed while compiling one occurrence is kept on the shared node and seen by every other "
                            "compilation of it ('.repeat', repeated '.include'), and by later assemblies of the same tree", construct=f"{recv}.{attr} = …")
            continue
        if attr in fields:
            structural = fields[attr]
            ck.violation(n, f"compile-phase code writes field '{attr}' of a parse-tree node ({'a structural field set by the parser' if structural else 'a node field'}): the tree is shared by every compilation of that node "
                            "('.repeat' bodies, repeated '.include'), so later copies see the modified tree / a value cached for another position",
                         construct=f"{recv}.{attr} = …")
    if len(stores) < floor:
        ck.unknown(f"only {len(stores)} attribute stores found in compile-phase code (16 confirmed by hand in all modules)")


# ---------------------------------------------------------------------------------------------------------------
# G4.re - behavioural side of G4: an expression node resolved again at another location counter gives that counter's value
def rule_reresolve(ck):
    """'.repeat' bodies (and any tree compiled twice) resolve the SAME operator node once per copy. For every arithmetic
    operator of the registry the node `. op 3` / `op .` is resolved (abstractly) at '.' = A and then at '.' = B; the second
    result must be what a fresh node gives at B. Operators that fail are reported as ONE finding whose key lists them, so
    that a change which makes more operators stale is a different finding."""
    from ..engine.interp import Rec, ClassVal, Raised
    from .world import eager_interp, Shapes
    repo = ck.repo
    I = eager_interp(repo)
    A, B = 0o1000, 0o2000

    def table():
        ops = I.module_get("operators", "operators")
        return ops
    ps = I.explore(table)
    if len(ps) != 1 or ps[0].kind != "return" or not isinstance(ps[0].value, dict):
        ck.unknown("operators.operators does not fold to a dict of registries")
        return
    stale, n = [], 0
    for kind, reg in ps[0].value.items():
        cont = reg.fields["container"] if isinstance(reg, Rec) else reg
        for key, ent in sorted(cont.items(), key=lambda kv: str(kv[0])):
            char, cls = ent if isinstance(ent, tuple) else (key, ent)
            if not isinstance(cls, ClassVal):
                continue
            rt = cls.attrs.get("return_type")
            if getattr(rt, "name", None) != "int":
                continue        # '#x', '@x', 'x(x)': operand-shape markers, not arithmetic
            infix = any(b.name == "InfixOperator" for b in cls.mro())

            def build(sh):
                dot = sh.mk(I.module_get("types", "InstructionPointer"), None, None)
                one = sh.number("3", 3)
                return sh.mk(cls, None, None, dot, one) if infix else sh.mk(cls, None, None, dot)

            def thunk():
                sh = Shapes(I)
                node = build(sh)
                r1 = I.call_method(node, "resolve", [{"emit_address": A}])
                r2 = I.call_method(node, "resolve", [{"emit_address": B}])
                fresh = I.call_method(build(sh), "resolve", [{"emit_address": B}])
                return r1, r2, fresh
            try:
                res = I.explore(thunk)
            except Raised:
                res = []
            postfix = any(b.name == "PostfixOperator" for b in cls.mro())
            name = f"x {char} x" if infix else (f"x{char}" if postfix else f"{char}x")
            if len(res) != 1 or res[0].kind != "return":
                ck.unknown(f"operator {name!r}: resolving '. {char} 3' twice does not complete on one path ({res})")
                continue
            r1, r2, fresh = res[0].value
            n += 1
            ck.instance(("re-resolve", name), {"operator": name, "at A": repr(r1), "again at B": repr(r2), "fresh node at B": repr(fresh)}, fn="operators::wrap_impure")
            if r2 != fresh:
                stale.append(name)
    # literal tokens: resolved a second time (the next copy of a '.repeat' body, the size pass and the value pass) they denote the same value
    comp = lambda: I.instantiate(I.module_get("compiler", "Compiler"), ["ascii"], {})
    T = lambda nm: I.module_get("types", nm)
    literals = [("'a", lambda sh: sh.mk(T("CharLiteral"), None, None, "'a", "a"), 0x61), ('"ab', lambda sh: sh.mk(T("CharLiteral"), None, None, '"ab', "ab"), 0x6261),
                ("12", lambda sh: sh.number("12", 10), 10)]
    for text, mk_, want in literals:
        def thunk_l(mk_=mk_):
            sh = Shapes(I)
            node = mk_(sh)
            st = {"emit_address": A, "compiler": comp()}
            return [I.call_method(node, "resolve", [st]) for _ in range(3)]
        try:
            res = I.explore(thunk_l)
        except Raised:
            res = []
        ck.instance(("re-resolve literal", text), {"literal": text, "three evaluations": repr(res[0].value) if res and res[0].kind == "return" else repr(res)}, fn="types::CharLiteral.resolve")
        if len(res) != 1 or res[0].kind != "return":
            ck.incomplete("types::CharLiteral.resolve", f"resolving the literal {text} three times", res)
        elif res[0].value != [want] * 3:
            ck.violation("types::CharLiteral.resolve", f"the literal {text} evaluated three times gives {res[0].value!r}, expected {want} each time: a parse-tree node is evaluated once per pass and per copy of a repeated body",
                         construct="literal value on re-resolve")
    if n < 15:
        ck.unknown(f"only {n} arithmetic operators were exercised (20 confirmed by hand)")
    if stale:
        ck.violation("operators::wrap_impure", f"the operators {stale} keep the value of their first evaluation on the parse-tree node: resolved again at another location counter "
                                               "('.repeat 2 { .word . / 3 }' stores the first copy's address twice; so does one tree compiled at two bases)",
                     construct="stale value on re-resolve: " + " ".join(stale))


# ---------------------------------------------------------------------------------------------------------------
# G4.def - deferred values are immutable, apart from memoising their own final value
DEFERRED_WRITES = {
    ("deferred::Deferred._wait", "value"): "memoises the thunk's result once it has returned (C03.R2 checks the order)",
    ("deferred::Deferred._wait", "settled"): "memoises the thunk's result once it has returned (C03.R2 checks the order)",
    ("deferred::Promise.settle", "value"): "single assignment of a promise (guarded by the 'settled' assertion, G2.D3)",
    ("deferred::Promise.settle", "settled"): "single assignment of a promise",
    ("deferred::LinearPolynomial._wait", "coeffs"): "replaces known variables by their values: the polynomial denotes the same number (C03.R7 wait cases)",
    ("deferred::LinearPolynomial._wait", "constant_term"): "replaces known variables by their values: the polynomial denotes the same number (C03.R7 wait cases)",
}
SELF_MUTATORS = ("append", "extend", "insert", "pop", "remove", "clear", "update", "setdefault", "popitem", "sort", "reverse", "add", "discard")


def rule_deferred_immutable(ck):
    """A Concatenator / LinearPolynomial / Deferred is shared: the accumulated image, the location counter built from its
    length, thunks and symbol tables all hold references to the same object. A method that updates it in place, or caches
    something computed from its current content, changes what the other holders see."""
    repo = ck.repo
    base = "deferred::BaseDeferred"
    classes = [q for q in repo.subclasses(base)]
    if len(classes) < 5:
        ck.unknown(f"only {len(classes)} subclasses of BaseDeferred found (6 confirmed by hand)")
    n = 0
    for cq in classes:
        cls = repo.cls(cq)
        for m in cls.body:
            if not isinstance(m, ast.FunctionDef) or m.name == "__init__":
                continue
            q = f"{cq}.{m.name}"
            n += 1
            ck.instance(("deferred-method", q), None, fn=q)
            for node in ast.walk(m):
                attr = None
                if isinstance(node, (ast.Assign, ast.AugAssign, ast.AnnAssign, ast.Delete)):
                    targets = node.targets if isinstance(node, (ast.Assign, ast.Delete)) else [node.target]
                    for t in targets:
                        for tt in (t.elts if isinstance(t, (ast.Tuple, ast.List)) else [t]):
                            root = tt
                            while isinstance(root, ast.Subscript):
                                root = root.value
                            if isinstance(root, ast.Attribute) and norm_text(root.value) == "self":
                                attr = root.attr
                elif isinstance(node, ast.Call) and isinstance(node.func, ast.Attribute) and node.func.attr in SELF_MUTATORS:
                    root = node.func.value
                    while isinstance(root, ast.Subscript):
                        root = root.value
                    if isinstance(root, ast.Attribute) and norm_text(root.value) == "self":
                        attr = root.attr
                if attr is None:
                    continue
                why = DEFERRED_WRITES.get((q, attr))
                ck.instance(("deferred-write", q, attr), {"method": q, "write": norm_text(node)[:70], "verdict": "accepted: " + why if why else "in-place update"}, fn=q)
                if why:
                    continue
                ck.violation(node, f"{q.split('::')[1]} updates self.{attr} in place ({norm_text(node)[:60]}): deferred values are shared between the image, the location counter, thunks and the symbol "
                                   "table; whoever holds the object (or a length computed from it earlier) now sees a different value", construct=f"{q.split('::')[1]} writes self.{attr}")
    if n < 30:
        ck.unknown(f"only {n} methods of deferred classes were inspected (over 50 confirmed by hand)")
