"""G4 - the parse tree is read-only during compilation (mutation census, E7)."""
import ast

from ..engine.loader import norm_text, walk_local, FUNC_TYPES

PHASE_MODULES = ("compiler", "insns", "metacommands", "metacommand_impl", "operators", "types", "formats", "builtins")

# one named symbol each, with the reason
EXCEPTIONS = {
    ("compiler::Compiler.compile_block", "label_error_emitted"): "diagnostic de-duplication flag inside '.repeat' (the error it guards is raised on every assembly by the first iteration)",
    ("compiler::Compiler.compile_block", "assignment_error_emitted"): "diagnostic de-duplication flag inside '.repeat'",
    ("types::Number.resolve", "reported_invalid_base8"): "diagnostic de-duplication flag of the 8/9 error (pinned behaviour; re-assembling one parsed tree twice is outside the CLI)",
    ("types::AngleBracketedChar.resolve", "reported_error"): "diagnostic de-duplication flag (pinned behaviour)",
    ("types::CharLiteral.resolve", "evaluated_value"): "CharLiteral cache: depends on the per-run output charset only, not on position or symbols",
}
IDEMPOTENT_FUNCS = {
    "insns::OffsetOperandStub.encode.fixup_label": "replaces a Number leaf by a Symbol that resolves identically; re-application is a no-op",
}


def token_classes(repo):
    out = set()
    for q, node in repo.all_classes():
        if repo.is_subclass(q, "types::Token"):
            out.add(q)
    return out


def token_fields(repo):
    """attributes assigned in __init__ of Token subclasses -> structural (initialised from a constructor parameter) or not"""
    fields = {}
    for q in token_classes(repo):
        init = repo.find_method(q, "__init__")
        if not init or not init.startswith(q.split("::")[0] + "::" + q.split("::")[1] + "."):
            continue
        fn = repo.func(init)
        params = {a.arg for a in fn.args.args}
        for n in walk_local(fn):
            if isinstance(n, (ast.Assign, ast.AnnAssign)):
                targets = n.targets if isinstance(n, ast.Assign) else [n.target]
                for t in targets:
                    if isinstance(t, ast.Attribute) and norm_text(t.value) == "self" and n.value is not None:
                        from_param = bool({m.id for m in ast.walk(n.value) if isinstance(m, ast.Name)} & params)
                        fields[t.attr] = fields.get(t.attr, False) or from_param
    return fields


def census(repo):
    """-> list of (qual, store node, receiver text, attr, receiver kind)"""
    toks = token_classes(repo)
    out = []
    for q, fn in repo.all_functions():
        modname = q.split("::")[0]
        if modname not in PHASE_MODULES:
            continue
        if q.endswith(".__init__") or ".__init__." in q:
            continue
        # enclosing class
        cls = None
        p = fn
        while p is not None:
            if isinstance(p, ast.ClassDef):
                cls = repo.qual(p)
                break
            p = getattr(p, "_parent", None)
        for n in walk_local(fn):
            targets = []
            if isinstance(n, ast.Assign):
                targets = n.targets
            elif isinstance(n, (ast.AugAssign, ast.AnnAssign)):
                targets = [n.target]
            for t in targets:
                for tt in ([t] if not isinstance(t, (ast.Tuple, ast.List)) else t.elts):
                    if isinstance(tt, ast.Attribute):
                        recv = norm_text(tt.value)
                        if recv in ("self", "cls"):
                            if cls is None or cls not in toks:
                                continue
                            kind = "self (token method)"
                        elif isinstance(tt.value, ast.Name):
                            if tt.value.id in ("Class", "Deferred", "Awaiting", "handle_reports"):
                                continue
                            kind = "name"
                        else:
                            kind = "expr"
                        out.append((q, n, recv, tt.attr, kind))
    return out


def rule_G4(ck, modules=None, floor=5):
    """modules: restrict the census to stores made by functions of these modules (C10 uses the operand encoders only)"""
    repo = ck.repo
    fields = token_fields(repo)
    toks = token_classes(repo)
    if len(toks) < 15 or len(fields) < 15:
        ck.unknown(f"token class hierarchy not recognised ({len(toks)} classes, {len(fields)} fields)")
    stores = [x for x in census(repo) if modules is None or x[0].split('::')[0] in modules]
    for q, n, recv, attr, kind in stores:
        why = EXCEPTIONS.get((q, attr))
        idem = IDEMPOTENT_FUNCS.get(q)
        verdict = "exception: " + why if why else ("exception: " + idem if idem else ("tree field" if attr in fields else "not a tree field"))
        ck.instance(("store", q, recv, attr), {"function": q, "store": norm_text(n)[:90], "verdict": verdict}, fn=q)
        if why or idem:
            continue
        is_token = kind.startswith("self")
        if not is_token and attr not in fields and kind == "name":
            # field ownership: the same name is read through a token-only field in this function
            fnode = repo.func(q)
            token_only = {"ctx_start", "ctx_end", "lhs", "rhs", "operand", "expr", "operands", "words", "insns", "target", "chunks", "representation", "is_extern"}
            is_token = any(isinstance(m, ast.Attribute) and norm_text(m.value) == recv and m.attr in token_only and isinstance(m.ctx, ast.Load) for m in ast.walk(fnode))
        if attr not in fields and is_token:
            ck.violation(n, f"compile-phase code stores a new attribute '{attr}' on a parse-tree node: a value computed while compiling one occurrence is kept on the shared node and seen by every other "
                            "compilation of it ('.repeat', repeated '.include'), and by later assemblies of the same tree", construct=f"{recv}.{attr} = …")
            continue
        if attr in fields:
            structural = fields[attr]
            ck.violation(n, f"compile-phase code writes field '{attr}' of a parse-tree node ({'a structural field set by the parser' if structural else 'a node field'}): the tree is shared by every compilation of that node "
                            "('.repeat' bodies, repeated '.include'), so later copies see the modified tree / a value cached for another position",
                         construct=f"{recv}.{attr} = …")
    if len(stores) < floor:
        ck.unknown(f"only {len(stores)} attribute stores found in compile-phase code (16 confirmed by hand in all modules)")
