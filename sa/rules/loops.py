"""G13 - every `while` loop of the package has a variant (C08: assembling never loops forever).

The repository has 17 `while` loops. Each is matched against a small set of templates; the template's slots (guard constant,
mask, shift, index variable, container) are read from the loop itself and the template's side conditions are checked on
them. Names assigned once are replaced by their definitions first, and calls of local / same-module helpers are followed,
so hoisting `len(code)` into a local or moving the `pop()` into a helper does not change the verdict. A loop that matches no
template, or whose progress step cannot be seen because it happens in code the rule cannot resolve, leaves the rule
undecided (exit 2); a violation is reported only where the loop's own text shows the missing progress.
`for` loops iterate over finite containers / ranges bounded by operand values (P12 handles the unbounded ranges)."""
import ast

from ..engine import flow
from ..engine.loader import norm_text, walk_local, FUNC_TYPES, public_qual


def _const(node):
    if isinstance(node, ast.Constant) and isinstance(node.value, int) and not isinstance(node.value, bool):
        return node.value
    if isinstance(node, ast.UnaryOp) and isinstance(node.op, ast.USub) and _const(node.operand) is not None:
        return -_const(node.operand)
    if isinstance(node, ast.BinOp) and _const(node.left) is not None and _const(node.right) is not None:
        a, b = _const(node.left), _const(node.right)
        try:
            return {ast.Add: a + b, ast.Sub: a - b, ast.Mult: a * b, ast.Pow: a ** b if 0 <= b < 64 else None, ast.LShift: a << b if 0 <= b < 64 else None}.get(type(node.op))
        except Exception:
            return None
    return None


def _conjuncts(test):
    if isinstance(test, ast.BoolOp) and isinstance(test.op, ast.And):
        out = []
        for v in test.values:
            out += _conjuncts(v)
        return out
    return [test]


def _clone(node):
    """a private copy of an expression (nodes of the repository carry _parent links: deepcopy would copy the module)"""
    return ast.parse(ast.unparse(node), mode="eval").body


def _scalar(e):
    """an expression whose value is a number / a reference to an attribute: safe to substitute for the name it is assigned to"""
    for n in ast.walk(e):
        if isinstance(n, (ast.List, ast.Dict, ast.Set, ast.ListComp, ast.DictComp, ast.SetComp, ast.GeneratorExp, ast.Lambda, ast.Await, ast.Yield, ast.JoinedStr)):
            return False
        if isinstance(n, ast.Call) and flow.call_name(n) not in ("len", "find", "rfind", "min", "max", "abs", "int"):
            return False
    return True


class Scope:
    """the function a loop lives in: single-assignment aliases and resolvable helper functions"""

    def __init__(self, repo, qual, fn):
        self.repo, self.qual, self.fn = repo, qual, fn
        self.mod = fn._module
        counts = {}
        for n in ast.walk(fn):
            if isinstance(n, ast.Name) and isinstance(n.ctx, (ast.Store, ast.Del)):
                counts[n.id] = counts.get(n.id, 0) + 1
            elif isinstance(n, ast.arg):
                counts[n.arg] = counts.get(n.arg, 0) + 2
        self.alias = {}
        for n in walk_local(fn):
            if isinstance(n, ast.Assign) and len(n.targets) == 1 and isinstance(n.targets[0], ast.Name) and counts.get(n.targets[0].id) == 1 and _scalar(n.value):
                self.alias[n.targets[0].id] = n.value
            # q, r = divmod(a, b)
            if isinstance(n, ast.Assign) and len(n.targets) == 1 and isinstance(n.targets[0], ast.Tuple) and len(n.targets[0].elts) == 2 and all(isinstance(e, ast.Name) for e in n.targets[0].elts) \
                    and isinstance(n.value, ast.Call) and flow.call_name(n.value) == "divmod" and len(n.value.args) == 2 and all(counts.get(e.id) == 1 for e in n.targets[0].elts):
                a, b = n.value.args
                self.alias[n.targets[0].elts[0].id] = ast.BinOp(_clone(a), ast.FloorDiv(), _clone(b))
                self.alias[n.targets[0].elts[1].id] = ast.BinOp(_clone(a), ast.Mod(), _clone(b))
        # integer constants of the module (WORD_MASK = 0xffff): a name for a number, not a variable
        mcount = {}
        for st in getattr(self.mod, "tree", ast.Module([], [])).body:
            for t_ in (st.targets if isinstance(st, ast.Assign) else [getattr(st, "target", None)] if isinstance(st, (ast.AugAssign, ast.AnnAssign)) else []):
                for m in ast.walk(t_) if t_ is not None else []:
                    if isinstance(m, ast.Name):
                        mcount[m.id] = mcount.get(m.id, 0) + 1
        for st in getattr(self.mod, "tree", ast.Module([], [])).body:
            if isinstance(st, ast.Assign) and len(st.targets) == 1 and isinstance(st.targets[0], ast.Name) and mcount.get(st.targets[0].id) == 1 and st.targets[0].id not in counts \
                    and st.targets[0].id not in self.alias and _const(st.value) is not None:
                self.alias[st.targets[0].id] = st.value
        self.cache = {}

    def subst(self, node, depth=4):
        """copy of an expression with single-assignment names replaced by their definitions"""
        if depth == 0:
            return node
        sc = self

        class T(ast.NodeTransformer):
            def visit_Name(self, n):
                if isinstance(n.ctx, ast.Load) and n.id in sc.alias:
                    return sc.subst(sc.alias[n.id], depth - 1)
                return n

            def visit_Call(self, n):
                self.generic_visit(n)
                inl = sc.inline(n)
                return inl if inl is not None else n
        return T().visit(_clone(node))

    def inline(self, call):
        """the value of a call of a one-expression helper (local def, module function or method of the same class whose body is
        single-assignment temporaries and one return), written out with the arguments in place of the parameters"""
        h = None
        f = call.func
        if isinstance(f, ast.Name):
            h = self.helper(call)
        elif isinstance(f, ast.Attribute) and isinstance(f.value, ast.Name) and f.value.id == "self":
            p = self.fn
            while p is not None and not isinstance(p, ast.ClassDef):
                p = getattr(p, "_parent", None)
            if p is not None:
                for m in p.body:
                    if isinstance(m, ast.FunctionDef) and m.name == f.attr:
                        h = m
        if h is None or call.keywords or h.args.vararg or h.args.kwarg or h.decorator_list:
            return None
        params = [a.arg for a in h.args.args]
        if isinstance(f, ast.Attribute) and params[:1] == ["self"]:
            params = params[1:]
        if len(params) != len(call.args):
            return None
        body = [st for st in h.body if not (isinstance(st, ast.Expr) and isinstance(st.value, ast.Constant))]
        if not body or not isinstance(body[-1], ast.Return) or body[-1].value is None:
            return None
        env = dict(zip(params, call.args))

        def put(e):
            class U(ast.NodeTransformer):
                def visit_Name(self, n):
                    if isinstance(n.ctx, ast.Load) and n.id in env:
                        return _clone(env[n.id])
                    return n
            return U().visit(_clone(e))
        for st in body[:-1]:
            if not (isinstance(st, ast.Assign) and len(st.targets) == 1 and isinstance(st.targets[0], ast.Name) and _scalar(st.value)) or st.targets[0].id in env:
                return None
            env[st.targets[0].id] = put(st.value)
        if not _scalar(body[-1].value):
            return None
        return put(body[-1].value)

    def text(self, node):
        return norm_text(self.subst(node))

    def helper(self, call):
        """the FunctionDef a call resolves to: a nested def of an enclosing function, or a function of the same module"""
        f = call.func
        if not isinstance(f, ast.Name):
            return None
        p = self.fn
        while p is not None:
            if isinstance(p, FUNC_TYPES + (ast.Module,)):
                for s in (p.body if isinstance(p.body, list) else []):
                    if isinstance(s, ast.FunctionDef) and s.name == f.id:
                        return s
            p = getattr(p, "_parent", None)
        return None

    def gen(self, base, depth=2):
        """base gen, closed under calls of resolvable helpers (facts a helper establishes on all its paths)"""
        def g(n):
            out = set(base(n))
            if isinstance(n, ast.Call) and depth > 0:
                h = self.helper(n)
                if h is not None:
                    key = (id(h), base, depth)       # the function object itself: keeps it alive, so ids are not reused
                    if key not in self.cache:
                        self.cache[key] = frozenset()      # recursion guard
                        f = flow.exit_facts(h, self._gen_in(h, base, depth - 1))
                        self.cache[key] = frozenset() if f is flow.TOP else frozenset(f)
                    out |= self.cache[key]
            return out
        return g

    def _gen_in(self, h, base, depth):
        sub = Scope.__new__(Scope)
        sub.__dict__.update(self.__dict__)
        sub.fn = h
        return sub.gen(base, depth)

    def opaque_calls(self, loop):
        """calls in the loop body whose effect on the loop's variables the rule cannot see"""
        out = []
        for n in ast.walk(loop):
            if isinstance(n, ast.Call) and self.helper(n) is None:
                f = n.func
                if isinstance(f, ast.Name) and f.id in ("len", "isinstance", "issubclass", "int", "str", "bool", "min", "max", "abs", "ord", "chr", "repr", "sum", "bytes"):
                    continue
                if isinstance(f, ast.Attribute) and f.attr in ("strip", "lower", "upper", "isspace", "isdigit", "isalpha", "find", "rfind", "count", "startswith", "endswith", "save", "get", "error", "warning", "critical"):
                    continue
                out.append(n)
        return out


def _verdict(sc, loop, facts, want, missing_msg):
    """-> (problems, undecided)"""
    if facts is flow.TOP or (want & set(facts)):
        return [], None
    opaque = sc.opaque_calls(loop)
    if opaque:
        return [], f"{missing_msg} (the body calls {norm_text(opaque[0].func)}(), which the rule cannot follow)"
    return [missing_msg], None


def t_fold(sc, loop):
    """while V > C: V = (V & M) + (V >> K)   -- end-around carry"""
    t = sc.subst(loop.test)
    inverted = False
    if isinstance(t, ast.UnaryOp) and isinstance(t.op, ast.Not):
        t, inverted = t.operand, True
    if not (isinstance(t, ast.Compare) and len(t.ops) == 1 and isinstance(t.left, ast.Name) and isinstance(t.ops[0], (ast.Gt, ast.GtE, ast.Lt, ast.LtE)) and _const(t.comparators[0]) is not None):
        return None
    v, c = t.left.id, _const(t.comparators[0])
    runs_for_large = isinstance(t.ops[0], (ast.Gt, ast.GtE)) != inverted
    last = loop.body[-1]
    if not isinstance(last, ast.Assign) or norm_text(last.targets[0]) != v:
        return None
    for st in loop.body[:-1]:       # temporaries only (single-assignment names, substituted below)
        names = [m.id for t_ in getattr(st, "targets", []) for m in ast.walk(t_) if isinstance(m, ast.Name)]
        if not isinstance(st, ast.Assign) or not names or any(nm not in sc.alias for nm in names):
            return None
    e = sc.subst(last.value)
    if not (isinstance(e, ast.BinOp) and isinstance(e.op, ast.Add)):
        return None
    mask = shift = None
    for side in (e.left, e.right):
        if isinstance(side, ast.BinOp) and norm_text(side.left) == v and _const(side.right) is not None:
            if isinstance(side.op, ast.BitAnd):
                mask = _const(side.right)
            elif isinstance(side.op, ast.RShift):
                shift = _const(side.right)
            elif isinstance(side.op, ast.Mod):
                mask = _const(side.right) - 1
            elif isinstance(side.op, ast.FloorDiv):
                d = _const(side.right)
                shift = d.bit_length() - 1 if d > 0 and d & (d - 1) == 0 else None
    if mask is None or shift is None:
        return None
    if not runs_for_large:
        return {"template": "end-around-carry fold", "variant": "-", "problems": [f"the guard lets the body run for SMALL sums ({norm_text(loop.test)}): there V >> {shift} is 0, the body changes nothing and the loop never ends; "
                                                                              "sums that do need folding leave the loop unfolded"]}
    lowest = c + 1 if isinstance(t.ops[0], ast.Gt) else c       # smallest V for which the body runs
    problems = []
    if shift <= 0 or mask != (1 << shift) - 1:
        problems.append(f"the mask {mask:#x} and the shift {shift} do not split V into quotient and remainder of 2**{shift}")
    elif lowest < (1 << shift):
        # V = q * 2^k + r  ->  body gives r + q; it is smaller than V exactly when q >= 1
        problems.append(f"the body runs for V = {lowest:#x}, where V >> {shift} is 0 and (V & {mask:#x}) + (V >> {shift}) == V: the loop never ends for a sum of exactly {lowest:#x}")
    return {"template": "end-around-carry fold", "variant": f"V = q*2**{shift} + r becomes r + q < V whenever q >= 1, i.e. V >= {1 << shift:#x}; the guard admits V >= {lowest:#x}", "problems": problems}


def t_trampoline(sc, loop):
    t = loop.test
    if isinstance(t, ast.Constant) and t.value is True and loop.body and isinstance(loop.body[0], ast.If):
        # while True: if not isinstance(v, D): return v   ...   - the same loop with its test moved into the body
        c0 = loop.body[0]
        tt = c0.test.operand if isinstance(c0.test, ast.UnaryOp) and isinstance(c0.test.op, ast.Not) else None
        leaves = c0.body and isinstance(c0.body[-1], (ast.Return, ast.Break)) and not c0.orelse
        if isinstance(tt, ast.Call) and flow.call_name(tt) == "isinstance" and isinstance(tt.args[0], ast.Name) and leaves:
            t = tt
    if isinstance(t, ast.Call) and flow.call_name(t) == "isinstance" and isinstance(t.args[0], ast.Name):
        v = t.args[0].id

        def base(n):
            if isinstance(n, ast.Assign) and norm_text(n.targets[0]) == v and isinstance(n.value, ast.Call) and flow.call_name(n.value) == "wait" \
                    and isinstance(n.value.func, ast.Attribute) and norm_text(n.value.func.value) == v:
                return {"step"}
            return set()
        pr, und = _verdict(sc, loop, flow.back_edge_facts(loop, sc.gen(base)), {"step"}, f"'{v}' is not replaced by {v}.wait() on every iteration")
        return {"template": "trampoline", "variant": "each step replaces the deferred by the value it produced; a deferred that needs itself is cut by Awaiting (DeferredCycle)", "problems": pr, "undecided": und}
    return None


def t_pad(sc, loop):
    """while len(X) % m != 0: X.append(..)"""
    t = sc.subst(loop.test)
    if isinstance(t, ast.Compare) and len(t.ops) == 1 and isinstance(t.ops[0], ast.NotEq) and _const(t.comparators[0]) == 0 and isinstance(t.left, ast.BinOp) \
            and isinstance(t.left.op, ast.Mod) and isinstance(t.left.left, ast.Call) and flow.call_name(t.left.left) == "len" and (_const(t.left.right) or 0) > 0:
        x = norm_text(t.left.left.args[0])

        def base(n):
            if isinstance(n, ast.Call) and isinstance(n.func, ast.Attribute) and n.func.attr == "append" and norm_text(n.func.value) == x:
                return {"grow1"}
            return set()
        f = flow.back_edge_facts(loop, sc.gen(base))
        growers = [n for n in ast.walk(loop) if (isinstance(n, ast.Call) and isinstance(n.func, ast.Attribute) and n.func.attr in ("append", "extend", "insert") and norm_text(n.func.value) == x)
                   or (isinstance(n, ast.AugAssign) and norm_text(n.target) == x)]
        nested = any(isinstance(n, (ast.For, ast.While)) for b in loop.body for n in ast.walk(b))
        pr, und = _verdict(sc, loop, f, {"grow1"}, f"len({x}) does not grow by one on every iteration")
        m_ = _const(t.left.right)
        for g in growers:
            if isinstance(g, ast.Call) and g.func.attr == "extend" and g.args and isinstance(g.args[0], (ast.List, ast.Tuple)) and len(growers) == 1 and not nested:
                k = len(g.args[0].elts)
                pr, und = ([f"every iteration adds {k} elements to {x}: len({x}) % {m_} never changes"], None) if k % m_ == 0 else ([], und)
        if not pr and not und and (len(growers) != 1 or nested):
            und = f"len({x}) changes at {len(growers)} places / inside a nested loop: 'exactly one per iteration' is not evident"
        return {"template": "pad to a multiple", "variant": f"len({x}) grows by exactly one per iteration, so it reaches a multiple of {_const(t.left.right)} within {_const(t.left.right) - 1} steps",
                "problems": pr, "undecided": und}
    return None


def t_index(sc, loop):
    """while X < len(S) [and ...]: ... X moves forward"""
    x = seq = None
    for c in _conjuncts(loop.test):
        cs = sc.subst(c)
        if isinstance(cs, ast.Compare) and len(cs.ops) == 1 and isinstance(cs.ops[0], ast.Lt) and isinstance(cs.comparators[0], ast.Call) and flow.call_name(cs.comparators[0]) == "len":
            x, seq = norm_text(c.left), norm_text(cs.comparators[0].args[0])
    if x is None:
        return None
    owner = x.split(".")[0]

    def is_find(e):
        return isinstance(e, ast.Call) and flow.call_name(e) == "find" and isinstance(e.func, ast.Attribute) and norm_text(e.func.value) == seq and len(e.args) == 2 and norm_text(e.args[1]) == x

    def is_len(e):
        return isinstance(e, ast.Call) and flow.call_name(e) == "len" and norm_text(e.args[0]) == seq

    def base(n):
        if isinstance(n, ast.AugAssign) and norm_text(n.target) == x and isinstance(n.op, ast.Add) and (_const(n.value) or 0) > 0:
            return {"adv"}
        if isinstance(n, ast.Assign) and norm_text(n.targets[0]) == x:
            v = sc.subst(n.value)
            if is_len(v):
                return {"adv"}      # jumps to the end: the guard fails
            if isinstance(v, ast.IfExp) and isinstance(v.test, ast.Compare) and len(v.test.ops) == 1 and _const(v.test.comparators[0]) == -1 and is_find(v.test.left):
                a, b = (v.body, v.orelse) if isinstance(v.test.ops[0], ast.Eq) else (v.orelse, v.body) if isinstance(v.test.ops[0], ast.NotEq) else (None, None)
                if a is not None and is_len(a) and is_find(b):
                    return {"adv"}  # S.find(c, X) is >= X (and the character at X is not c on this branch), or -1 -> the end
            if is_find(v):
                # the not-found case must be mapped to the end right away
                par = n._parent
                sibs = par.body if n in getattr(par, "body", []) else getattr(par, "orelse", [])
                nxt = sibs[sibs.index(n) + 1] if n in sibs and sibs.index(n) + 1 < len(sibs) else None
                if isinstance(nxt, ast.If) and norm_text(nxt.test) == f"{x} == -1" and any(isinstance(m, ast.Assign) and norm_text(m.targets[0]) == x and is_len(sc.subst(m.value)) for m in nxt.body):
                    return {"adv"}
        if isinstance(n, ast.Call) and not isinstance(n.func, ast.Attribute) and sc.helper(n) is None and any(isinstance(a, ast.Name) and a.id == owner for a in n.args):
            return {"adv"}          # a parser consumes from the context it is given (G13n: it cannot match the empty string)
        return set()
    pr, und = _verdict(sc, loop, flow.back_edge_facts(loop, sc.gen(base)), {"adv"}, f"some path through the body reaches the next iteration without moving {x} forward")
    return {"template": "index scan", "variant": f"{x} moves forward on every path that continues; it is bounded by len({seq})", "problems": pr, "undecided": und}


def t_scan(sc, loop):
    """while S[I] in T: I += 1     (and the mirrored form)"""
    t = loop.test
    if isinstance(t, ast.Compare) and len(t.ops) == 1 and isinstance(t.ops[0], (ast.In, ast.NotIn)) and isinstance(t.left, ast.Subscript):
        idx = [n.id for n in ast.walk(t.left.slice) if isinstance(n, ast.Name)]
        if len(idx) == 1:
            i = idx[0]

            def base(n):
                if isinstance(n, ast.AugAssign) and norm_text(n.target) == i and isinstance(n.op, (ast.Add, ast.Sub)) and (_const(n.value) or 0) > 0:
                    return {"move"}
                return set()
            pr, und = _verdict(sc, loop, flow.back_edge_facts(loop, sc.gen(base)), {"move"}, f"{i} does not move on every iteration")
            return {"template": "bounded scan", "variant": f"{i} moves one way by a constant; the subscript leaves the string after at most len steps (IndexError at the latest)", "problems": pr, "undecided": und}
    return None


def t_countdown(sc, loop):
    """while V > 0: ... V -= k      /   while V < N: ... V += k   (N not assigned in the loop)"""
    for c in _conjuncts(loop.test):
        if isinstance(c, ast.Compare) and len(c.ops) == 1 and isinstance(c.left, ast.Name):
            v, opn, bound = c.left.id, c.ops[0], c.comparators[0]
            down = isinstance(opn, (ast.Gt, ast.GtE))
            up = isinstance(opn, (ast.Lt, ast.LtE))
            if not (down or up):
                continue
            if isinstance(bound, (ast.Tuple, ast.List)):
                continue        # an ordering of tuples (precedence, associativity) is a test, not a counter
            bound_names = {n.id for n in ast.walk(bound) if isinstance(n, ast.Name)}
            if any(isinstance(n, ast.Name) and isinstance(n.ctx, ast.Store) and n.id in bound_names for b in loop.body for n in ast.walk(b)):
                continue        # the bound moves too
            if any(isinstance(n, ast.Call) for n in ast.walk(bound)):
                continue

            def base(n, v=v, down=down):
                if isinstance(n, ast.AugAssign) and norm_text(n.target) == v and isinstance(n.op, ast.Sub if down else ast.Add) and (_const(n.value) or 0) > 0:
                    return {"step"}
                return set()
            other_writes = [n for b in loop.body for n in ast.walk(b) if isinstance(n, ast.Name) and n.id == v and isinstance(n.ctx, ast.Store) and not (isinstance(n._parent, ast.AugAssign) and base(n._parent))]
            pr, und = _verdict(sc, loop, flow.back_edge_facts(loop, sc.gen(base)), {"step"}, f"{v} does not move towards the bound on every iteration that continues")
            if other_writes and not pr:
                und = und or f"{v} is also assigned elsewhere in the loop"
            return {"template": "counter", "variant": f"{v} moves by a positive constant towards the bound {norm_text(bound)} on every iteration that continues", "problems": pr, "undecided": und}
    return None


def t_stack(sc, loop):
    first = _conjuncts(loop.test)[0]
    if isinstance(first, ast.Name):
        st = first.id

        def base(n):
            if isinstance(n, ast.Call) and isinstance(n.func, ast.Attribute) and n.func.attr == "pop" and norm_text(n.func.value) == st:
                return {"pop"}
            return set()
        pr, und = _verdict(sc, loop, flow.back_edge_facts(loop, sc.gen(base)), {"pop"}, f"{st} is not popped on every iteration that continues")
        return {"template": "drain a stack", "variant": f"every iteration that continues pops {st}", "problems": pr, "undecided": und}
    return None


def t_parse(sc, loop):
    if sc.mod.name != "parser":
        return None
    t = loop.test
    ok_guard = (isinstance(t, ast.Constant) and t.value is True) or "ctx" in {n.id for n in ast.walk(t) if isinstance(n, ast.Name)}
    if not ok_guard:
        return None

    def base(n):
        if isinstance(n, ast.Call) and any(isinstance(a, ast.Name) and a.id == "ctx" for a in n.args) and not any(k.arg == "lookahead" for k in n.keywords):
            return {"parse"}
        return set()
    f = flow.back_edge_facts(loop, sc.gen(base))
    in_test = any(base(n) for n in ast.walk(t))
    if in_test:
        f = flow.TOP
    pr, und = _verdict(sc, loop, f, {"parse"}, "some path through the body continues without running any parser on ctx")
    return {"template": "parse loop", "variant": "every iteration that continues has run a parser on ctx; a parser that matched has consumed input", "problems": pr, "undecided": und}


TEMPLATES = (t_fold, t_trampoline, t_pad, t_index, t_scan, t_countdown, t_stack, t_parse)


def rule_G13(ck):
    repo = ck.repo
    n = 0
    for q, fn in repo.all_functions():
        if isinstance(fn, ast.Lambda):
            continue
        sc = None
        for loop in walk_local(fn):
            if not isinstance(loop, ast.While):
                continue
            n += 1
            sc = sc or Scope(repo, q, fn)
            res = None
            for t in TEMPLATES:
                res = t(sc, loop)
                if res:
                    break
            guard = norm_text(loop.test)[:70]
            key = ("while", public_qual(q), sum(1 for m in walk_local(fn) if isinstance(m, ast.While) and m.lineno <= loop.lineno))
            if res is None:
                ck.instance(key, {"function": q, "guard": guard, "template": None}, fn=q)
                ck.unknown(f"{q}: 'while {guard}' matches no termination template")
                continue
            ck.instance(key, {"function": q, "guard": guard, "template": res["template"], "variant": res["variant"]}, fn=q)
            if res.get("undecided"):
                ck.unknown(f"{q}: 'while {guard}' ({res['template']}): {res['undecided']}")
            for pr in res["problems"]:
                ck.violation(loop, f"'while {guard}' ({res['template']}): {pr}. Assembling a program that reaches this state never ends", construct=f"while loop in {public_qual(q).split('::')[1]}: {res['template']}")
    if n < 15:
        ck.unknown(f"only {n} while loops found (17 confirmed by hand)")


# ---------------------------------------------------------------------------------------------------------------
# G14 - recursion through inclusion is bounded
def rule_G14(ck):
    """compile_block -> compile_insn -> directive handler -> compile_include -> compile_file -> compile_block is the one
    recursion of the compiler whose depth is chosen by the program's FILES rather than by the nesting of one finite text
    ('.repeat { }' recurses on a sub-tree). The language has no conditionals, so a file that includes itself recurses
    for ever unless the handler bounds the depth. Every call of compile_include from a directive handler must be
    (a) dominated by a comparison of a depth counter with a constant whose failing side reports and returns, (b) preceded by
    the counter's increment, and (c) inside a try whose finally decrements it."""
    repo = ck.repo
    sites = []
    for q, fn in repo.all_functions():
        if isinstance(fn, ast.Lambda) or q.split("::")[0] not in ("metacommands", "metacommand_impl", "builtins"):
            continue
        for n in walk_local(fn):
            if isinstance(n, ast.Call) and flow.call_name(n) == "compile_include":
                sites.append((q, fn, n))
    if not sites:
        ck.unknown("no directive handler calls compile_include any more (anchor of the rule)")
    for q, fn, call in sites:
        # the depth counter is whatever the handler increments by one and decrements by one
        inc = {norm_text(n.target) for n in walk_local(fn) if isinstance(n, ast.AugAssign) and isinstance(n.op, ast.Add) and _const(n.value) == 1}
        decr = {norm_text(n.target) for n in walk_local(fn) if isinstance(n, ast.AugAssign) and isinstance(n.op, ast.Sub) and _const(n.value) == 1}
        counters = inc & decr

        def test_facts(test):
            neg = isinstance(test, ast.UnaryOp) and isinstance(test.op, ast.Not)
            t = test.operand if neg else test
            if isinstance(t, ast.Compare) and len(t.ops) == 1 and isinstance(t.ops[0], (ast.Gt, ast.GtE, ast.Lt, ast.LtE)):
                l, r = t.left, t.comparators[0]
                lt, rt = norm_text(l), norm_text(r)
                side = "l" if lt in counters and not any(c in rt for c in counters) else ("r" if rt in counters and not any(c in lt for c in counters) else None)
                if side:
                    too_deep_when_true = isinstance(t.ops[0], (ast.Gt, ast.GtE)) == (side == "l")
                    if neg:
                        too_deep_when_true = not too_deep_when_true
                    return (set(), {"bounded"}) if too_deep_when_true else ({"bounded"}, set())
            return set(), set()

        def gen(n):
            if isinstance(n, ast.AugAssign) and isinstance(n.op, ast.Add) and _const(n.value) == 1 and norm_text(n.target) in counters:
                return {"incremented"}
            return set()
        facts = flow.facts_before(fn, call, gen, None, test_facts)
        facts = set() if facts in (None, flow.TOP) else set(facts)
        # (c) the try/finally around the call
        p, dec = call, False
        while p is not None and p is not fn:
            par = getattr(p, "_parent", None)
            if isinstance(par, ast.Try) and p in par.body:
                dec = any(isinstance(m, ast.AugAssign) and isinstance(m.op, ast.Sub) and _const(m.value) == 1 and norm_text(m.target) in counters for s in par.finalbody for m in ast.walk(s))
                if dec:
                    break
            p = par
        ck.instance(("include-recursion", q), {"handler": q, "depth counter": sorted(counters), "guarded": "bounded" in facts, "incremented before": "incremented" in facts, "decremented in finally": dec}, fn=q)
        missing = [w for w, ok in (("a depth guard (counter compared with a constant, report and return on the deep side)", "bounded" in facts),
                                   ("the counter's increment before the call", "incremented" in facts), ("its decrement in a finally", dec)) if not ok]
        if missing:
            ck.violation(call, f"{q.split('::')[1]} compiles the included file recursively without {'; '.join(missing)}: a file that includes itself (or two files that include each other) recurses until "
                               "Python's recursion limit: RecursionError, 'unexpected internal compiler error' instead of a diagnostic", construct=f"unbounded inclusion recursion in {q.split('::')[1]}")


# ---------------------------------------------------------------------------------------------------------------
# G13n - no regular-expression parser matches the empty string
def rule_G13n(ck):
    """The parse-loop template of G13 assumes that a parser which matched has consumed input. The primitive parsers are
    Parser.literal(non-empty text) and Parser.regex(pattern): every pattern must have a minimal match width of at least one
    character (computed with re._parser, the standard library's own regex parser), every literal must be non-empty. Patterns
    built from tables are evaluated row by row."""
    import re._parser as rp
    from ..engine.interp import Unsupported, Env
    from ..engine.loader import Unknown
    from .world import eager_interp
    repo = ck.repo
    mod = repo.module("parser")
    I = eager_interp(repo)
    n = 0

    def rows_for(name, fn):
        """values a loop variable takes when it iterates over a literal table in fn: [(ast of row element)]"""
        out = []
        for loop in ast.walk(fn):
            if isinstance(loop, ast.For) and isinstance(loop.iter, (ast.List, ast.Tuple)):
                tgt = loop.target
                names = [e.id for e in tgt.elts] if isinstance(tgt, ast.Tuple) and all(isinstance(e, ast.Name) for e in tgt.elts) else ([tgt.id] if isinstance(tgt, ast.Name) else [])
                if name in names:
                    for row in loop.iter.elts:
                        out.append(row.elts[names.index(name)] if isinstance(tgt, ast.Tuple) and isinstance(row, (ast.Tuple, ast.List)) else row)
        if not out and isinstance(fn, ast.FunctionDef):
            # a parameter of a table-row helper: the values are the literal arguments of its calls ( _fmt("^X", "[0-9a-f]", 16) ... )
            params = [a.arg for a in fn.args.args]
            if name in params:
                i = params.index(name)
                calls = [c for c in ast.walk(mod.tree) if isinstance(c, ast.Call) and isinstance(c.func, ast.Name) and c.func.id == fn.name]
                vals = []
                for c in calls:
                    v = c.args[i] if i < len(c.args) else next((k.value for k in c.keywords if k.arg == name), None)
                    if not (isinstance(v, ast.Constant) and isinstance(v.value, str)):
                        return []
                    vals.append(v)
                out = vals
        return out

    def patterns(arg, fn):
        """the concrete pattern strings an argument expression can denote"""
        if isinstance(arg, ast.Constant) and isinstance(arg.value, str):
            return [arg.value]
        free = sorted({m.id for m in ast.walk(arg) if isinstance(m, ast.Name)} - {"re", "radix50", "types", "reports"})
        combos = [{}]
        for nm in free:
            rows = rows_for(nm, fn) if fn is not None else []
            if not rows:
                raise Unknown(f"pattern {norm_text(arg)[:60]}: the name {nm} is not a loop variable over a literal table")
            combos = [dict(c, **{nm: r}) for c in combos for r in rows]
        out = []
        for c in combos:
            def thunk(c=c):
                env = Env(I.module_env("parser"))
                for k, v in c.items():
                    env.vars[k] = I.ev(v, env, mod)
                return I.ev(arg, env, mod)
            ps = I.explore(thunk)
            if len(ps) != 1 or ps[0].kind != "return" or not isinstance(ps[0].value, str):
                raise Unknown(f"pattern {norm_text(arg)[:60]} does not fold to text: {ps}")
            out.append(ps[0].value)
        return out
    for node in ast.walk(mod.tree):
        if isinstance(node, ast.Call) and isinstance(node.func, ast.Attribute) and node.func.attr in ("regex", "literal") and norm_text(node.func.value) in ("Parser", "cls") and node.args:
            fn = repo.enclosing_function(node)
            q = f"parser::{mod.qualname_of.get(id(fn), '<module>')}" if fn is not None else "parser::<module>"
            try:
                pats = patterns(node.args[0], fn)
            except Unsupported as ex:
                raise Unknown(f"{q}: pattern {norm_text(node.args[0])[:60]}: {ex}") from None
            except Unknown:
                if node.func.attr != "literal":
                    raise
                # a literal taken from the operator registry (operator() asserts a non-empty spelling) or from the text just read
                n += 1
                ck.instance(("primitive-parser", node.lineno, norm_text(node.args[0])), {"where": q, "literal": norm_text(node.args[0]), "minimal width": "dynamic: a registry key / a character of the text"}, fn=q)
                continue
            for p_ in pats:
                n += 1
                if node.func.attr == "literal":
                    width = len(p_)
                else:
                    try:
                        width = rp.parse(p_).getwidth()[0]
                    except Exception as ex:
                        raise Unknown(f"{q}: pattern {p_!r} does not parse: {ex}") from None
                ck.instance(("primitive-parser", node.lineno, p_), {"where": q, node.func.attr: p_[:60], "minimal width": width}, fn=q)
                if width < 1:
                    ck.violation(node, f"Parser.{node.func.attr}({p_!r}) can match the empty string: a loop that repeats a parser built from it ('while True: x = p(ctx, maybe=True); if x is None: break', "
                                       "operator and operand lists, string pieces) makes no progress and never ends", construct=f"parser primitive matches the empty string in {q.split('::')[1]}")
    if n < 40:
        ck.unknown(f"only {n} primitive parsers (Parser.regex / Parser.literal) found (over 60 confirmed by hand)")
