"""DIR.route - directives reached the way a program reaches them: Compiler.compile_insn -> registry -> Metacommand.compile_insn
(operand count, code-block extraction, cooking of operands by annotation, raw operands) -> handler.

The per-directive rules call the handlers directly; this rule closes the gap between the statement and the handler, with the
real classes executed abstractly on small statements."""
import ast

from ..engine import sym
from ..engine.interp import Rec, ClassVal, PyFn, Raised, Unsupported
from ..engine.loader import Unknown
from .world import eager_interp, emit_report_summary, Shapes


def rule_route(ck, only=None):
    repo = ck.repo
    I = eager_interp(repo)
    I.summaries = {"reports::emit_report": emit_report_summary, "devices::resolve_relative_path": lambda I_, f_, a, k: sym.cat("DIR/", a[0]) if isinstance(a[0], str) else sym.op("relpath", a[0], a[1])}
    I.explore(lambda: I.module_get("metacommands", "rad50"))
    blocks = []

    def mkstate(sh, comp, insn):
        return {"filename": "src/prog.mac", "context": "file", "internal_symbol_prefix": ".internal1.", "local_symbol_prefix": ".local1.", "compiler": comp,
                "link_base": {"promise": None, "set_where": None}, "internal_symbols_list": [], "extern_all": None, "insn": insn, "emit_address": 0o1000}

    def run(build):
        def thunk():
            del blocks[:]
            sh = Shapes(I)
            comp = I.instantiate(I.module_get("compiler", "Compiler"), ["ascii"], {})      # a stdlib charset: the bk codec has its own rules (C14)
            insn = build(sh)
            state = mkstate(sh, comp, insn)
            # a constant 'val = 7' of this file
            asg = sh.mk(T("Assignment"), None, None, sh.symbol("val"), sh.number("7", 7), False)
            I.call_method(comp, "compile_assignment", [asg, state])
            r = I.call_method(comp, "compile_insn", [insn, state])
            wait = I.module_get("deferred", "wait")
            r = I.call(wait, [r], {}) if r is not None else None
            ef = comp.fields["emitted_files"] if "emitted_files" in comp.fields else I.getattr(comp, "emitted_files")
            return r, list(ef), list(blocks)
        ps = I.explore(thunk)
        return ps
    T = lambda n: I.module_get("types", n)
    ins = lambda sh, name, ops: sh.mk(T("Instruction"), None, None, sh.symbol(name), ops)
    q = lambda sh, text: sh.mk(T("QuotedString"), None, None, '"', text)
    cases = []
    # make_* register exactly one output of the right format, at the path of the directive / the default path
    for name, fmt, ext in (("make_bin", "bin", ".bin"), ("make_raw", "raw", ""), ("make_bk0010_rom", "bin", ".bin"), ("make_wav", "bk_wav", ".wav"), ("make_turbo_wav", "bk_turbo_wav", ".wav")):
        cases.append(("outputs", f'{name} "out.x"', lambda sh, name=name: ins(sh, name, [q(sh, "out.x")]), ("emitted", fmt, "DIR/out.x")))
        cases.append(("outputs", f"{name}", lambda sh, name=name: ins(sh, name, []), ("emitted", fmt, "src/prog" + ext)))
    # a directive with more than one declared operand takes them all (the operand count is counted per parameter)
    cases.append(("outputs", 'make_wav "out.x", "TAPE"', lambda sh: ins(sh, "make_wav", [q(sh, "out.x"), q(sh, "TAPE")]), ("emitted", "bk_wav", "DIR/out.x")))
    # a path made of pieces: "p" <101> ".x"  is the string pA.x  ('<n>' is the character with code n)
    cases.append(("outputs", 'make_raw "p"<101>".x"', lambda sh: ins(sh, "make_raw", [sh.mk(T("StringConcatenation"), None, None, [q(sh, "p"), sh.mk(T("AngleBracketedChar"), None, None, sh.number("101", 65)), q(sh, ".x")])]),
                  ("emitted", "raw", "DIR/pA.x")))
    # .repeat: count and body reach the handler; the body is compiled count times
    cases.append(("repeat", ".repeat 3 { nop }", lambda sh: ins(sh, ".repeat", [sh.number("3", 3), sh.mk(T("CodeBlock"), None, None, [ins(sh, "nop", [])])]), ("blocks", 3)))
    # strings: '.ascii "ab"<65>/c/' with the real pieces; '.rad50 /ab/<1>' raw
    cases.append(("strings", '.ascii "ab"<101>"c"', lambda sh: ins(sh, ".ascii", [sh.mk(T("StringConcatenation"), None, None, [q(sh, "ab"), sh.mk(T("AngleBracketedChar"), None, None, sh.number("101", 65)), q(sh, "c")])]), ("bytes", b"abAc")))
    cases.append(("strings", '.asciz "ab"', lambda sh: ins(sh, ".asciz", [q(sh, "ab")]), ("bytes", b"ab\x00")))
    cases.append(("strings", '.ascii <101>', lambda sh: ins(sh, ".ascii", [sh.mk(T("AngleBracketedChar"), None, None, sh.number("101", 65))]), ("bytes", b"A")))
    cases.append(("rad50", '.rad50 "ab"<3>', lambda sh: ins(sh, ".rad50", [sh.mk(T("StringConcatenation"), None, None, [q(sh, "ab"), sh.mk(T("AngleBracketedChar"), None, None, sh.number("3", 3))])]), ("bytes", (1 * 1600 + 2 * 40 + 3).to_bytes(2, "little"))))
    cases.append(("rad50", '.rad50 "abcd"', lambda sh: ins(sh, ".rad50", [q(sh, "abcd")]), ("bytes", (1 * 1600 + 2 * 40 + 3).to_bytes(2, "little") + (4 * 1600).to_bytes(2, "little"))))
    # a refused character: the error is reported and the words are still well-formed (the handler goes on; nothing dies in struct.pack)
    cases.append(("rad50", '.rad50 "a"<77>"b"', lambda sh: ins(sh, ".rad50", [sh.mk(T("StringConcatenation"), None, None, [q(sh, "a"), sh.mk(T("AngleBracketedChar"), None, None, sh.number("77", 63)), q(sh, "b")])]),
                  ("error+bytes", "value-out-of-bounds", (1 * 1600 + 0 * 40 + 2).to_bytes(2, "little"))))
    cases.append(("rad50", '.rad50 <77><0><0>', lambda sh: ins(sh, ".rad50", [sh.mk(T("StringConcatenation"), None, None, [sh.mk(T("AngleBracketedChar"), None, None, sh.number(t_, v_)) for t_, v_ in (("77", 63), ("0", 0), ("0", 0))])]),
                  ("error+bytes", "value-out-of-bounds", b"\x00\x00")))
    cases.append(("rad50", '.rad50 "a?b"', lambda sh: ins(sh, ".rad50", [q(sh, "a?b")]), ("error+bytes", "invalid-character", (1 * 1600 + 0 * 40 + 2).to_bytes(2, "little"))))
    # data directives through operand cooking
    cases.append(("data", ".byte 1, 377", lambda sh: ins(sh, ".byte", [sh.number("1", 1), sh.number("377", 255)]), ("bytes", b"\x01\xff")))
    cases.append(("data", ".word 1, 177777", lambda sh: ins(sh, ".word", [sh.number("1", 1), sh.number("177777", 0xffff)]), ("bytes", b"\x01\x00\xff\xff")))
    cases.append(("data", ".byte #5  (a hash where none belongs: reported, then taken as 5)", lambda sh: ins(sh, ".byte", [sh.un("immediate", sh.number("5", 5))]), ("error+bytes", "excess-hash", b"\x05")))
    cases.append(("data", ".blkb 3", lambda sh: ins(sh, ".blkb", [sh.number("3", 3)]), ("bytes", b"\x00\x00\x00")))
    cases.append(("data", ".blkw 2", lambda sh: ins(sh, ".blkw", [sh.number("2", 2)]), ("bytes", b"\x00\x00\x00\x00")))
    # what is neither an instruction nor a directive: a defined constant starts an implicit word list, anything else is an error
    cases.append(("fallback", "frobnicate r0", lambda sh: ins(sh, "frobnicate", [sh.symbol("r0")]), ("error", "unknown-insn")))
    cases.append(("fallback", ".frobnicate", lambda sh: ins(sh, ".frobnicate", []), ("error", "unknown-insn")))
    cases.append(("fallback", "val  (val = 7)", lambda sh: ins(sh, "val", []), ("bytes", b"\x07\x00")))
    cases.append(("fallback", "val 5  (val = 7; a comma is missing)", lambda sh: ins(sh, "val", [sh.number("5", 5)]), ("error-any", "meta-type-mismatch")))
    cases.append(("fallback", "ascii  (typo for .ascii)", lambda sh: ins(sh, "ascii", [q(sh, "a")]), ("warning+bytes", "meta-typo", b"a")))
    I.summaries["compiler::Compiler.compile_block"] = lambda I_, f_, a, k: blocks.append(a[2]) or b"\xa0\x00"
    for group, text, build, want in cases:
        if only and group not in only:
            continue
        try:
            ps = run(build)
        except Unsupported as ex:
            ck.unknown(f"{text}: {ex}")
            continue
        where = "metacommand_impl::Metacommand.compile_insn"
        ck.instance(("route", text), {"statement": text, "result": repr(ps[0].value)[:160] if ps else None}, fn=where)
        if want[0] in ("error", "error-any"):
            errs = [e[2] for p in ps for e in p.reported()]
            if len(ps) != 1 or want[1] not in errs or (want[0] == "error" and ps[0].kind == "return" and ps[0].value[0] not in (None, b"")):
                ck.violation("compiler::Compiler.compile_insn", f"the statement '{text}' (no such instruction or directive) gives {[(p.kind, repr(p.value)[:60]) for p in ps]} with diagnostics {errs}; "
                                                                f"expected the error '{want[1]}' and no bytes: an unknown statement must not vanish silently", construct=f"route {text}")
            continue
        if want[0] == "error+bytes":
            errs = [e[2] for p in ps for e in p.reported()]
            r0 = ps[0].value[0] if len(ps) == 1 and ps[0].kind == "return" else None
            got = bytes(r0) if isinstance(r0, (bytes, bytearray)) else getattr(r0, "value", r0)
            if len(ps) != 1 or ps[0].kind != "return":
                ck.incomplete(where, f"the statement '{text}'", ps)
            elif want[1] not in errs or not isinstance(got, (bytes, bytearray)) or len(got) != len(want[2]):
                # the run has failed, so WHICH word stands for the refused character is nobody's business; that there is one (the addresses after it, further diagnostics) is
                ck.violation(where, f"the statement '{text}' gives {got!r} with diagnostics {errs}; expected the error '{want[1]}' and still {len(want[2])} bytes", construct=f"route {text}")
            continue
        if want[0] == "warning+bytes":
            warns = [e[2] for p in ps for e in p.effects if e[0] == "report" and e[1] == "warning"]
            r0 = ps[0].value[0] if len(ps) == 1 and ps[0].kind == "return" else None
            if want[1] not in warns or (bytes(r0) if isinstance(r0, (bytes, bytearray)) else getattr(r0, "value", r0)) != want[2] or ps[0].reported():
                ck.violation("compiler::Compiler.compile_insn", f"the statement '{text}' gives {r0!r} with warnings {warns}; expected the warning '{want[1]}' and the bytes {want[2]!r}", construct=f"route {text}")
            continue
        if len(ps) != 1 or ps[0].kind != "return" or ps[0].reported():
            ck.violation(where, f"the statement '{text}' does not compile on one clean path: {[(p.kind, repr(p.value)[:80], [e[2] for e in p.reported()]) for p in ps]}", construct=f"route {text}")
            continue
        r, emitted, blks = ps[0].value
        if want[0] == "emitted":
            ok = len(emitted) == 1 and emitted[0][2] == want[1] and emitted[0][3] == want[2] and r == b""
            if not ok:
                ck.violation(where, f"'{text}' in src/prog.mac registers the outputs {[(e[2], e[3]) for e in emitted]} and produces {r!r}; expected one output of format {want[1]!r} at {want[2]!r} and no bytes",
                             construct=f"route {text}")
        elif want[0] == "blocks":
            if len(blks) != want[1] or len({id(b) for b in blks}) != 1 or r != b"\xa0\x00" * want[1] or not (isinstance(blks[0], Rec) and blks[0].cls.name == "CodeBlock"):
                ck.violation(where, f"'{text}': the body is compiled {len(blks)} times ({len({id(b) for b in blks})} different blocks) giving {r!r}; expected {want[1]} compilations of the one body, concatenated", construct=f"route {text}")
        elif r != want[1] and not (hasattr(r, "value") and getattr(r, "value", None) == want[1]):
            got = bytes(r) if isinstance(r, (bytes, bytearray)) else r
            if got != want[1]:
                ck.violation(where, f"'{text}' produces {got!r}, expected {want[1]!r}", construct=f"route {text}", expected=repr(want[1]), found=repr(got))


def rule_block_route(ck):
    """Statements that are not instructions reach their compilers through Compiler.compile_block: an implicit word list
    ('1, val, 177777' on a line of its own), a constant, a label - compiled the way a file's body is, with the real methods."""
    repo = ck.repo
    I = eager_interp(repo)
    I.summaries = {"reports::emit_report": emit_report_summary}
    T = lambda n: I.module_get("types", n)
    where = "compiler::Compiler.compile_block"

    def thunk():
        sh = Shapes(I)
        comp = I.instantiate(I.module_get("compiler", "Compiler"), ["ascii"], {})
        P = I.module_get("deferred", "Promise")
        prom = I.instantiate(P, [I.builtin_types["int"], "LA"], {})
        I.call_method(prom, "settle", [0o1000])
        state = {"filename": "src/prog.mac", "context": "file", "internal_symbol_prefix": ".internal1.", "local_symbol_prefix": ".local1.", "compiler": comp,
                 "link_base": {"promise": prom, "set_where": None}, "internal_symbols_list": [], "extern_all": None, "insn": None, "emit_address": 0o1000}
        stmts = [sh.mk(T("Assignment"), None, None, sh.symbol("val"), sh.number("7", 7), False),
                 sh.mk(T("WordList"), None, None, [sh.number("1", 1), sh.symbol("val"), sh.number("177777", 0xffff)]),
                 sh.mk(T("Label"), None, None, "here", False),
                 sh.mk(T("WordList"), None, None, [sh.symbol("here")])]
        block = sh.mk(T("CodeBlock"), None, None, stmts)
        data = I.call_method(comp, "compile_block", [state, block, 0o1000])
        wait = I.module_get("deferred", "wait")
        return I.call(wait, [data], {})
    # '.' in any word of a list - implicit or '.word' - is the address of the statement (the two spellings are one statement)
    def thunk_dot():
        sh = Shapes(I)
        comp = I.instantiate(I.module_get("compiler", "Compiler"), ["ascii"], {})
        P = I.module_get("deferred", "Promise")
        prom = I.instantiate(P, [I.builtin_types["int"], "LA"], {})
        I.call_method(prom, "settle", [0o1000])
        state = {"filename": "src/prog.mac", "context": "file", "internal_symbol_prefix": ".internal1.", "local_symbol_prefix": ".local1.", "compiler": comp,
                 "link_base": {"promise": prom, "set_where": None}, "internal_symbols_list": [], "extern_all": None, "insn": None, "emit_address": 0o1000}
        ip = lambda: sh.mk(T("InstructionPointer"), None, None)
        words = lambda: [sh.number("1", 1), ip(), sh.bin("add", ip(), sh.number("2", 2))]
        stmts = [sh.mk(T("WordList"), None, None, words()),
                 sh.mk(T("Instruction"), None, None, sh.symbol(".word"), words())]
        block = sh.mk(T("CodeBlock"), None, None, stmts)
        data = I.call_method(comp, "compile_block", [state, block, 0o1000])
        return I.call(I.module_get("deferred", "wait"), [data], {})
    try:
        pd = I.explore(thunk_dot)
    except Unsupported as ex:
        raise Unknown(f"compile_block on [1, ., .+2 / .word 1, ., .+2]: {ex}") from None
    w = lambda *xs: b"".join(x.to_bytes(2, "little") for x in xs)
    want_dot = w(1, 0o1000, 0o1002) + w(1, 0o1006, 0o1010)
    ck.instance(("block-route", "dot in word lists"), {"statements": "1, ., .+2 / .word 1, ., .+2   at 1000", "result": repr(pd[0].value)[:120] if pd else None}, fn=where)
    if len(pd) != 1 or pd[0].kind != "return":
        ck.incomplete(where, "a block of [1, ., .+2 / .word 1, ., .+2]", pd)
    else:
        gd = pd[0].value
        gd = bytes(gd) if isinstance(gd, (bytes, bytearray)) else getattr(gd, "value", gd)
        if pd[0].reported() or gd != want_dot:
            ck.violation("compiler::Compiler.compile_word_list", f"'1, ., .+2' followed by '.word 1, ., .+2' at 1000 gives the words {[oct(int.from_bytes(gd[i:i+2], 'little')) for i in range(0, len(gd), 2)] if isinstance(gd, (bytes, bytearray)) else gd!r}; "
                         f"expected {[oct(int.from_bytes(want_dot[i:i+2], 'little')) for i in range(0, len(want_dot), 2)]}: in both spellings '.' is the address of the statement, for every word",
                         construct="block route: '.' in word lists", expected=repr(want_dot), found=repr(gd))
    try:
        ps = I.explore(thunk)
    except Unsupported as ex:
        raise Unknown(f"compile_block on [val = 7 / 1, val, 177777 / here: / here]: {ex}") from None
    want = b"\x01\x00\x07\x00\xff\xff" + (0o1006).to_bytes(2, "little")
    ck.instance(("block-route", "word lists"), {"statements": "val = 7 / 1, val, 177777 / here: / here   at 1000", "result": repr(ps[0].value)[:120] if ps else None}, fn=where)
    if len(ps) != 1 or ps[0].kind != "return":
        return ck.incomplete(where, "a block of [val = 7 / 1, val, 177777 / here: / here]", ps)
    got = ps[0].value
    got = bytes(got) if isinstance(got, (bytes, bytearray)) else getattr(got, "value", got)
    if ps[0].reported() or got != want:
        ck.violation(where, f"the statements 'val = 7', '1, val, 177777', 'here:', 'here' assembled at 1000 give {got!r} with diagnostics {[e[2] for e in ps[0].reported()]}; expected {want!r} "
                            "(implicit word lists: one little-endian word per value, the label is the address after the first list)", construct="block route: implicit word lists", expected=repr(want), found=repr(got))
