"""R.deliver - a diagnostic reaches the active handler at once, complete and in order.

C17: the FIRST span of a report is the culprit, later spans are notes; C07: an error marks the run as failed; C14 / C08:
an error that was emitted is never withdrawn. reports.error/warning/critical -> emit_report are executed abstractly (the
real code, no summary) with a recording handler installed by the real handle_reports."""
import ast

from ..engine.interp import Rec, ClassVal, PyFn, Raised
from ..engine.loader import Unknown
from .world import eager_interp


def rule_deliver(ck):
    repo = ck.repo
    I = eager_interp(repo)
    saved = I.summaries
    I.summaries = {k: v for k, v in saved.items() if k != "reports::emit_report"}
    where = "reports::emit_report"
    try:
        for prio in ("error", "warning", "critical"):
            for inside_try in (False, True):
                log = []

                def thunk(prio=prio, inside_try=inside_try, log=log):
                    del log[:]
                    C = I.module_get("context", "Context")
                    mk = lambda f, pos: I.instantiate(C, [f, "x\n" * 40], {})
                    z0, z1, a0, a1 = mk("z.mac", 3), mk("z.mac", 5), mk("a.mac", 0), mk("a.mac", 1)
                    h = PyFn(lambda I_, a, k: log.append(tuple(a)), "handler")
                    hr = I.instantiate(I.module_get("reports", "handle_reports"), [h], {})
                    I.call_method(hr, "__enter__", [])
                    tc = I.module_get("deferred", "try_compute")
                    spans = [(z0, z1, "culprit"), (a0, a1, "note"), (z0, z0, "second note")]
                    raised = None
                    if inside_try:
                        I.call_method(tc, "__enter__", [])
                    try:
                        I.call(I.module_get("reports", prio), ["some-id"] + spans, {})
                    except Raised as ex:
                        raised = ex.exc.name
                    seen_at_once = list(log)
                    if inside_try:
                        # the speculative attempt ends 'not ready'
                        I.call_method(tc, "__exit__", [I.module_get("deferred", "NotReadyError"), None, None])
                    flag = hr.fields.get("is_error_condition")
                    seen_later = list(log)
                    try:
                        I.call_method(hr, "__exit__", [None, None, None])
                        left = None
                    except Raised as ex:
                        left = ex.exc.name
                    return spans, seen_at_once, seen_later, flag, raised, left
                ps = I.explore(thunk)
                if len(ps) != 1 or ps[0].kind != "return":
                    raise Unknown(f"reports.{prio}: {ps}")
                spans, at_once, later, flag, raised, left = ps[0].value
                what = f"reports.{prio}" + (" inside a speculative (try_compute) evaluation that ends not-ready" if inside_try else "")
                ck.instance(("deliver", prio, inside_try), {"call": what, "handler calls": len(at_once), "error flag": flag, "raised": raised, "scope exit": left}, fn=where)
                if len(at_once) != 1:
                    ck.violation(where, f"{what}: the handler has been called {len(at_once)} times when the call returns (expected once, at once): a diagnostic that is held back can be lost, "
                                        "and the statement that emitted it has already recorded that it did", construct=f"report not delivered at once ({prio})")
                    continue
                if len(later) != 1:
                    ck.violation(where, f"{what}: {len(later)} handler calls after the speculative scope ended", construct=f"report delivered twice or withdrawn ({prio})")
                args = at_once[0]
                got = list(args[2:])
                if got != spans:
                    order = [s[2] if isinstance(s, tuple) and len(s) == 3 else repr(s)[:30] for s in got]
                    ck.violation(where, f"{what}: the handler receives the spans {order}; they were given as ['culprit', 'note', 'second note'] (file z.mac, a.mac, z.mac): the first span is the position a "
                                        "diagnostic is reported at, so reordering moves the diagnostic to another file or line", construct="report spans reordered or changed")
                if args[1] != "some-id":
                    ck.violation(where, f"{what}: the handler receives the identifier {args[1]!r}", construct="report identifier changed")
                want_flag = prio in ("error", "critical")
                if bool(flag) != want_flag:
                    ck.violation(where, f"{what}: the handler scope's error flag is {flag!r} afterwards, expected {want_flag}", construct=f"error flag after {prio}")
                if (raised == "UnrecoverableError") != (prio == "critical"):
                    ck.violation(where, f"{what}: raises {raised!r}; only a critical report aborts (UnrecoverableError)", construct=f"abort on {prio}")
                if (left == "UnrecoverableError") != want_flag:
                    ck.violation("reports::handle_reports.__exit__", f"after {what} the handler scope is left with {left!r}; an error must fail the run (UnrecoverableError), a warning must not",
                                 construct=f"scope exit after {prio}")
    finally:
        I.summaries = saved
