"""G1 - deferred thunks capture by value.

A thunk (lambda / nested def) that escapes into a Deferred/SizedDeferred constructor (or is returned / stored)
runs at an arbitrary later time. Each of its free variables must therefore be effectively final in the defining
scope from the thunk's creation on: not rebound after the creation point, and not rebound by a loop that
encloses the creation."""
import ast

from ..engine.loader import FUNC_TYPES, norm_text, walk_local, public_qual


def _params(fn):
    a = fn.args
    out = [p.arg for p in a.posonlyargs + a.args + a.kwonlyargs]
    if a.vararg:
        out.append(a.vararg.arg)
    if a.kwarg:
        out.append(a.kwarg.arg)
    return out


def bindings(fn):
    """name -> [binding nodes] in fn's own scope (parameters excluded), nonlocal names reported separately"""
    res = {}
    nonlocals = set()
    body = fn.body if isinstance(fn.body, list) else [fn.body]

    def visit(n):
        if isinstance(n, (ast.FunctionDef, ast.AsyncFunctionDef, ast.ClassDef)):
            res.setdefault(n.name, []).append(n)
            return
        if isinstance(n, ast.Lambda):
            return
        if isinstance(n, (ast.ListComp, ast.GeneratorExp, ast.SetComp, ast.DictComp)):
            # own scope for targets; the outermost iterable is evaluated outside
            return
        if isinstance(n, ast.Nonlocal):
            nonlocals.update(n.names)
        if isinstance(n, ast.Name) and isinstance(n.ctx, (ast.Store, ast.Del)):
            res.setdefault(n.id, []).append(n)
        if isinstance(n, ast.ExceptHandler) and n.name:
            res.setdefault(n.name, []).append(n)
        for c in ast.iter_child_nodes(n):
            visit(c)
    for s in body:
        visit(s)
    return res, nonlocals


def free_names(fn):
    """names read in fn (and its nested functions) that are not bound in fn itself"""
    own, nonlocals = bindings(fn)
    params = set(_params(fn))
    names = {}
    body = fn.body if isinstance(fn.body, list) else [fn.body]

    def visit(n, comp_bound):
        if isinstance(n, FUNC_TYPES) and n is not fn:
            for k, v in free_names(n).items():
                if (k not in own and k not in params and k not in comp_bound) or k in nonlocals:
                    names.setdefault(k, []).extend(v)
            return
        if isinstance(n, (ast.ListComp, ast.GeneratorExp, ast.SetComp, ast.DictComp)):
            bound = set(comp_bound)
            for g in n.generators:
                for t in ast.walk(g.target):
                    if isinstance(t, ast.Name):
                        bound.add(t.id)
            for c in ast.iter_child_nodes(n):
                visit(c, bound)
            return
        if isinstance(n, ast.Name) and isinstance(n.ctx, ast.Load):
            if (n.id not in own and n.id not in params and n.id not in comp_bound) or n.id in nonlocals:
                names.setdefault(n.id, []).append(n)
        for c in ast.iter_child_nodes(n):
            visit(c, comp_bound)
    for s in body:
        visit(s, set())
    return names


def enclosing_function(node):
    p = getattr(node, "_parent", None)
    while p is not None and not isinstance(p, FUNC_TYPES):
        p = getattr(p, "_parent", None)
    return p


def escapes(thunk):
    """How does the thunk leave its creation point? -> 'deferred' | 'returned' | 'stored' | 'call-arg' | None"""
    p = getattr(thunk, "_parent", None)
    if isinstance(thunk, ast.Lambda):
        if isinstance(p, ast.Call) and thunk in p.args + [k.value for k in p.keywords]:
            f = p.func
            if isinstance(f, ast.Call) and isinstance(f.func, ast.Subscript):
                return None
            if isinstance(f, ast.Subscript) and norm_text(f.value) in ("Deferred", "SizedDeferred"):
                return "deferred"
            return "call-arg"
        if isinstance(p, ast.Return):
            return "returned"
        if isinstance(p, (ast.Assign, ast.keyword)):
            return "stored"
        return None
    # nested def: look at uses of its name in the enclosing scope
    enc = enclosing_function(thunk)
    if enc is None:
        return None
    kinds = set()
    for n in walk_local(enc):
        if isinstance(n, ast.Name) and n.id == thunk.name and isinstance(n.ctx, ast.Load):
            q = n._parent
            if isinstance(q, ast.Call) and n in q.args:
                f = q.func
                if isinstance(f, ast.Subscript) and norm_text(f.value) in ("Deferred", "SizedDeferred"):
                    kinds.add("deferred")
                else:
                    kinds.add("call-arg")
            elif isinstance(q, ast.Call) and q.func is n:
                kinds.add("called")
            elif isinstance(q, ast.Return):
                kinds.add("returned")
            else:
                kinds.add("stored")
    for k in ("deferred", "returned", "stored", "call-arg"):
        if k in kinds:
            return k
    return None


def inside_loop_of(node, scope):
    p = node
    while p is not scope and p is not None:
        if isinstance(p, (ast.For, ast.While)):
            return p
        p = getattr(p, "_parent", None)
    return None


def loop_rebinds(loop, name):
    for n in ast.walk(loop):
        if isinstance(n, ast.Name) and n.id == name and isinstance(n.ctx, ast.Store):
            # skip stores inside nested functions unless nonlocal
            f = enclosing_function(n)
            lf = enclosing_function(loop)
            if f is lf:
                return True
            # nested function with nonlocal declaration
            if f is not None:
                for m in ast.walk(f):
                    if isinstance(m, ast.Nonlocal) and name in m.names:
                        return True
    return False


def position(node):
    return (getattr(node, "lineno", 0), getattr(node, "col_offset", 0))


def analyse(repo):
    """-> list of dicts: {thunk, qual, kind, captured: [(name, scope_fn, reason)]}"""
    out = []
    for qual, thunk in repo.all_functions():
        enc = enclosing_function(thunk)
        if enc is None:
            continue
        kind = escapes(thunk)
        if kind not in ("deferred", "returned", "stored"):
            continue
        fl = free_names(thunk)
        bad = []
        scope = enc
        resolved = set()
        while scope is not None:
            b, nl = bindings(scope)
            params = set(_params(scope))
            for name in sorted(fl):
                if name in resolved:
                    continue
                if name in nl:
                    continue   # belongs to an outer scope
                if name in b or name in params:
                    resolved.add(name)
                binds = list(b.get(name, []))
                if name not in b and name not in params:
                    continue
                # stores from nested functions via nonlocal
                extra = []
                for n in ast.walk(scope):
                    if isinstance(n, FUNC_TYPES) and n is not scope:
                        nb, nnl = bindings(n)
                        if name in nnl:
                            extra += nb.get(name, [])
                allb = binds + extra
                if not allb:
                    continue  # parameter never rebound
                created = position(thunk)
                later = [x for x in allb if position(x) > created]
                loop = inside_loop_of(thunk, scope)
                in_loop = loop is not None and (loop_rebinds(loop, name) or (isinstance(loop, ast.For) and any(isinstance(t, ast.Name) and t.id == name for t in ast.walk(loop.target))))
                n_binds = len(allb) + (1 if name in params else 0)
                if (later and n_binds > 1) or in_loop:
                    # a def/lambda name bound once and called later is fine
                    if all(isinstance(x, (ast.FunctionDef, ast.ClassDef)) for x in allb) and len(allb) == 1:
                        continue
                    bad.append((name, repo.enclosing_scope_qual(scope) if scope is not enc else repo.qual(scope),
                                "rebound by the enclosing loop" if in_loop else f"rebound after the thunk is created (line {position(later[0])[0]})"))
            scope = enclosing_function(scope)
        out.append({"thunk": thunk, "qual": qual, "kind": kind, "captured": sorted(fl), "bad": bad})
    return out


def rule_G1(ck, rule_name="G1"):
    res = analyse(ck.repo)
    for r in res:
        ck.instance(("thunk", r["qual"]), {"thunk": r["qual"], "escapes as": r["kind"], "free variables": r["captured"][:8]}, fn=r["qual"])
        if r["bad"]:
            names = ", ".join(f"'{n}' of {s.split('::')[1]} ({why})" for n, s, why in r["bad"])
            ck.violation(r["thunk"], f"a lazily evaluated thunk reads {names}: when it finally runs it sees the value left by statements compiled after it, not the value at its own statement",
                         construct="thunk captures " + ",".join(sorted({n for n, _, _ in r["bad"]})))
    rule_G1_state(ck)


# ---------------------------------------------------------------------------------------------------------------
# G1 (second half): the per-statement state mapping is captured by thunks, so it is never updated in place
STATE_MODULES = ("compiler", "insns", "metacommands", "metacommand_impl", "operators", "types", "builtins")
MUTATORS = ("update", "pop", "setdefault", "clear", "popitem", "__setitem__", "__delitem__")
STATE_EXCEPTIONS = {
    ("metacommands::extern", "extern_all"): "'.extern all' is a per-file switch read eagerly by the statements that follow it (compile_label / compile_assignment), "
                                            "never from a thunk: updating the file's own state is its purpose",
}


def _is_state_name(name):
    return name == "state" or name.endswith("_state") or name.startswith("state_")


def _derives_from_state(value, known):
    """dict(state) / state.copy() / {**state, ...} / dict(state, k=v): a (shallow) copy of a state mapping"""
    if isinstance(value, ast.Call):
        f = value.func
        if isinstance(f, ast.Name) and f.id == "dict" and value.args and isinstance(value.args[0], ast.Name) and value.args[0].id in known:
            return True
        if isinstance(f, ast.Attribute) and f.attr == "copy" and isinstance(f.value, ast.Name) and f.value.id in known:
            return True
    if isinstance(value, ast.Dict):
        return any(k is None and isinstance(v, ast.Name) and v.id in known for k, v in zip(value.keys, value.values))
    return False


def state_mutations(repo):
    """-> (functions looked at, [(qual, node, name, key text)])"""
    looked, out = 0, []
    for q, fn in repo.all_functions():
        if q.split("::")[0] not in STATE_MODULES:
            continue
        known = {p for p in _params(fn) if _is_state_name(p)}
        # free 'state' of nested functions belongs to the enclosing function's mapping too
        known |= {n for n in free_names(fn) if _is_state_name(n)}
        own = {}      # locally created copies: name -> [assignments]
        changed = True
        while changed:
            changed = False
            for n in walk_local(fn):
                if isinstance(n, ast.Assign) and len(n.targets) == 1 and isinstance(n.targets[0], ast.Name) \
                        and (_derives_from_state(n.value, known) or (isinstance(n.value, ast.Name) and n.value.id in known)):
                    nm = n.targets[0].id
                    if nm not in known:
                        known.add(nm)
                        changed = True
                    if _derives_from_state(n.value, known) and n not in own.setdefault(nm, []):
                        own[nm].append(n)
        if not known:
            continue
        looked += 1
        for n in walk_local(fn):
            tgt = None
            if isinstance(n, (ast.Assign, ast.AugAssign, ast.AnnAssign, ast.Delete)):
                targets = n.targets if isinstance(n, (ast.Assign, ast.Delete)) else [n.target]
                for t in targets:
                    for tt in (t.elts if isinstance(t, (ast.Tuple, ast.List)) else [t]):
                        if isinstance(tt, ast.Subscript) and isinstance(tt.value, ast.Name) and tt.value.id in known:
                            tgt = (tt.value.id, norm_text(tt.slice))
            elif isinstance(n, ast.Call) and isinstance(n.func, ast.Attribute) and n.func.attr in MUTATORS and isinstance(n.func.value, ast.Name) and n.func.value.id in known:
                tgt = (n.func.value.id, n.func.attr + "()")
            if tgt and not _fresh_fill(fn, tgt[0], n, own):
                out.append((q, n, tgt[0], tgt[1]))
    return looked, out


def _innermost_loop(node, fn):
    p = getattr(node, "_parent", None)
    while p is not None and p is not fn:
        if isinstance(p, (ast.For, ast.While)):
            return p
        p = getattr(p, "_parent", None)
    return None


def _fresh_fill(fn, name, mutation, own):
    """the mapping was copied in this function, in the same loop iteration, and has not been handed to anyone between the copy and this update"""
    creations = own.get(name)
    if not creations:
        return False          # a parameter / captured mapping: somebody else holds it
    before = [c for c in creations if position(c) < position(mutation)]
    if not before or _innermost_loop(before[-1], fn) is not _innermost_loop(mutation, fn):
        return False
    start, end = position(before[-1]), position(mutation)
    for n in ast.walk(fn):
        if isinstance(n, ast.Name) and n.id == name and isinstance(n.ctx, ast.Load) and start < position(n) < end:
            par = n._parent
            if isinstance(par, ast.Subscript) and par.value is n:
                continue      # reading or writing one of its own keys
            if mutation in _ancestors(n):
                continue
            return False      # passed on, captured or aliased before this update
    return True


def _ancestors(n):
    out = []
    p = getattr(n, "_parent", None)
    while p is not None:
        out.append(p)
        p = getattr(p, "_parent", None)
    return out


def rule_G1_state(ck):
    looked, muts = state_mutations(ck.repo)
    ck.instance("state-holders", {"functions holding a state mapping": looked, "in-place updates found": len(muts)})
    for q, n, name, key in muts:
        why = STATE_EXCEPTIONS.get((public_qual(q), key.strip("'\"")))
        ck.instance(("state-update", q, name, key), {"function": q, "update": norm_text(n)[:80], "verdict": "exception: " + why if why else "in-place update"}, fn=q)
        if why:
            continue
        ck.violation(n, f"the state mapping '{name}' is updated in place ({norm_text(n)[:60]}): lazily evaluated thunks created earlier hold a reference to this mapping and read it when they finally run "
                        "(state['rel_address'], state['emit_address'], ...), so they see the value written for a LATER operand or statement; every statement and operand gets its own copy "
                        "({**state, key: value})", construct=f"in-place update of {name}[{key}]")
    if looked < 20:
        ck.unknown(f"only {looked} functions holding a state mapping were found (over 40 confirmed by hand)")
