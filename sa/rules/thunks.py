"""G1 - deferred thunks capture by value.

A thunk (lambda / nested def) that escapes into a Deferred/SizedDeferred constructor (or is returned / stored)
runs at an arbitrary later time. Each of its free variables must therefore be effectively final in the defining
scope from the thunk's creation on: not rebound after the creation point, and not rebound by a loop that
encloses the creation."""
import ast

from ..engine.loader import FUNC_TYPES, norm_text, walk_local


def _params(fn):
    a = fn.args
    out = [p.arg for p in a.posonlyargs + a.args + a.kwonlyargs]
    if a.vararg:
        out.append(a.vararg.arg)
    if a.kwarg:
        out.append(a.kwarg.arg)
    return out


def bindings(fn):
    """name -> [binding nodes] in fn's own scope (parameters excluded), nonlocal names reported separately"""
    res = {}
    nonlocals = set()
    body = fn.body if isinstance(fn.body, list) else [fn.body]

    def visit(n):
        if isinstance(n, (ast.FunctionDef, ast.AsyncFunctionDef, ast.ClassDef)):
            res.setdefault(n.name, []).append(n)
            return
        if isinstance(n, ast.Lambda):
            return
        if isinstance(n, (ast.ListComp, ast.GeneratorExp, ast.SetComp, ast.DictComp)):
            # own scope for targets; the outermost iterable is evaluated outside
            return
        if isinstance(n, ast.Nonlocal):
            nonlocals.update(n.names)
        if isinstance(n, ast.Name) and isinstance(n.ctx, (ast.Store, ast.Del)):
            res.setdefault(n.id, []).append(n)
        if isinstance(n, ast.ExceptHandler) and n.name:
            res.setdefault(n.name, []).append(n)
        for c in ast.iter_child_nodes(n):
            visit(c)
    for s in body:
        visit(s)
    return res, nonlocals


def free_names(fn):
    """names read in fn (and its nested functions) that are not bound in fn itself"""
    own, nonlocals = bindings(fn)
    params = set(_params(fn))
    names = {}
    body = fn.body if isinstance(fn.body, list) else [fn.body]

    def visit(n, comp_bound):
        if isinstance(n, FUNC_TYPES) and n is not fn:
            for k, v in free_names(n).items():
                if (k not in own and k not in params and k not in comp_bound) or k in nonlocals:
                    names.setdefault(k, []).extend(v)
            return
        if isinstance(n, (ast.ListComp, ast.GeneratorExp, ast.SetComp, ast.DictComp)):
            bound = set(comp_bound)
            for g in n.generators:
                for t in ast.walk(g.target):
                    if isinstance(t, ast.Name):
                        bound.add(t.id)
            for c in ast.iter_child_nodes(n):
                visit(c, bound)
            return
        if isinstance(n, ast.Name) and isinstance(n.ctx, ast.Load):
            if (n.id not in own and n.id not in params and n.id not in comp_bound) or n.id in nonlocals:
                names.setdefault(n.id, []).append(n)
        for c in ast.iter_child_nodes(n):
            visit(c, comp_bound)
    for s in body:
        visit(s, set())
    return names


def enclosing_function(node):
    p = getattr(node, "_parent", None)
    while p is not None and not isinstance(p, FUNC_TYPES):
        p = getattr(p, "_parent", None)
    return p


def escapes(thunk):
    """How does the thunk leave its creation point? -> 'deferred' | 'returned' | 'stored' | 'call-arg' | None"""
    p = getattr(thunk, "_parent", None)
    if isinstance(thunk, ast.Lambda):
        if isinstance(p, ast.Call) and thunk in p.args + [k.value for k in p.keywords]:
            f = p.func
            if isinstance(f, ast.Call) and isinstance(f.func, ast.Subscript):
                return None
            if isinstance(f, ast.Subscript) and norm_text(f.value) in ("Deferred", "SizedDeferred"):
                return "deferred"
            return "call-arg"
        if isinstance(p, ast.Return):
            return "returned"
        if isinstance(p, (ast.Assign, ast.keyword)):
            return "stored"
        return None
    # nested def: look at uses of its name in the enclosing scope
    enc = enclosing_function(thunk)
    if enc is None:
        return None
    kinds = set()
    for n in walk_local(enc):
        if isinstance(n, ast.Name) and n.id == thunk.name and isinstance(n.ctx, ast.Load):
            q = n._parent
            if isinstance(q, ast.Call) and n in q.args:
                f = q.func
                if isinstance(f, ast.Subscript) and norm_text(f.value) in ("Deferred", "SizedDeferred"):
                    kinds.add("deferred")
                else:
                    kinds.add("call-arg")
            elif isinstance(q, ast.Call) and q.func is n:
                kinds.add("called")
            elif isinstance(q, ast.Return):
                kinds.add("returned")
            else:
                kinds.add("stored")
    for k in ("deferred", "returned", "stored", "call-arg"):
        if k in kinds:
            return k
    return None


def inside_loop_of(node, scope):
    p = node
    while p is not scope and p is not None:
        if isinstance(p, (ast.For, ast.While)):
            return p
        p = getattr(p, "_parent", None)
    return None


def loop_rebinds(loop, name):
    for n in ast.walk(loop):
        if isinstance(n, ast.Name) and n.id == name and isinstance(n.ctx, ast.Store):
            # skip stores inside nested functions unless nonlocal
            f = enclosing_function(n)
            lf = enclosing_function(loop)
            if f is lf:
                return True
            # nested function with nonlocal declaration
            if f is not None:
                for m in ast.walk(f):
                    if isinstance(m, ast.Nonlocal) and name in m.names:
                        return True
    return False


def position(node):
    return (getattr(node, "lineno", 0), getattr(node, "col_offset", 0))


def analyse(repo):
    """-> list of dicts: {thunk, qual, kind, captured: [(name, scope_fn, reason)]}"""
    out = []
    for qual, thunk in repo.all_functions():
        enc = enclosing_function(thunk)
        if enc is None:
            continue
        kind = escapes(thunk)
        if kind not in ("deferred", "returned", "stored"):
            continue
        fl = free_names(thunk)
        bad = []
        scope = enc
        resolved = set()
        while scope is not None:
            b, nl = bindings(scope)
            params = set(_params(scope))
            for name in sorted(fl):
                if name in resolved:
                    continue
                if name in nl:
                    continue   # belongs to an outer scope
                if name in b or name in params:
                    resolved.add(name)
                binds = list(b.get(name, []))
                if name not in b and name not in params:
                    continue
                # stores from nested functions via nonlocal
                extra = []
                for n in ast.walk(scope):
                    if isinstance(n, FUNC_TYPES) and n is not scope:
                        nb, nnl = bindings(n)
                        if name in nnl:
                            extra += nb.get(name, [])
                allb = binds + extra
                if not allb:
                    continue  # parameter never rebound
                created = position(thunk)
                later = [x for x in allb if position(x) > created]
                loop = inside_loop_of(thunk, scope)
                in_loop = loop is not None and (loop_rebinds(loop, name) or (isinstance(loop, ast.For) and any(isinstance(t, ast.Name) and t.id == name for t in ast.walk(loop.target))))
                n_binds = len(allb) + (1 if name in params else 0)
                if (later and n_binds > 1) or in_loop:
                    # a def/lambda name bound once and called later is fine
                    if all(isinstance(x, (ast.FunctionDef, ast.ClassDef)) for x in allb) and len(allb) == 1:
                        continue
                    bad.append((name, repo.enclosing_scope_qual(scope) if scope is not enc else repo.qual(scope),
                                "rebound by the enclosing loop" if in_loop else f"rebound after the thunk is created (line {position(later[0])[0]})"))
            scope = enclosing_function(scope)
        out.append({"thunk": thunk, "qual": qual, "kind": kind, "captured": sorted(fl), "bad": bad})
    return out


def rule_G1(ck, rule_name="G1"):
    res = analyse(ck.repo)
    for r in res:
        ck.instance(("thunk", r["qual"]), {"thunk": r["qual"], "escapes as": r["kind"], "free variables": r["captured"][:8]}, fn=r["qual"])
        if r["bad"]:
            names = ", ".join(f"'{n}' of {s.split('::')[1]} ({why})" for n, s, why in r["bad"])
            ck.violation(r["thunk"], f"a lazily evaluated thunk reads {names}: when it finally runs it sees the value left by statements compiled after it, not the value at its own statement",
                         construct="thunk captures " + ",".join(sorted({n for n, _, _ in r["bad"]})))
