"""Abstract execution of one directive (Metacommand.compile_insn) in the eager world."""
from ..engine import sym
from ..engine.interp import Rec, SymBytes, PyFn
from ..engine.loader import Unknown
from ..engine.sym import is_sym
from .world import STATE, DOT, Shapes, eager_interp, metacommand


def G(x, bits, unsigned, default=None):
    """normal form of get_as_int(x, bitness=bits, unsigned=unsigned)"""
    return sym.op("get_as_int", x, bits, unsigned, default)


def run_directive(repo, name, n_operands=0, build=None, dot_cell=True, opaque_int=True, extra=None, cellvars=()):
    """-> (paths, I). build(sh, I) -> list of operand tokens (default: n generic int expressions X0..)"""
    I = eager_interp(repo, opaque_get_as_int=opaque_int, extra=extra)
    if dot_cell:
        I.add_cell(DOT)
    for cv in cellvars:
        I.cellvars[cv[0]] = cv[1]

    def thunk():
        sh = Shapes(I)
        cmd = metacommand(I, name)
        if build is not None:
            operands = build(sh, I)
        else:
            operands = [sh.xexpr(sym.var(f"X{j}", "int"), f"X{j}") for j in range(n_operands)]
        tok = I.instantiate(I.module_get("types", "Instruction"), [None, None, sh.symbol(name), operands], {})
        tok.fields["ctx_start"] = sym.var("insn.ctx_start", "obj")
        tok.fields["ctx_end"] = sym.var("insn.ctx_end", "obj")
        r = I.call_method(cmd, "compile_insn", [STATE, tok])
        return r
    paths = I.explore(thunk)
    return paths, I


def unwrap(v):
    """-> (announced size or None, value)"""
    if isinstance(v, SymBytes):
        v = v.value
    if is_sym(v) and v[:2] == ("op", "sized"):
        val = v[3]
        if isinstance(val, SymBytes):
            val = val.value
        return v[2], val
    return None, v
