"""./check <ID> [--tier quick|thorough] [--replay path]"""
import argparse
import importlib
import json
import os
import sys
import traceback

from .engine.loader import Repo, AnalysisError
from .report import Checker, finish

PROPS = [f"C{i:02d}" for i in range(1, 20)]


def run_property(prop, tier, seed, quiet=False, root=None):
    repo = Repo(root)
    ck = Checker(prop, repo, tier)
    mod = importlib.import_module(f"sa.props.{prop.lower()}")
    mod.run(ck)
    if tier == "thorough":
        if hasattr(mod, "run_thorough"):
            mod.run_thorough(ck)
        sensitivity(ck, prop, root)
    return finish(ck, seed=seed, level="other", explanation=mod.EXPLANATION,
                  assumptions=getattr(mod, "ASSUMPTIONS", ()), trusted_base=getattr(mod, "TRUSTED", ()), quiet=quiet)


def _sens_one(args):
    import sys as _s
    _s.path.insert(0, os.path.join(os.path.dirname(os.path.abspath(__file__)), "..", "selftest"))
    import mut
    prop, file, old, new, rule, root = args
    res = mut.run([prop], file, old, new, repo=root or os.environ.get("VERIF_REPO", "/repo"))
    if res and res[0][0] == "EDIT-FAILED":
        return (file, old[:40], rule, "skipped: " + res[0][1][:60])
    _, code, lines = res[0]
    fired = sorted({l.strip().split("]")[0][1:] for l in lines if l.strip().startswith("[")})
    return (file, old[:40], rule, f"exit {code} {fired[:4]}")


def sensitivity(ck, prop, root):
    """Thorough tier: apply every catalogue edit for this property to a scratch copy of the CURRENT tree and record which
    rules report it. Never changes the verdict; an edit whose anchor is absent on an edited tree is skipped."""
    import concurrent.futures
    sys.path.insert(0, os.path.join(os.path.dirname(os.path.abspath(__file__)), "..", "selftest"))
    import catalogue
    entries = [e + (root,) for e in catalogue.M if e[0] == prop]
    log = ck.rule("sensitivity", "seeded single-site edits of the current tree and the rules that report them (informational)", 0)
    # independently authored changes under /verif/seeded/<id>/ that target this property
    import glob, json as _json, shutil, subprocess, tempfile
    verif = os.path.join(os.path.dirname(os.path.abspath(__file__)), "..")
    todo = []
    for d in sorted(glob.glob(os.path.join(verif, "seeded", "*"))):
        try:
            meta = _json.load(open(os.path.join(d, "meta.json")))
        except Exception:
            continue
        if meta.get("property") != prop:
            continue
        todo.append((d, meta))

    def one_seed(dm):
        d, meta = dm
        tmp = tempfile.mkdtemp(prefix="sa-seed-")
        try:
            shutil.copytree(os.path.join(root or os.environ.get("VERIF_REPO", "/repo"), "pdpy11"), os.path.join(tmp, "pdpy11"))
            r = subprocess.run(["patch", "-p1", "-s", "-i", os.path.join(d, "patch.diff")], cwd=tmp, capture_output=True, text=True)
            if r.returncode:
                outcome = "skipped: patch does not apply to the current tree"
            else:
                c = subprocess.run([os.path.join(verif, "check"), prop, "--repo", tmp], capture_output=True, text=True, env={**os.environ, "SA_NO_EVIDENCE": "1"})
                fired = sorted({l.strip().split("]")[0][1:] for l in c.stdout.splitlines() if l.startswith("  [")})
                outcome = f"exit {c.returncode} {fired[:4]}"
        finally:
            shutil.rmtree(tmp, ignore_errors=True)
        return d, meta, outcome
    with concurrent.futures.ThreadPoolExecutor(8) as tex:
        seed_results = list(tex.map(one_seed, todo))
    for d, meta, outcome in seed_results:
        ck.instance(("independent", os.path.basename(d)), {"independently seeded change": os.path.basename(d), "summary": meta.get("summary", "")[:160], "outcome": outcome})
        if not (outcome.startswith("exit 1") or outcome.startswith("skipped")):
            ck.note(f"sensitivity: independently seeded change {os.path.basename(d)} is not reported by this property's check: {outcome}")
    if not entries:
        return
    with concurrent.futures.ProcessPoolExecutor(min(16, len(entries))) as ex:
        for file, old, rule, outcome in ex.map(_sens_one, entries):
            ck.instance(("seeded", file, old, rule), {"edit in": file, "at": old, "expected rule": rule, "outcome": outcome})
            expect_silent = rule is None
            ok = (expect_silent and outcome.startswith("exit 0")) or (not expect_silent and outcome.startswith("exit 1") and any(f.startswith(rule) for f in eval(outcome[7:]) )) or outcome.startswith("skipped")
            if not ok:
                ck.note(f"sensitivity: edit in {file} at {old!r} expected {rule}: {outcome}")


def main(argv=None):
    # the interpreter spends about a dozen host frames per interpreted call; its own depth limit (interp.MAX_DEPTH) must be the one that fires
    sys.setrecursionlimit(max(sys.getrecursionlimit(), 6000))
    ap = argparse.ArgumentParser(prog="check")
    ap.add_argument("prop")
    ap.add_argument("--tier", default=os.environ.get("VERIF_TIER", "quick"), choices=["quick", "thorough"])
    ap.add_argument("--replay")
    ap.add_argument("--repo", default=None)
    args = ap.parse_args(argv)
    seed = int(os.environ.get("VERIF_SEED", "0") or 0)
    prop = args.prop.upper()
    if prop not in PROPS:
        print(f"unknown property {prop}")
        return 2
    try:
        if args.replay:
            data = json.load(open(args.replay))
            code = run_property(prop, args.tier, seed, quiet=True, root=args.repo)
            ev = json.load(open(os.path.join(os.path.dirname(__file__), "..", "evidence", f"{prop}.json")))
            hit = None
            for r in ev["coverage"]["rules"]:
                for f in r["findings"]:
                    if (f["rule"], f["where"], f["construct"]) == (data["rule"], data["where"], data["construct"]):
                        hit = f
            if hit:
                print(f"REPRODUCED [{hit['rule']}] {hit['where']}: {hit['message']}\n   construct: {hit['construct']}")
                return 1
            print("no longer reproduces on the current tree")
            return 0
        return run_property(prop, args.tier, seed, root=args.repo)
    except AnalysisError as ex:
        print(f"ANALYSIS-ERROR property={prop}: {ex}")
        return 2
    except Exception:
        print(f"ANALYSIS-ERROR property={prop}: checker crashed")
        traceback.print_exc()
        return 2
