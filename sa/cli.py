"""./check <ID> [--tier quick|thorough] [--replay path]"""
import argparse
import importlib
import json
import os
import sys
import traceback

from .engine.loader import Repo, AnalysisError
from .report import Checker, finish

PROPS = [f"C{i:02d}" for i in range(1, 20)]


def run_property(prop, tier, seed, quiet=False, root=None):
    repo = Repo(root)
    ck = Checker(prop, repo, tier)
    mod = importlib.import_module(f"sa.props.{prop.lower()}")
    mod.run(ck)
    if tier == "thorough" and hasattr(mod, "run_thorough"):
        mod.run_thorough(ck)
    return finish(ck, seed=seed, level="other", explanation=mod.EXPLANATION,
                  assumptions=getattr(mod, "ASSUMPTIONS", ()), trusted_base=getattr(mod, "TRUSTED", ()), quiet=quiet)


def main(argv=None):
    ap = argparse.ArgumentParser(prog="check")
    ap.add_argument("prop")
    ap.add_argument("--tier", default=os.environ.get("VERIF_TIER", "quick"), choices=["quick", "thorough"])
    ap.add_argument("--replay")
    ap.add_argument("--repo", default=None)
    args = ap.parse_args(argv)
    seed = int(os.environ.get("VERIF_SEED", "0") or 0)
    prop = args.prop.upper()
    if prop not in PROPS:
        print(f"unknown property {prop}")
        return 2
    try:
        if args.replay:
            data = json.load(open(args.replay))
            code = run_property(prop, args.tier, seed, quiet=True, root=args.repo)
            ev = json.load(open(os.path.join(os.path.dirname(__file__), "..", "evidence", f"{prop}.json")))
            hit = None
            for r in ev["coverage"]["rules"]:
                for f in r["findings"]:
                    if (f["rule"], f["where"], f["construct"]) == (data["rule"], data["where"], data["construct"]):
                        hit = f
            if hit:
                print(f"REPRODUCED [{hit['rule']}] {hit['where']}: {hit['message']}\n   construct: {hit['construct']}")
                return 1
            print("no longer reproduces on the current tree")
            return 0
        return run_property(prop, args.tier, seed, root=args.repo)
    except AnalysisError as ex:
        print(f"ANALYSIS-ERROR property={prop}: {ex}")
        return 2
    except Exception:
        print(f"ANALYSIS-ERROR property={prop}: checker crashed")
        traceback.print_exc()
        return 2
