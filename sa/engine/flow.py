"""E6: structured must-dataflow. The repo has no goto-like control flow, so a syntax-directed forward analysis over
if/for/while/try/with/return/raise/continue/break computes the facts that hold on *all* paths reaching a statement."""
import ast

from .loader import FUNC_TYPES

TOP = None   # "unreachable": identity of the meet


def meet(a, b):
    if a is TOP:
        return b
    if b is TOP:
        return a
    return a & b


class MustFlow:
    """gen(node) -> set of facts established by evaluating an *expression statement / test* node (no nested bodies).
    After run(fn), `before[id(stmt)]` is the set of facts that hold whenever stmt starts executing."""

    def __init__(self, gen, kill=None, test_facts=None):
        self.gen = gen
        self.kill = kill or (lambda node: set())
        self.test_facts = test_facts or (lambda test: (set(), set()))
        self.before = {}
        self.expr_before = {}

    def run(self, fn, initial=frozenset()):
        body = fn.body if isinstance(fn.body, list) else [ast.Expr(fn.body)]
        self.loop_stack = []
        out = self.block(body, frozenset(initial))
        return out

    def facts_of_expr(self, node, facts):
        """facts after evaluating expression node (left-to-right, calls generate)"""
        if node is None:
            return facts
        self.expr_before[id(node)] = facts
        g = set()
        k = set()
        for n in self._walk_expr(node):
            self.expr_before.setdefault(id(n), facts)
            g |= self.gen(n)
            k |= self.kill(n)
        return frozenset((facts - k) | g)

    def _walk_expr(self, node):
        stack = [node]
        while stack:
            n = stack.pop()
            yield n
            if isinstance(n, FUNC_TYPES):
                continue
            stack.extend(ast.iter_child_nodes(n))

    def block(self, stmts, facts):
        for s in stmts:
            if facts is TOP:
                self.before[id(s)] = TOP
                continue
            facts = self.stmt(s, facts)
        return facts

    def stmt(self, s, facts):
        self.before[id(s)] = facts
        if isinstance(s, (ast.FunctionDef, ast.AsyncFunctionDef, ast.ClassDef)):
            return facts
        if isinstance(s, ast.If):
            f = self.facts_of_expr(s.test, facts)
            pos, neg = self.test_facts(s.test)
            a = self.block(s.body, frozenset(f | pos))
            b = self.block(s.orelse, frozenset(f | neg))
            return meet(a, b)
        if isinstance(s, (ast.For, ast.AsyncFor)):
            f = self.facts_of_expr(s.iter, facts)
            self.loop_stack.append([])
            body_out = self.block(s.body, f)
            breaks = self.loop_stack.pop()
            out = f   # zero iterations
            out = meet(out, body_out)
            if s.orelse:
                out = self.block(s.orelse, out)
            for b in breaks:
                out = meet(out, b)
            return out
        if isinstance(s, ast.While):
            f = self.facts_of_expr(s.test, facts)
            pos, neg = self.test_facts(s.test)
            self.loop_stack.append([])
            body_out = self.block(s.body, frozenset(f | pos))
            breaks = self.loop_stack.pop()
            infinite = isinstance(s.test, ast.Constant) and bool(s.test.value)
            out = TOP if infinite else meet(f, body_out)
            if s.orelse and not infinite:
                out = self.block(s.orelse, out)
            for b in breaks:
                out = meet(out, b)
            return out
        if isinstance(s, ast.Try):
            body_out = self.block(s.body, facts)
            else_out = self.block(s.orelse, body_out) if s.orelse else body_out
            out = else_out
            for h in s.handlers:
                # an exception may strike anywhere in the body: only the facts before the try are certain
                out = meet(out, self.block(h.body, facts))
            if s.finalbody:
                out = self.block(s.finalbody, out if out is not TOP else facts)
            return out
        if isinstance(s, (ast.With, ast.AsyncWith)):
            f = facts
            for it in s.items:
                f = self.facts_of_expr(it.context_expr, f)
            return self.block(s.body, f)
        if isinstance(s, ast.Return):
            f = self.facts_of_expr(s.value, facts)
            if getattr(self, "ret_facts", None) is not None:
                self.ret_facts.append(f)
            return TOP
        if isinstance(s, ast.Raise):
            self.facts_of_expr(s.exc, facts)
            return TOP
        if isinstance(s, ast.Continue):
            if getattr(self, "cont_stack", None):
                self.cont_stack[-1].append(facts)
            return TOP
        if isinstance(s, ast.Break):
            if self.loop_stack:
                self.loop_stack[-1].append(facts)
            return TOP
        if isinstance(s, ast.Assert):
            return self.facts_of_expr(s.test, facts)
        # simple statements
        f = facts
        for child in ast.iter_child_nodes(s):
            if isinstance(child, ast.expr):
                f = self.facts_of_expr(child, f)
        k = self.kill(s)
        g = self.gen(s)
        return frozenset((f - k) | g)


def exit_facts(fn, gen):
    """facts established on EVERY path from entry of fn to a normal exit (return or end of body); TOP if it never returns normally"""
    mf = MustFlow(gen)
    mf.ret_facts = []
    out = mf.run(fn)
    for r in mf.ret_facts:
        out = meet(out, r)
    return out


def back_edge_facts(loop, gen):
    """facts that hold on EVERY path through the body of `loop` that reaches the back edge (normal end of the body or a
    `continue` of this loop); TOP when no path does (the body always leaves the loop)"""
    mf = MustFlow(gen)
    mf.loop_stack = [[]]
    mf.cont_stack = [[]]
    real_stmt = mf.stmt

    def stmt(s, facts):
        if isinstance(s, (ast.For, ast.AsyncFor, ast.While)):
            mf.cont_stack.append([])       # a nested loop's `continue` is not ours
            try:
                return real_stmt(s, facts)
            finally:
                mf.cont_stack.pop()
        return real_stmt(s, facts)
    mf.stmt = stmt
    out = mf.block(loop.body, frozenset())
    for c in mf.cont_stack[0]:
        out = meet(out, c)
    return out


def call_name(node):
    if not isinstance(node, ast.Call):
        return None
    f = node.func
    if isinstance(f, ast.Name):
        return f.id
    if isinstance(f, ast.Attribute):
        return f.attr
    return None


def facts_before(fn, target, gen, kill=None, test_facts=None):
    """facts holding on all paths when `target` (a statement or an expression inside fn) starts"""
    mf = MustFlow(gen, kill, test_facts)
    mf.run(fn)
    if id(target) in mf.before:
        return mf.before[id(target)]
    if id(target) in mf.expr_before:
        return mf.expr_before[id(target)]
    # find the enclosing statement
    p = target
    while p is not None and id(p) not in mf.before and id(p) not in mf.expr_before:
        p = getattr(p, "_parent", None)
    if p is None:
        return TOP
    return mf.before.get(id(p), mf.expr_before.get(id(p)))
