"""E5 (light): name-based call graph used for reachability from the assembly entry points."""
import ast

from .loader import FUNC_TYPES, walk_local

ENTRIES = ["parser::parse", "compiler::Compiler.compile_and_link_files", "compiler::Compiler.emit_files", "compiler::Compiler.generate_listing"]
REGISTRY_DECORATORS = {"metacommand", "operator", "Parser", "file_format"}


def build(repo):
    by_name = {}
    for q, fn in repo.all_functions():
        name = q.split("::")[1].split(".")[-1]
        by_name.setdefault(name, []).append(q)
    edges = {}
    for q, fn in repo.all_functions():
        out = set()
        for n in walk_local(fn):
            if isinstance(n, ast.Call):
                f = n.func
                nm = f.id if isinstance(f, ast.Name) else f.attr if isinstance(f, ast.Attribute) else None
                if nm:
                    out.update(by_name.get(nm, []))
                    # class instantiation -> __init__ / __new__
                    for cq, c in repo.all_classes():
                        if cq.split("::")[1].split(".")[-1] == nm:
                            for m in ("__init__", "__new__", "construct"):
                                fm = repo.find_method(cq, m)
                                if fm:
                                    out.add(fm)
                if isinstance(f, ast.Subscript):     # Deferred[T](thunk): construct -> wait -> thunk
                    out.update(by_name.get("construct", []))
            if isinstance(n, FUNC_TYPES) and n is not fn:
                out.add(repo.qual(n))       # nested functions / lambdas run sooner or later
            if isinstance(n, ast.With):
                out.update(by_name.get("__enter__", []))
                out.update(by_name.get("__exit__", []))
            if isinstance(n, (ast.BinOp, ast.UnaryOp, ast.Compare, ast.Subscript)):
                pass
        edges[q] = out
    # dunder methods are reached through operators on repo objects
    dunders = [q for q, _ in repo.all_functions() if q.split(".")[-1].startswith("__") and q.split(".")[-1] not in ("__init__", "__new__")]
    registry = []
    for q, fn in repo.all_functions():
        if isinstance(fn, ast.FunctionDef):
            for d in fn.decorator_list:
                dn = d.func if isinstance(d, ast.Call) else d
                nm = dn.id if isinstance(dn, ast.Name) else dn.attr if isinstance(dn, ast.Attribute) else None
                if nm in REGISTRY_DECORATORS:
                    registry.append(q)
    return edges, dunders, registry


def reachable(repo):
    edges, dunders, registry = build(repo)
    seen = set()
    todo = [e for e in ENTRIES if repo.has_func(e)] + dunders + registry
    while todo:
        q = todo.pop()
        if q in seen:
            continue
        seen.add(q)
        todo.extend(edges.get(q, ()))
    return seen
