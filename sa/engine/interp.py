"""E2/E4: abstract interpreter for a whitelisted Python subset.

* concrete values are ordinary Python values (closed-term folding, device 1);
* symbolic values are `sym.S` normal forms (device 2);
* undetermined conditions fork the path; integer atoms registered as *cell variables* carry an
  interval x parity cell that is refined at each fork (predicate abstraction, device 3);
* repo objects are abstract records (`Rec`), repo classes `ClassVal`, functions `Closure`.
Nothing from the repo is imported or executed by CPython: the interpreter walks the AST.
Anything outside the subset raises Unsupported (-> UNKNOWN, exit 2), never a verdict.
"""
import ast
import operator as _o
import inspect as _inspect
import re as _re
import struct as _struct

from . import sym
from .loader import Unknown, FUNC_TYPES
from .sym import S, is_sym

MAX_PATHS = 4000
MAX_DEPTH = 80
SELF_RECURSION = 40
MAX_LOOP = 200000


class Unsupported(Unknown):
    pass


class Raised(Exception):
    def __init__(self, exc):
        super().__init__(repr(exc))
        self.exc = exc


class _Return(Exception):
    def __init__(self, value):
        self.value = value


class _Break(Exception):
    pass


class _Continue(Exception):
    pass


class ExcVal:
    def __init__(self, name, cls=None, args=(), node=None):
        self.name = name      # class name
        self.cls = cls        # ClassVal or None for builtins
        self.args = args
        self.node = node

    def __repr__(self):
        return f"<exc {self.name}>"


BUILTIN_EXC = {
    "BaseException": None, "Exception": "BaseException", "AssertionError": "Exception", "TypeError": "Exception",
    "ValueError": "Exception", "KeyError": "LookupError", "IndexError": "LookupError", "LookupError": "Exception",
    "ZeroDivisionError": "ArithmeticError", "ArithmeticError": "Exception", "OverflowError": "ArithmeticError",
    "NotImplementedError": "RuntimeError", "RuntimeError": "Exception", "UnicodeEncodeError": "UnicodeError",
    "UnicodeDecodeError": "UnicodeError", "UnicodeError": "ValueError", "OSError": "Exception", "IOError": "Exception",
    "FileNotFoundError": "OSError", "IsADirectoryError": "OSError", "AttributeError": "Exception",
    "StopIteration": "Exception", "SystemExit": "BaseException", "MemoryError": "Exception", "RecursionError": "RuntimeError",
    "struct.error": "Exception",
}


class ClassVal:
    def __init__(self, name, qual=None, bases=(), node=None, module=None):
        self.name = name
        self.qual = qual
        self.bases = list(bases)
        self.attrs = {}
        self.node = node
        self.module = module

    def mro(self):
        out = [self]
        for b in self.bases:
            if isinstance(b, ClassVal):
                for c in b.mro():
                    if c not in out:
                        out.append(c)
        return out

    def lookup(self, name):
        for c in self.mro():
            if name in c.attrs:
                return c.attrs[name], c
        return None, None

    def is_exception(self):
        for c in self.mro():
            for b in c.bases:
                if isinstance(b, BuiltinType) and b.name in BUILTIN_EXC:
                    return b.name
        return None

    def __repr__(self):
        return f"<class {self.qual or self.name}>"


class BuiltinType:
    def __init__(self, name, pytype=None):
        self.name = name
        self.pytype = pytype

    def __repr__(self):
        return f"<builtin {self.name}>"


class Rec:
    def __init__(self, cls):
        self.cls = cls
        self.fields = {}

    def __repr__(self):
        return f"<{self.cls.name} {' '.join(f'{k}={_short(v)}' for k, v in list(self.fields.items())[:6])}>"


def _short(v):
    if isinstance(v, (dict, list, tuple, set)) and len(v) > 3:
        return f"<{type(v).__name__} of {len(v)}>"
    r = repr(v)
    return r if len(r) < 80 else r[:77] + "..."


class Closure:
    def __init__(self, node, env, module, name=None, cls_ctx=None):
        self.node = node
        self.env = env
        self.module = module
        self.name = name or getattr(node, "name", "<lambda>")
        self.cls_ctx = cls_ctx
        self.attrs = {}

    def __repr__(self):
        return f"<fn {self.module.name}.{self.name}>"


class PyFn:
    """analysis-side model of a function: fn(interp, args, kwargs)"""
    def __init__(self, fn, name="<model>"):
        self.fn = fn
        self.name = name


class Bound:
    def __init__(self, fn, selfobj):
        self.fn = fn
        self.selfobj = selfobj


class ModuleVal:
    def __init__(self, name):
        self.name = name

    def __repr__(self):
        return f"<module {self.name}>"


class Ext:
    """external (stdlib) module or attribute of one, by dotted name"""
    def __init__(self, dotted):
        self.dotted = dotted

    def __repr__(self):
        return f"<ext {self.dotted}>"


EXT_CONSTANTS = {}


def _ext_constant(dotted):
    """plain values of the standard library that a module may use at import time (string.ascii_uppercase, ...)"""
    if not EXT_CONSTANTS:
        import string as _string
        for n_ in ("ascii_letters", "ascii_lowercase", "ascii_uppercase", "digits", "hexdigits", "octdigits", "punctuation", "printable", "whitespace"):
            EXT_CONSTANTS["string." + n_] = getattr(_string, n_)
    return EXT_CONSTANTS[dotted] if dotted in EXT_CONSTANTS else Ext(dotted)


class StructVal:
    """struct.Struct(fmt): pack / unpack / size through the same models as struct.pack / struct.unpack"""
    def __init__(self, fmt):
        self.format = fmt


STEP_BUDGET = 400_000
PATH_SECONDS = 6
EXPLORE_SECONDS = 8
import time as _time


class StepBudget(Unsupported):
    """one abstract path ran twenty times longer than any path of the unchanged tree: with concrete inputs this is a loop that does not end"""


class ModuleRaises(Unsupported):
    """the top level of a module of the package raises (a concrete exception of the program, not a gap of the interpreter)"""
    def __init__(self, module, exc, text):
        super().__init__(text)
        self.module, self.exc = module, exc



class CounterDict(dict):
    """collections.Counter over values that may be symbolic: a dict whose + and - keep only positive counts (Interp.binop)"""

class SymDict:
    """{**base, k: v, ...} with a symbolic base"""
    def __init__(self, base, items):
        self.base = base
        self.items = dict(items)

    def __repr__(self):
        return f"<symdict {self.base!r}+{list(self.items)}>"


class SymBytes:
    """a bytearray whose content may be symbolic"""
    def __init__(self, value=b""):
        self.value = value

    def __repr__(self):
        return f"<bytearray {self.value!r}>"


class SuperProxy:
    def __init__(self, obj, after):
        self.obj = obj
        self.after = after


class NewTypeVal:
    def __init__(self, name, supertype):
        self.name = name
        self.supertype = supertype

    def __repr__(self):
        return f"<newtype {self.name}>"


class Env:
    def __init__(self, parent=None):
        self.vars = {}
        self.parent = parent
        self.nonlocals = set()
        self.globals_decl = set()

    def lookup(self, name):
        e = self
        while e is not None:
            if name in e.vars:
                return e
            e = e.parent
        return None


class Cell:
    """interval x parity abstraction of one integer atom"""
    def __init__(self, lo=None, hi=None, par=None):
        self.lo, self.hi, self.par = lo, hi, par

    def copy(self):
        return Cell(self.lo, self.hi, self.par)

    def __repr__(self):
        lo = "-inf" if self.lo is None else str(self.lo)
        hi = "+inf" if self.hi is None else str(self.hi)
        p = {None: "", 0: " even", 1: " odd"}[self.par]
        return f"[{lo}, {hi}]{p}"

    def finite(self):
        return self.lo is not None and self.hi is not None

    def empty(self):
        if self.lo is not None and self.hi is not None:
            if self.lo > self.hi:
                return True
            if self.par is not None:
                lo = self.lo if self.lo % 2 == self.par else self.lo + 1
                return lo > self.hi
        return False

    def members(self):
        assert self.finite()
        return [v for v in range(self.lo, self.hi + 1) if self.par is None or v % 2 == self.par]


class Path:
    def __init__(self, kind, value, effects, decisions, cells):
        self.kind = kind          # "return" | "raise"
        self.value = value
        self.effects = effects
        self.decisions = decisions
        self.cells = cells

    def reported(self, priorities=("error", "critical")):
        return [e for e in self.effects if e[0] == "report" and e[1] in priorities]

    def __repr__(self):
        return f"<path {self.kind} {self.value!r} effects={len(self.effects)} cells={self.cells}>"


SAFE_BUILTINS = {
    "len": len, "range": range, "enumerate": enumerate, "list": list, "int": int, "str": str, "bin": bin, "oct": oct,
    "hex": hex, "all": all, "any": any, "bool": bool, "dict": dict, "tuple": tuple, "sorted": sorted, "min": min,
    "max": max, "sum": sum, "bytes": bytes, "bytearray": bytearray, "chr": chr, "ord": ord, "zip": zip,
    "reversed": reversed, "abs": abs, "repr": repr, "map": map, "set": set, "frozenset": frozenset, "float": float,
    "divmod": divmod, "filter": filter, "iter": iter, "next": next, "format": format, "round": round,
}
BUILTIN_TYPES = {"int": int, "str": str, "bytes": bytes, "bool": bool, "list": list, "dict": dict, "tuple": tuple,
                 "type": type, "float": float, "bytearray": bytearray, "object": object, "set": set}
SAFE_METHODS = {
    str: {"isdigit", "count", "rjust", "ljust", "lower", "upper", "strip", "rstrip", "lstrip", "replace", "join", "index",
          "startswith", "endswith", "isalpha", "find", "rfind", "split", "partition", "rpartition", "format", "isalnum",
          "isspace", "encode", "title", "zfill", "center", "splitlines", "isupper", "islower"},
    bytes: {"ljust", "rjust", "join", "decode", "startswith", "endswith", "count", "index", "hex", "find", "replace"},
    bytearray: {"append", "extend", "ljust", "join", "decode"},
    list: {"append", "insert", "index", "count", "pop", "extend", "copy", "reverse", "sort", "remove"},
    dict: {"items", "keys", "values", "get", "copy", "setdefault", "pop", "update"},
    tuple: {"index", "count"},
    set: {"add", "update", "discard", "isdisjoint", "issubset", "issuperset", "union", "intersection", "difference", "symmetric_difference", "copy", "remove", "clear", "pop"},
    frozenset: {"isdisjoint", "issubset", "issuperset", "union", "intersection", "difference", "symmetric_difference", "copy"},
    range: {"index", "count"},
}
# every public method of the immutable text types is a pure function of concrete operands
SAFE_METHODS[str] |= {m for m in dir(str) if not m.startswith("_")}
SAFE_METHODS[bytes] |= {m for m in dir(bytes) if not m.startswith("_")}
SYM_METHODS = {"isdigit", "lower", "upper", "encode", "ljust", "rjust", "startswith", "endswith", "strip", "replace", "split", "join", "count", "rfind", "find"}
BINOPS = {
    ast.Add: sym.add, ast.Sub: sym.sub, ast.Mult: sym.mul, ast.FloorDiv: sym.floordiv, ast.Mod: sym.mod,
    ast.Pow: sym.pow_, ast.LShift: sym.shl, ast.RShift: sym.shr, ast.BitAnd: sym.band, ast.BitOr: sym.bor,
    ast.BitXor: sym.bxor,
}
CMPOPS = {ast.Eq: "==", ast.NotEq: "!=", ast.Lt: "<", ast.LtE: "<=", ast.Gt: ">", ast.GtE: ">=", ast.Is: "is",
          ast.IsNot: "is not", ast.In: "in", ast.NotIn: "not in"}


class Interp:
    def __init__(self, repo, summaries=None, ext_models=None, deferred_policy="lazy", eval_modules=True):
        self.repo = repo
        self.summaries = dict(summaries or {})
        self.ext_models = dict(ext_models or {})
        self.deferred_policy = deferred_policy
        self.cellvars = {}            # S var -> initial Cell
        self.trail = []
        self.cursor = 0
        self.path_memo = {}
        self.effects = []
        self.cells = {}
        self.depth = 0
        self.qual_stack = []
        self.mod_env = {}             # module name -> Env   (reset per path)
        self.mod_loading = set()
        self.builtin_types = {n: BuiltinType(n, t) for n, t in BUILTIN_TYPES.items()}
        for n in BUILTIN_EXC:
            self.builtin_types[n] = BuiltinType(n)
        self.steps = 0
        self.gen_stack = []
        self.consts = {}
        self.isinstance_hook = None   # fn(value, classval) -> bool | None
        self.attr_hook = None         # fn(obj, name) -> value | NotImplemented
        self.call_hook = None         # fn(interp, fval, args, kwargs, node) -> value | NotImplemented
        self.module_skip = set()      # modules whose top level is not evaluated (names resolved lazily)
        self.persist_modules = True   # module top levels are folded once and shared by all paths

    # ------------------------------------------------------------------ exploration driver
    def add_cellvar(self, name, lo=None, hi=None, par=None):
        v = sym.var(name, "int")
        self.cellvars[v] = Cell(lo, hi, par)
        return v

    def add_cell(self, expr, lo=None, hi=None, par=None):
        """track an arbitrary integer atom (e.g. len(s)) with an interval cell"""
        self.cellvars[expr] = Cell(lo, hi, par)
        return expr

    def explore(self, thunk):
        results = []
        self.trail = []
        t0 = _time.time()
        while True:
            if _time.time() - t0 > EXPLORE_SECONDS:
                raise StepBudget(f"the exploration of one rule instance has forked into more than {len(results)} paths in {EXPLORE_SECONDS} s (a loop that forks on every iteration)")
            self._reset_path()
            try:
                out = Path("return", thunk(), self.effects, None, None)
            except Raised as r:
                out = Path("raise", r.exc, self.effects, None, None)
            out.decisions = [(k, v) for k, v, _ in self.trail[:self.cursor]]
            out.cells = {k: c.copy() for k, c in self.cells.items()}
            if not any(c.empty() for c in self.cells.values()):
                results.append(out)
            if len(results) > MAX_PATHS:
                raise Unsupported("too many paths")
            del self.trail[self.cursor:]
            while self.trail and self.trail[-1][2]:
                self.trail.pop()
            if not self.trail:
                break
            self.trail[-1][1] = not self.trail[-1][1]
            self.trail[-1][2] = True
        return results

    def _reset_path(self):
        self.cursor = 0
        self.path_memo = {}
        self.effects = []
        self.cells = {k: c.copy() for k, c in self.cellvars.items()}
        if not self.persist_modules:
            self.mod_env = {}
        else:
            for name in list(self.mod_loading):
                self.mod_env.pop(name, None)
        self.mod_loading = set()
        self.depth = 0
        self.qual_stack = []
        self.steps = 0
        self.path_t0 = _time.time()

    def choose(self, key):
        if self.mod_loading and self.persist_modules:
            raise Unsupported(f"fork during module initialisation of {sorted(self.mod_loading)}: {key!r}")
        if key in self.path_memo:
            return self.path_memo[key]
        if self.cursor < len(self.trail):
            val = self.trail[self.cursor][1]
        else:
            self.trail.append([key, True, False])
            val = True
        self.cursor += 1
        self.path_memo[key] = val
        return val

    def effect(self, *e):
        self.effects.append(tuple(e))

    # ------------------------------------------------------------------ truth and comparisons
    def truth(self, v):
        if is_sym(v):
            if v[0] == "op" and v[1] == "cmp":
                r = self.decide_cmp(v[2], v[3], v[4])
                if r is not None:
                    return r
            if v[0] == "op" and v[1] == "not":
                return not self.truth(v[2])
            k = sym.kind(v)
            if k == "obj":
                return True
            if k == "int" and self._single_cellvar(v) is not None:
                r = self.decide_cmp("!=", v, 0)
                if r is not None:
                    return r
            return self.choose(("truth", v))
        if isinstance(v, Rec):
            ln, _ = v.cls.lookup("__len__")
            bl, _ = v.cls.lookup("__bool__")
            if bl is not None:
                return self.truth(self.call(Bound(bl, v), [], {}))
            if ln is not None:
                return self.truth(sym.cmp("!=", self.call(Bound(ln, v), [], {}), 0))
            return True
        if isinstance(v, (Closure, ClassVal, ModuleVal, Bound, BuiltinType, Ext, NewTypeVal)):
            return True
        if isinstance(v, SymDict):
            return True
        try:
            return bool(v)
        except Exception as ex:
            raise Unsupported(f"truth of {v!r}: {ex}") from None

    def _single_cellvar(self, d):
        """d (an int value) as k*v + c for exactly one cell variable v"""
        if not is_sym(d):
            return None
        if d in self.cells:
            return d, 1, 0
        if d[0] == "lin" and len(d[1]) == 1 and d[1][0][0] in self.cells:
            return d[1][0][0], d[1][0][1], d[2]
        return None

    def decide_cmp(self, opname, a, b):
        if opname in ("is", "is not"):
            r = self._identity(a, b)
            if r is None:
                return None
            return r if opname == "is" else not r
        if opname in ("in", "not in"):
            return None
        if sym.kind(a) not in ("int", "bool") or sym.kind(b) not in ("int", "bool"):
            return None
        try:
            d = sym.sub(a, b)
        except TypeError:
            return None
        if not is_sym(d):
            return {"<": d < 0, "<=": d <= 0, ">": d > 0, ">=": d >= 0, "==": d == 0, "!=": d != 0}[opname]
        sc = self._single_cellvar(d)
        if sc is None:
            return None
        v, k, c = sc
        cell = self.cells[v]
        # k*v + c OP 0
        if opname in ("==", "!="):
            if (-c) % k != 0:
                return opname == "!="
            t = (-c) // k
            if (cell.lo is not None and t < cell.lo) or (cell.hi is not None and t > cell.hi) or \
                    (cell.par is not None and t % 2 != cell.par):
                return opname == "!="
            if cell.lo == cell.hi == t:
                return opname == "=="
            # fork: v == t ?
            eq = self.choose(("eq", v, t))
            if eq:
                cell.lo = cell.hi = t
                return opname == "=="
            # v != t: can only refine at the borders
            if cell.lo == t:
                cell.lo = t + 1
            elif cell.hi == t:
                cell.hi = t - 1
            else:
                # split below / above
                below = self.choose(("lt", v, t))
                if below:
                    cell.hi = t - 1
                else:
                    cell.lo = t + 1
            return opname == "!="
        # normalise to: v <= t  (truth value `want` if so)
        # k*v + c < 0  etc.
        if opname in (">", ">="):
            k, c = -k, -c
            opname = {">": "<", ">=": "<="}[opname]
        # now k*v + c < 0 or <= 0
        bound = -c if opname == "<=" else -c - 1      # k*v <= bound
        if k > 0:
            t = bound // k          # v <= t
            truth_if_le, thr = True, t
        else:
            # k*v <= bound  <=>  v >= ceil(bound / k)
            kk = -k
            t = -(bound // kk)       # v >= t   (since -v*kk <= bound <=> v >= -bound/kk -> ceil)
            # ceil(-bound/kk) = -floor(bound/kk)
            truth_if_le, thr = False, t - 1      # v <= t-1 means condition false
        # decide "v <= thr"
        if cell.hi is not None and cell.hi <= thr:
            le = True
        elif cell.lo is not None and cell.lo > thr:
            le = False
        else:
            le = self.choose(("le", v, thr))
            if le:
                cell.hi = thr if cell.hi is None else min(cell.hi, thr)
            else:
                cell.lo = thr + 1 if cell.lo is None else max(cell.lo, thr + 1)
        return truth_if_le if le else not truth_if_le

    def _identity(self, a, b):
        if a is None or b is None:
            other = b if a is None else a
            if other is None:
                return True
            if is_sym(other):
                k = sym.kind(other)
                if k in ("int", "bytes", "str", "bool", "obj"):
                    return False
                return None
            return False
        if is_sym(a) or is_sym(b):
            if is_sym(a) and is_sym(b) and a == b:
                return True
            return None
        if isinstance(a, (bool, int, str, bytes)) and isinstance(b, (bool, int, str, bytes)):
            return a is b if isinstance(a, bool) or isinstance(b, bool) else a == b
        return a is b

    def parity(self, x):
        """x % 2 for an int value, forking on the cell parity when needed; None if not decidable"""
        sc = self._single_cellvar(x) if is_sym(x) else None
        if sc is None:
            return None
        v, k, c = sc
        if k % 2 == 0:
            return c % 2
        cell = self.cells[v]
        if cell.par is None:
            if cell.lo is not None and cell.lo == cell.hi:
                cell.par = cell.lo % 2
            else:
                odd = self.choose(("odd", v))
                cell.par = 1 if odd else 0
        return (k * cell.par + c) % 2

    # ------------------------------------------------------------------ modules
    def module_env(self, name):
        if name in self.mod_env:
            return self.mod_env[name]
        mod = self.repo.module(name)
        env = Env()
        env.module = mod
        self.mod_env[name] = env
        env.vars["__name__"] = "pdpy11." + name
        if name in self.module_skip:
            env.lazy = True
            return env
        env.lazy = False
        self.mod_loading.add(name)
        try:
            self.exec_block(mod.tree.body, env, mod)
        except Raised as r:
            # an exception at import time would fail every run (and the pinned tests): the interpreter is missing something
            self.mod_env.pop(name, None)
            raise ModuleRaises(name, r.exc.name, f"module {name} does not fold: {r.exc.name} {getattr(r.exc, 'args', '')} at line {getattr(getattr(r.exc, 'node', None), 'lineno', '?')}") from None
        except BaseException:
            self.mod_env.pop(name, None)      # never keep a half-initialised module
            raise
        finally:
            self.mod_loading.discard(name)
        return env

    def module_get(self, name, attr):
        env = self.module_env(name)
        if attr in env.vars:
            return env.vars[attr]
        if getattr(env, "lazy", False):
            return self._lazy_global(env, attr)
        if name in self.mod_loading:
            raise Unsupported(f"circular module access {name}.{attr}")
        raise Raised(ExcVal("AttributeError", args=(f"{name}.{attr}",)))

    def _lazy_global(self, env, attr):
        mod = env.module
        stmts = []
        for s in mod.tree.body:
            if isinstance(s, (ast.FunctionDef, ast.ClassDef)) and s.name == attr:
                stmts.append(s)
            elif isinstance(s, ast.Assign) and any(isinstance(t, ast.Name) and t.id == attr for t in s.targets):
                stmts.append(s)
            elif isinstance(s, (ast.Import, ast.ImportFrom)) and any((a.asname or a.name.split(".")[0]) == attr for a in s.names):
                stmts.append(s)
        if not stmts:
            raise Raised(ExcVal("AttributeError", args=(f"{mod.name}.{attr}",)))
        for s in stmts:
            self.exec(s, env, mod)
        return env.vars[attr]

    # ------------------------------------------------------------------ statements
    def exec_block(self, stmts, env, mod):
        for s in stmts:
            self.exec(s, env, mod)

    def exec(self, s, env, mod):
        self.steps += 1
        if self.steps % 2000 == 0 and _time.time() - self.path_t0 > PATH_SECONDS:
            raise StepBudget(f"one abstract path has been running for more than {PATH_SECONDS} s (the slowest path of the unchanged tree takes about 0.1 s)")
        if self.steps > STEP_BUDGET:
            # the largest path of the unchanged tree takes about 20 000 steps
            raise StepBudget(f"step budget exhausted ({STEP_BUDGET} statements on one path)")
        m = getattr(self, "x_" + type(s).__name__, None)
        if m is None:
            raise Unsupported(f"statement {type(s).__name__} at {mod.name}:{s.lineno}")
        return m(s, env, mod)

    def x_Expr(self, s, env, mod):
        self.ev(s.value, env, mod)

    def x_Pass(self, s, env, mod):
        pass

    def x_Assign(self, s, env, mod):
        v = self.ev(s.value, env, mod)
        for t in s.targets:
            self.assign(t, v, env, mod)

    def x_AnnAssign(self, s, env, mod):
        if s.value is not None:
            self.assign(s.target, self.ev(s.value, env, mod), env, mod)

    def x_AugAssign(self, s, env, mod):
        t = s.target
        if isinstance(t, ast.Name):
            cur = self.load_name(t.id, env, mod)
        elif isinstance(t, ast.Attribute):
            obj = self.ev(t.value, env, mod)
            cur = self.getattr(obj, t.attr)
        elif isinstance(t, ast.Subscript):
            obj = self.ev(t.value, env, mod)
            key = self.ev(t.slice, env, mod)
            cur = self.getitem(obj, key)
        else:
            raise Unsupported("augassign target")
        rhs = self.ev(s.value, env, mod)
        if isinstance(cur, SymBytes) and isinstance(s.op, ast.Add):
            cur.value = sym.cat(cur.value, rhs.value if isinstance(rhs, SymBytes) else rhs)
            new = cur
        elif isinstance(cur, list) and isinstance(s.op, ast.Add):
            cur.extend(rhs)   # in-place semantics
            new = cur
        elif isinstance(cur, bytearray) and isinstance(s.op, ast.Add) and not is_sym(rhs):
            cur.extend(rhs)
            new = cur
        else:
            new = self.binop(s.op, cur, rhs)
        if isinstance(t, ast.Name):
            self.store_name(t.id, new, env)
        elif isinstance(t, ast.Attribute):
            self.setattr(obj, t.attr, new)
        else:
            self.setitem(obj, key, new)

    def x_If(self, s, env, mod):
        if self.truth(self.ev(s.test, env, mod)):
            self.exec_block(s.body, env, mod)
        else:
            self.exec_block(s.orelse, env, mod)

    def x_Return(self, s, env, mod):
        raise _Return(self.ev(s.value, env, mod) if s.value is not None else None)

    def x_Raise(self, s, env, mod):
        if s.exc is None:
            cur = getattr(env, "_handling", None)
            e = env
            while cur is None and e is not None:
                cur = getattr(e, "_handling", None)
                e = e.parent
            if cur is None:
                raise Unsupported("bare raise outside handler")
            raise Raised(cur)
        v = self.ev(s.exc, env, mod)
        raise Raised(self.to_exc(v, s))

    def to_exc(self, v, node=None):
        if isinstance(v, ExcVal):
            return v
        if isinstance(v, ClassVal):
            return ExcVal(v.name, cls=v, node=node)
        if isinstance(v, BuiltinType):
            return ExcVal(v.name, node=node)
        if isinstance(v, Rec):
            e = ExcVal(v.cls.name, cls=v.cls, args=tuple(v.fields.get("args", ())), node=node)
            e.rec = v
            return e
        raise Unsupported(f"raise of {v!r}")

    def x_Assert(self, s, env, mod):
        if not self.truth(self.ev(s.test, env, mod)):
            raise Raised(ExcVal("AssertionError", node=s))

    def x_For(self, s, env, mod):
        it = self.ev(s.iter, env, mod)
        seq = self.iterate(it)
        broke = False
        n = 0
        for item in seq:
            n += 1
            if n > MAX_LOOP:
                raise Unsupported("loop bound")
            self.assign(s.target, item, env, mod)
            try:
                self.exec_block(s.body, env, mod)
            except _Break:
                broke = True
                break
            except _Continue:
                continue
        if not broke:
            self.exec_block(s.orelse, env, mod)

    def x_While(self, s, env, mod):
        n = 0
        while self.truth(self.ev(s.test, env, mod)):
            n += 1
            if n > MAX_LOOP:
                raise Unsupported("loop bound")
            try:
                self.exec_block(s.body, env, mod)
            except _Break:
                break
            except _Continue:
                continue

    def x_Break(self, s, env, mod):
        raise _Break()

    def x_Continue(self, s, env, mod):
        raise _Continue()

    def x_FunctionDef(self, s, env, mod):
        fn = Closure(s, env, mod, cls_ctx=getattr(env, "cls_ctx", None))
        fn.defaults = [self.ev(d, env, mod) for d in s.args.defaults]
        fn.kw_defaults = [None if d is None else self.ev(d, env, mod) for d in s.args.kw_defaults]
        val = fn
        for d in reversed(s.decorator_list):
            dec = self.ev(d, env, mod)
            val = self.call(dec, [val], {}, node=d)
        self.store_name(s.name, val, env)

    def x_ClassDef(self, s, env, mod):
        bases = [self.ev(b, env, mod) for b in s.bases]
        qual = None
        if id(s) in mod.qualname_of:
            qual = f"{mod.name}::{mod.qualname_of[id(s)]}"
        cls = ClassVal(s.name, qual, bases, s, mod)
        for kw in s.keywords:
            if kw.arg == "metaclass":
                cls.metaclass = self.ev(kw.value, env, mod)
        body_env = Env(env)
        body_env.cls_ctx = cls
        body_env.is_class_body = True
        self.exec_block(s.body, body_env, mod)
        cls.attrs.update(body_env.vars)
        val = cls
        for d in reversed(s.decorator_list):
            val = self.call(self.ev(d, env, mod), [val], {}, node=d)
        self.store_name(s.name, val, env)

    def x_Import(self, s, env, mod):
        for a in s.names:
            local = a.asname or a.name.split(".")[0]
            self.store_name(local, Ext(a.name if a.asname else a.name.split(".")[0]), env)

    def x_ImportFrom(self, s, env, mod):
        if s.level >= 1:
            for a in s.names:
                local = a.asname or a.name
                if s.module is None:
                    # `from . import x` runs x's top level (unless x is being initialised further up: an import cycle binds the partial module)
                    if a.name in self.repo.modules and a.name not in self.mod_env and a.name not in self.mod_loading:
                        self.module_env(a.name)
                    self.store_name(local, ModuleVal(a.name), env)
                else:
                    if a.name in self.repo.modules and s.module is None:
                        self.store_name(local, ModuleVal(a.name), env)
                    else:
                        self.store_name(local, self.module_get(s.module, a.name), env)
        else:
            for a in s.names:
                self.store_name(a.asname or a.name, _ext_constant(f"{s.module}.{a.name}"), env)

    def x_Nonlocal(self, s, env, mod):
        env.nonlocals.update(s.names)

    def x_Global(self, s, env, mod):
        env.globals_decl.update(s.names)

    def x_Try(self, s, env, mod):
        try:
            try:
                self.exec_block(s.body, env, mod)
            except Raised as r:
                for h in s.handlers:
                    if self.handler_matches(h, r.exc, env, mod):
                        if h.name:
                            self.store_name(h.name, self.exc_as_value(r.exc), env)
                        prev = getattr(env, "_handling", None)
                        env._handling = r.exc
                        try:
                            self.exec_block(h.body, env, mod)
                        finally:
                            env._handling = prev
                        break
                else:
                    raise
            else:
                self.exec_block(s.orelse, env, mod)
        finally:
            if s.finalbody:
                self.exec_block(s.finalbody, env, mod)

    def exc_as_value(self, exc):
        if getattr(exc, "rec", None) is not None:
            return exc.rec
        return sym.var(f"exc:{exc.name}", "any")

    def exc_isa(self, exc, target):
        """exc: ExcVal; target: ClassVal | BuiltinType"""
        if isinstance(target, ClassVal):
            return exc.cls is not None and target in exc.cls.mro()
        if isinstance(target, BuiltinType):
            name = exc.name if exc.cls is None else exc.cls.is_exception()
            while name is not None:
                if name == target.name or (name in ("IOError", "OSError") and target.name in ("IOError", "OSError")):
                    return True
                name = BUILTIN_EXC.get(name)
            return False
        raise Unsupported(f"except clause with {target!r}")

    def handler_matches(self, h, exc, env, mod):
        if h.type is None:
            return True
        t = self.ev(h.type, env, mod)
        ts = t if isinstance(t, tuple) else (t,)
        return any(self.exc_isa(exc, x) for x in ts)

    def x_With(self, s, env, mod):
        mgrs = []
        for it in s.items:
            m = self.ev(it.context_expr, env, mod)
            entered = self.call_method(m, "__enter__", [])
            if it.optional_vars is not None:
                self.assign(it.optional_vars, entered, env, mod)
            mgrs.append(m)
        try:
            self.exec_block(s.body, env, mod)
        except Raised as r:
            swallowed = False
            for m in reversed(mgrs):
                cls = r.exc.cls if r.exc.cls is not None else self.builtin_types.get(r.exc.name, BuiltinType(r.exc.name))
                res = self.call_method(m, "__exit__", [cls, self.exc_as_value(r.exc), None])
                if self.truth(res):
                    swallowed = True
                    break
            if not swallowed:
                raise
        except (_Return, _Break, _Continue):
            for m in reversed(mgrs):
                self.call_method(m, "__exit__", [None, None, None])
            raise
        else:
            for m in reversed(mgrs):
                self.call_method(m, "__exit__", [None, None, None])

    def x_Match(self, s, env, mod):
        subject = self.ev(s.subject, env, mod)
        for case in s.cases:
            binds = {}
            if self._match_pattern(case.pattern, subject, binds, env, mod):
                for k_, v_ in binds.items():
                    self.store_name(k_, v_, env)
                if case.guard is None or self.truth(self.ev(case.guard, env, mod)):
                    return self.exec_block(case.body, env, mod)
        return None

    def _match_pattern(self, pat, subject, binds, env, mod):
        if isinstance(pat, ast.MatchAs):
            if pat.pattern is not None and not self._match_pattern(pat.pattern, subject, binds, env, mod):
                return False
            if pat.name is not None:
                binds[pat.name] = subject
            return True
        if isinstance(pat, ast.MatchOr):
            return any(self._match_pattern(p_, subject, binds, env, mod) for p_ in pat.patterns)
        if isinstance(pat, ast.MatchValue):
            return bool(self.truth(self.compare("==", subject, self.ev(pat.value, env, mod))))
        if isinstance(pat, ast.MatchSingleton):
            return subject is pat.value
        if isinstance(pat, ast.MatchClass):
            cls = self.ev(pat.cls, env, mod)
            if not self.truth(self.isinstance(subject, cls)):
                return False
            if pat.patterns:
                raise Unsupported("positional sub-patterns in a class pattern")
            for attr, sub in zip(pat.kwd_attrs, pat.kwd_patterns):
                try:
                    v_ = self.getattr(subject, attr)
                except Raised:
                    return False
                if not self._match_pattern(sub, v_, binds, env, mod):
                    return False
            return True
        if isinstance(pat, ast.MatchSequence):
            if not isinstance(subject, (list, tuple)) or is_sym(subject):
                return False
            star = [i for i, p_ in enumerate(pat.patterns) if isinstance(p_, ast.MatchStar)]
            if not star:
                return len(subject) == len(pat.patterns) and all(self._match_pattern(p_, x_, binds, env, mod) for p_, x_ in zip(pat.patterns, subject))
            i = star[0]
            tail = len(pat.patterns) - i - 1
            if len(subject) < len(pat.patterns) - 1:
                return False
            if not all(self._match_pattern(p_, x_, binds, env, mod) for p_, x_ in zip(pat.patterns[:i], subject[:i])):
                return False
            if tail and not all(self._match_pattern(p_, x_, binds, env, mod) for p_, x_ in zip(pat.patterns[i + 1:], subject[len(subject) - tail:])):
                return False
            if pat.patterns[i].name:
                binds[pat.patterns[i].name] = list(subject[i:len(subject) - tail])
            return True
        raise Unsupported(f"match pattern {type(pat).__name__}")

    def x_Delete(self, s, env, mod):
        raise Unsupported("del")

    # ------------------------------------------------------------------ names and stores
    def load_name(self, name, env, mod):
        e = env
        while e is not None:
            if name in e.vars and not (getattr(e, "is_class_body", False) and e is not env):
                return e.vars[name]
            e = e.parent
        menv = self.module_env(mod.name)
        if name in menv.vars:
            return menv.vars[name]
        if getattr(menv, "lazy", False):
            try:
                return self._lazy_global(menv, name)
            except Raised:
                pass
        if name in self.builtin_types:
            return self.builtin_types[name]
        if name in SAFE_BUILTINS:
            return SAFE_BUILTINS[name]
        if name in ("isinstance", "issubclass", "hasattr", "getattr", "setattr", "super", "print", "callable", "type", "open",
                    "__builtins__", "NotImplemented", "id", "hash"):
            return Ext("builtins." + name)
        import builtins as _b
        if hasattr(_b, name):
            raise Unsupported(f"builtin {name} is not modelled")
        raise Raised(ExcVal("NameError", args=(name,)))

    def store_name(self, name, v, env):
        if name in env.nonlocals:
            e = env.parent
            while e is not None:
                if name in e.vars and not getattr(e, "is_class_body", False):
                    e.vars[name] = v
                    return
                e = e.parent
            raise Unsupported(f"nonlocal {name} not found")
        if name in env.globals_decl:
            e = env
            while e.parent is not None:
                e = e.parent
            e.vars[name] = v
            return
        env.vars[name] = v

    def assign(self, t, v, env, mod):
        if isinstance(t, ast.Name):
            self.store_name(t.id, v, env)
        elif isinstance(t, (ast.Tuple, ast.List)):
            items = list(self.iterate(v))
            star = [i for i, e in enumerate(t.elts) if isinstance(e, ast.Starred)]
            if star:
                i = star[0]
                after = len(t.elts) - i - 1
                if len(items) < len(t.elts) - 1:
                    raise Raised(ExcVal("ValueError"))
                for tt, vv in zip(t.elts[:i], items[:i]):
                    self.assign(tt, vv, env, mod)
                self.assign(t.elts[i].value, items[i:len(items) - after], env, mod)
                for tt, vv in zip(t.elts[i + 1:], items[len(items) - after:]):
                    self.assign(tt, vv, env, mod)
            else:
                if len(items) != len(t.elts):
                    raise Raised(ExcVal("ValueError", args=("unpack",)))
                for tt, vv in zip(t.elts, items):
                    self.assign(tt, vv, env, mod)
        elif isinstance(t, ast.Attribute):
            self.setattr(self.ev(t.value, env, mod), t.attr, v)
        elif isinstance(t, ast.Subscript):
            self.setitem(self.ev(t.value, env, mod), self.ev(t.slice, env, mod), v)
        else:
            raise Unsupported(f"assign target {type(t).__name__}")

    def setattr(self, obj, name, v):
        if isinstance(obj, Rec):
            self.effect("setattr", obj, name, v)
            obj.fields[name] = v
        elif isinstance(obj, ClassVal):
            obj.attrs[name] = v
        elif isinstance(obj, Closure):
            obj.attrs[name] = v
        elif is_sym(obj):
            self.effect("setattr", obj, name, v)
        else:
            raise Unsupported(f"setattr on {obj!r}")

    def setitem(self, obj, key, v):
        if isinstance(obj, (list, dict, bytearray)):
            if is_sym(key) and not isinstance(obj, dict):
                raise Unsupported("symbolic index store")
            try:
                obj[self._hashable(key)] = v
            except (IndexError, KeyError) as ex:
                raise Raised(ExcVal(type(ex).__name__)) from None
        elif isinstance(obj, Rec):
            self.call_method(obj, "__setitem__", [key, v])
        elif isinstance(obj, SymDict):
            obj.items[key] = v
        elif is_sym(obj):
            self.effect("setitem", obj, key, v)
        else:
            raise Unsupported(f"setitem on {obj!r}")

    def _hashable(self, k):
        return k

    # ------------------------------------------------------------------ iteration
    def iterate(self, it):
        if is_sym(it) and it[:2] == ("op", "ljustb") and len(it) == 5 and isinstance(it[3], int) and is_sym(it[2]) and it[2][:2] == ("op", "slice") \
                and tuple(it[2][3:]) == (None, it[3], None):
            # x[:n].ljust(n, pad) has exactly n bytes
            return [sym.op("item", it, i) for i in range(it[3])]
        if is_sym(it):
            if sym.kind(it) in ("int", "bool"):
                raise Raised(ExcVal("TypeError", args=("'int' object is not iterable",)))
            raise Unsupported(f"iteration over symbolic {it!r}")
        if isinstance(it, (list, tuple, str, bytes, bytearray, range, dict, set, frozenset)):
            return it
        if it is None or isinstance(it, (int, float)) or isinstance(it, (Closure, PyFn, ClassVal)):
            raise Raised(ExcVal("TypeError", args=(f"'{type(it).__name__ if not isinstance(it, (Closure, PyFn)) else 'function'}' object is not iterable",)))
        if isinstance(it, SymBytes):
            if is_sym(it.value):
                raise Unsupported("iteration over symbolic bytes")
            return it.value
        if isinstance(it, Rec):
            r = self.call_method(it, "__iter__", [])
            return self.iterate(r)
        if hasattr(it, "__iter__") and not isinstance(it, (Rec, ClassVal, Closure)):
            return it
        raise Unsupported(f"iteration over {it!r}")

    # ------------------------------------------------------------------ expressions
    def ev(self, e, env, mod):
        m = getattr(self, "e_" + type(e).__name__, None)
        if m is None:
            raise Unsupported(f"expression {type(e).__name__} at {mod.name}:{getattr(e, 'lineno', '?')}")
        return m(e, env, mod)

    def e_Constant(self, e, env, mod):
        return e.value

    def e_Name(self, e, env, mod):
        return self.load_name(e.id, env, mod)

    def e_BinOp(self, e, env, mod):
        return self.binop(e.op, self.ev(e.left, env, mod), self.ev(e.right, env, mod))

    def binop(self, op, a, b):
        t = type(op)
        if isinstance(a, SymBytes):
            a = a.value
        if isinstance(b, SymBytes):
            b = b.value
        if isinstance(a, Rec) or isinstance(b, Rec):
            return self.rec_binop(op, a, b)
        if (isinstance(a, (list, tuple)) and not is_sym(a)) or (isinstance(b, (list, tuple)) and not is_sym(b)):
            if t is ast.Add and type(a) is type(b):
                return a + b
            if t is ast.Mult and not is_sym(a) and not is_sym(b):
                try:
                    return a * b
                except TypeError as ex:
                    raise Raised(ExcVal("TypeError", args=(str(ex),))) from None
            if not is_sym(a) and not is_sym(b) and t in (ast.Sub, ast.Add, ast.FloorDiv, ast.Mod, ast.Div, ast.BitAnd, ast.BitOr, ast.BitXor, ast.LShift, ast.RShift, ast.Pow):
                # lists and tuples support + (same type) and * only: anything else is the PROGRAM's TypeError
                raise Raised(ExcVal("TypeError", args=(f"unsupported operand type(s) for {t.__name__}: '{type(a).__name__}' and '{type(b).__name__}'",)))
            raise Unsupported("sequence binop")
        if t is ast.Mod and isinstance(a, str) and not is_sym(a):
            if is_sym(b) or (isinstance(b, tuple) and any(is_sym(x) for x in b)):
                return sym.op("format", a, b)
            return a % b
        if t is ast.Mod and is_sym(a) and not is_sym(b) and b == 2:
            p = self.parity(a)
            if p is not None:
                return p
        if isinstance(a, CounterDict) and isinstance(b, CounterDict) and t in (ast.Add, ast.Sub):
            # Counter arithmetic adds (subtracts) the counts key by key and KEEPS ONLY THE POSITIVE ones
            res = CounterDict()
            for k_ in list(a) + [k2 for k2 in b if k2 not in a]:
                v_ = self.binop(op, a.get(k_, 0), b.get(k_, 0))
                if self.truth(self.compare(">", v_, 0)):
                    res[k_] = v_
            return res
        if t is ast.BitOr and isinstance(a, dict) and isinstance(b, dict):
            return {**a, **b}
        if t in (ast.FloorDiv, ast.Mod, ast.Div) and is_sym(b) and sym.kind(b) in ("int", "bool") and self._single_cellvar(b) is not None:
            if self.decide_cmp("==", b, 0):
                raise Raised(ExcVal("ZeroDivisionError"))
        if t in (ast.LShift, ast.RShift) and is_sym(b) and sym.kind(b) in ("int", "bool") and self._single_cellvar(b) is not None:
            if self.decide_cmp("<", b, 0) is True:
                raise Raised(ExcVal("ValueError", args=("negative shift count",)))
        if t not in BINOPS:
            if t is ast.Div:
                if is_sym(a) or is_sym(b):
                    return sym.op("truediv", a, b)
                try:
                    return a / b
                except ZeroDivisionError:
                    raise Raised(ExcVal("ZeroDivisionError")) from None
            raise Unsupported(f"binop {t.__name__}")
        try:
            return BINOPS[t](a, b)
        except ZeroDivisionError:
            raise Raised(ExcVal("ZeroDivisionError")) from None
        except TypeError as ex:
            raise Raised(ExcVal("TypeError", args=(str(ex),))) from None
        except (ValueError, OverflowError) as ex:
            raise Raised(ExcVal(type(ex).__name__)) from None

    DUNDER = {ast.Add: ("__add__", "__radd__"), ast.Sub: ("__sub__", "__rsub__"), ast.Mult: ("__mul__", "__rmul__"),
              ast.BitOr: ("__or__", "__ror__"), ast.FloorDiv: ("__floordiv__", "__rfloordiv__"), ast.Mod: ("__mod__", "__rmod__"),
              ast.BitAnd: ("__and__", "__rand__"), ast.RShift: ("__rshift__", "__rrshift__"), ast.LShift: ("__lshift__", "__rlshift__")}

    def rec_binop(self, op, a, b):
        names = self.DUNDER.get(type(op))
        if names is None:
            raise Unsupported("record binop")
        NI = "NotImplemented"
        if isinstance(a, Rec):
            f, _ = a.cls.lookup(names[0])
            if f is not None:
                r = self.call(Bound(f, a), [b], {})
                if not (isinstance(r, Ext) and r.dotted == "builtins.NotImplemented"):
                    return r
        if isinstance(b, Rec):
            f, _ = b.cls.lookup(names[1])
            if f is not None:
                r = self.call(Bound(f, b), [a], {})
                if not (isinstance(r, Ext) and r.dotted == "builtins.NotImplemented"):
                    return r
        raise Raised(ExcVal("TypeError", args=(f"unsupported operand for {names[0]}",)))

    def e_UnaryOp(self, e, env, mod):
        v = self.ev(e.operand, env, mod)
        if isinstance(e.op, ast.Not):
            return not self.truth(v)
        if isinstance(v, Rec):
            name = {ast.USub: "__neg__", ast.UAdd: "__pos__", ast.Invert: "__invert__"}[type(e.op)]
            f, _ = v.cls.lookup(name)
            if f is None:
                raise Raised(ExcVal("TypeError", args=(f"bad operand type for {name}",)))
            return self.call(Bound(f, v), [], {})
        if isinstance(e.op, ast.USub):
            return sym.neg(v)
        if isinstance(e.op, ast.UAdd):
            return v
        if isinstance(e.op, ast.Invert):
            return sym.inv(v)
        raise Unsupported("unary")

    def e_BoolOp(self, e, env, mod):
        if isinstance(e.op, ast.And):
            v = True
            for x in e.values:
                v = self.ev(x, env, mod)
                if not self.truth(v):
                    return v if not is_sym(v) else False
            return v
        v = False
        for x in e.values:
            v = self.ev(x, env, mod)
            if self.truth(v):
                return v if not is_sym(v) else v
        return v

    def e_Compare(self, e, env, mod):
        left = self.ev(e.left, env, mod)
        result = True
        for opn, c in zip(e.ops, e.comparators):
            right = self.ev(c, env, mod)
            r = self.compare(CMPOPS[type(opn)], left, right)
            if is_sym(r):
                if len(e.ops) == 1:
                    return r
                r = self.truth(r)
            if not r:
                return False
            left = right
        return result

    def compare(self, opname, a, b):
        if opname in ("is", "is not"):
            r = self._identity(a, b)
            if r is None:
                return sym.cmp(opname, a if is_sym(a) else repr(a), b if is_sym(b) else repr(b))
            return r if opname == "is" else not r
        if opname in ("in", "not in"):
            r = self.contains(b, a)
            if is_sym(r):
                return r if opname == "in" else sym.not_(r)
            return r if opname == "in" else not r
        if isinstance(a, Rec) and opname in ("==", "!="):
            f, _ = a.cls.lookup("__eq__")
            if f is None:
                r = a is b
            else:
                r = self.truth(self.call(Bound(f, a), [b], {}))
            return r if opname == "==" else not r
        if is_sym(a) or is_sym(b):
            d = self.decide_cmp(opname, a, b)
            if d is not None:
                return d
            return sym.cmp(opname, a, b)
        if isinstance(a, (ClassVal, Closure, BuiltinType, NewTypeVal, Ext, ModuleVal)) or isinstance(b, (ClassVal, Closure, BuiltinType, NewTypeVal, Ext, ModuleVal)):
            if opname in ("==", "!="):
                return (a is b) == (opname == "==")
        try:
            return sym.cmp(opname, a, b)
        except TypeError as ex:
            raise Raised(ExcVal("TypeError", args=(str(ex),))) from None

    def contains(self, container, item):
        if isinstance(container, Rec):
            return self.truth(self.call_method(container, "__contains__", [item]))
        if isinstance(container, SymDict):
            if item in container.items:
                return True
            return sym.op("in", item, container.base)
        if is_sym(item) and isinstance(container, dict) and item in container:
            return True
        if is_sym(container) or is_sym(item):
            if not is_sym(container) and isinstance(container, (tuple, list, set, frozenset, dict)) and is_sym(item):
                if sym.kind(item) == "int" and all(isinstance(x, int) for x in container):
                    # membership of an int atom in a finite set: fork per element is overkill; keep symbolic
                    return sym.op("in", item, tuple(container))
            if isinstance(container, dict):
                self.consts[id(container)] = container
                return sym.op("in", item, sym.op("const", id(container)))
            return sym.op("in", item, container if is_sym(container) else (tuple(sorted(container, key=repr)) if isinstance(container, (list, set, frozenset)) else container))
        try:
            return item in container
        except TypeError as ex:
            raise Raised(ExcVal("TypeError", args=(str(ex),))) from None

    def e_IfExp(self, e, env, mod):
        # "1" if <bit> else "0"  is  str(<bit>): a canonical form, not a fork (one fork per bit would be 2^n paths)
        if isinstance(e.body, ast.Constant) and isinstance(e.orelse, ast.Constant) and (e.body.value, e.orelse.value) == ("1", "0"):
            t = self.ev(e.test, env, mod)
            if is_sym(t) and t[0] == "op" and t[1] == "bit":
                return sym.op("str", t)
            return "1" if self.truth(t) else "0"
        return self.ev(e.body if self.truth(self.ev(e.test, env, mod)) else e.orelse, env, mod)

    def e_List(self, e, env, mod):
        out = []
        for x in e.elts:
            if isinstance(x, ast.Starred):
                out.extend(self.iterate(self.ev(x.value, env, mod)))
            else:
                out.append(self.ev(x, env, mod))
        return out

    def e_Tuple(self, e, env, mod):
        return tuple(self.e_List(e, env, mod))

    def e_Set(self, e, env, mod):
        return set(self.e_List(e, env, mod))

    def e_Dict(self, e, env, mod):
        out = {}
        base = None
        for k, v in zip(e.keys, e.values):
            if k is None:
                d = self.ev(v, env, mod)
                if isinstance(d, dict):
                    out.update(d)
                elif isinstance(d, SymDict):
                    base = d.base
                    out.update(d.items)
                elif is_sym(d):
                    base = d
                else:
                    raise Unsupported("dict spread")
            else:
                out[self.ev(k, env, mod)] = self.ev(v, env, mod)
        if base is not None:
            return SymDict(base, out)
        return out

    def e_Subscript(self, e, env, mod):
        obj = self.ev(e.value, env, mod)
        if isinstance(e.slice, ast.Slice):
            parts = [None if x is None else self.ev(x, env, mod) for x in (e.slice.lower, e.slice.upper, e.slice.step)]
            if is_sym(obj) or any(is_sym(p) for p in parts):
                return sym.op("slice", obj, *parts)
            if isinstance(obj, Rec):
                raise Unsupported("slice of record")
            return obj[slice(*parts)]
        key = self.ev(e.slice, env, mod)
        return self.getitem(obj, key)

    def getitem(self, obj, key):
        if isinstance(obj, SymDict):
            if not is_sym(key) and key in obj.items:
                return obj.items[key]
            return sym.op("item", obj.base, key)
        if is_sym(obj):
            return sym.op("item", obj, key)
        if isinstance(obj, Rec):
            return self.call_method(obj, "__getitem__", [key])
        if isinstance(obj, ClassVal):
            meta = getattr(self._find_meta(obj), "attrs", {}).get("__getitem__") if self._find_meta(obj) else None
            if meta is not None:
                return self.call(Bound(meta, obj), [key], {})
            raise Unsupported(f"subscript of class {obj!r}")
        if isinstance(obj, Ext):
            return Ext(obj.dotted + "[]")
        if is_sym(key) and isinstance(obj, dict) and key in obj:
            return obj[key]
        if is_sym(key):
            if isinstance(obj, (list, tuple)) and sym.kind(key) in ("int", "bool"):
                return sym.op("select", tuple(obj), key)
            if isinstance(obj, (list, dict)):
                self.consts[id(obj)] = obj
            return sym.op("item", obj if not isinstance(obj, (list, dict)) else sym.op("const", id(obj)), key)
        try:
            return obj[key]
        except (KeyError, IndexError, TypeError) as ex:
            raise Raised(ExcVal(type(ex).__name__, args=(repr(key),))) from None

    def _find_meta(self, cls):
        for c in cls.mro():
            m = getattr(c, "metaclass", None)
            if m is not None:
                return m
        return None

    def e_Attribute(self, e, env, mod):
        return self.getattr(self.ev(e.value, env, mod), e.attr)

    def getattr(self, obj, name):
        if self.attr_hook is not None:
            r = self.attr_hook(obj, name)
            if r is not NotImplemented:
                return r
        if isinstance(obj, StructVal):
            fmt = obj.format
            if name == "pack":
                return PyFn(lambda I_, a, k: I_.call_ext(Ext("struct.pack"), [fmt] + list(a), k, None, None, None), "Struct.pack")
            if name == "unpack":
                return PyFn(lambda I_, a, k: I_.call_ext(Ext("struct.unpack"), [fmt] + list(a), k, None, None, None), "Struct.unpack")
            if name == "size":
                return _struct.calcsize(fmt)
            if name == "format":
                return fmt
            raise Raised(ExcVal("AttributeError", args=(f"Struct.{name}",)))
        if isinstance(obj, Rec):
            if name in obj.fields:
                return obj.fields[name]
            if name == "__class__":
                return obj.cls
            v, owner = obj.cls.lookup(name)
            if v is None and owner is None:
                raise Raised(ExcVal("AttributeError", args=(f"{obj.cls.name}.{name}",)))
            if isinstance(v, PyFn):
                return v if getattr(v, "is_staticmethod", False) else Bound(v, obj)
            if isinstance(v, Closure):
                if getattr(v, "is_property", False):
                    return self.call(Bound(v, obj), [], {})         # @property: reading the attribute runs the getter
                if getattr(v, "is_classmethod", False):
                    return Bound(v, obj.cls)
                if getattr(v, "is_staticmethod", False):
                    return v
                return Bound(v, obj)
            return v
        if isinstance(obj, ClassVal):
            if name == "__name__":
                return obj.attrs.get("__name__", obj.name)
            v, owner = obj.lookup(name)
            if owner is None:
                raise Raised(ExcVal("AttributeError", args=(f"{obj.name}.{name}",)))
            if isinstance(v, Closure) and getattr(v, "is_classmethod", False):
                return Bound(v, obj)
            return v
        if isinstance(obj, ModuleVal):
            return self.module_get(obj.name, name)
        if isinstance(obj, (_inspect.Signature, _inspect.Parameter)) and name in ("parameters", "name", "kind", "default", "annotation", "return_annotation", "empty"):
            v = getattr(obj, name)
            return dict(v) if name == "parameters" else v
        if isinstance(obj, Ext):
            if obj.dotted == "re" and name in ("I", "IGNORECASE", "M", "S", "X"):
                return getattr(_re, name)
            if obj.dotted == "inspect.Parameter" and name in ("empty", "POSITIONAL_ONLY", "POSITIONAL_OR_KEYWORD", "VAR_POSITIONAL", "KEYWORD_ONLY", "VAR_KEYWORD"):
                return getattr(_inspect.Parameter, name)
            if obj.dotted == "math" and name in ("inf", "pi", "e", "tau"):
                import math as _math
                return getattr(_math, name)
            if obj.dotted == "sys" and name == "maxsize":
                import sys as _sys
                return _sys.maxsize
            return _ext_constant(obj.dotted + "." + name)
        if isinstance(obj, SuperProxy):
            mro = obj.obj.cls.mro() if isinstance(obj.obj, Rec) else obj.obj.mro()
            idx = mro.index(obj.after)
            for c in mro[idx + 1:]:
                if name in c.attrs:
                    v = c.attrs[name]
                    if isinstance(v, Closure):
                        if getattr(v, "is_classmethod", False):
                            return Bound(v, obj.obj if isinstance(obj.obj, ClassVal) else obj.obj.cls)
                        return Bound(v, obj.obj)
                    return v
            if name in ("__init__",):
                return SAFE_BUILTINS["len"].__class__  # placeholder callable: object.__init__
            if name == "__new__":
                return Ext("builtins.object.__new__")
            raise Raised(ExcVal("AttributeError", args=(name,)))
        if isinstance(obj, Closure):
            if name in obj.attrs:
                return obj.attrs[name]
            if name == "__name__":
                return obj.name
            if name in obj.attrs:
                return obj.attrs[name]
            raise Raised(ExcVal("AttributeError", args=(name,)))
        if isinstance(obj, NewTypeVal):
            if name == "__supertype__":
                return obj.supertype
            if name == "__name__":
                return obj.name
            raise Raised(ExcVal("AttributeError", args=(name,)))
        if isinstance(obj, BuiltinType):
            if name == "__name__":
                return obj.name
            if name.startswith("__"):
                raise Raised(ExcVal("AttributeError", args=(name,)))
            return Ext(f"builtins.{obj.name}.{name}")
        if isinstance(obj, ExcVal):
            return sym.op("attr", sym.var(f"exc:{obj.name}", "any"), name)
        if is_sym(obj):
            if sym.kind(obj) in ("str", "bytes") and name in SYM_METHODS:
                return ("symmethod", obj, name)
            return sym.op("attr", obj, name)
        if isinstance(obj, SymDict):
            return ("symdict-method", obj, name)
        if isinstance(obj, SymBytes):
            return ("symbytes-method", obj, name)
        for typ, names in SAFE_METHODS.items():
            if isinstance(obj, typ) and name in names:
                return ("method", obj, name)
        if isinstance(obj, _re.Pattern) and name in ("match", "fullmatch", "search"):
            return PyFn(lambda I_, a, k, obj=obj, name=name: (sym.var(f"match:{obj.pattern}", "obj") if I_.choose(("regexmatch", "re." + name, obj.pattern, a[0])) else None)
                        if any(is_sym(x) for x in a) else getattr(obj, name)(*a), "Pattern." + name)
        if isinstance(obj, _re.Match) and name in ("end", "start", "group", "groups", "span"):
            return ("method", obj, name)
        if isinstance(obj, _re.Pattern) and name in ("match", "pattern", "flags", "fullmatch", "search"):
            return ("method", obj, name) if name in ("match", "fullmatch", "search") else getattr(obj, name)
        if hasattr(obj, "__class__") and type(obj).__name__ == "defaultdict" and name in SAFE_METHODS[dict]:
            return ("method", obj, name)
        if hasattr(obj, name) and not isinstance(obj, (Rec, ClassVal, Closure)):
            raise Unsupported(f"{type(obj).__name__}.{name} is not modelled")
        raise Raised(ExcVal("AttributeError", args=(f"{type(obj).__name__}.{name}",)))

    def e_JoinedStr(self, e, env, mod):
        parts = []
        symbolic = False
        for v in e.values:
            if isinstance(v, ast.Constant):
                parts.append(v.value)
            else:
                try:
                    x = self.ev(v.value, env, mod)
                except Unsupported:
                    x = sym.var("?fmt", "any")
                if isinstance(x, Rec) and v.format_spec is None:
                    # f"{obj!r}" / f"{obj}" of an object of the package: its own __repr__ / __str__ when that gives a plain string
                    for mname in (("__repr__",) if v.conversion == ord("r") else ("__str__", "__repr__")):
                        if x.cls.lookup(mname)[0] is not None:
                            try:
                                r_ = self.call_method(x, mname, [])
                            except (Raised, Unsupported):
                                r_ = None
                            if isinstance(r_, str) and not is_sym(r_):
                                x = r_
                            break
                if isinstance(x, str) and not is_sym(x) and not isinstance(v.value, ast.Constant) and v.format_spec is None and v.conversion in (-1, ord("s")):
                    parts.append(x)
                    continue
                if is_sym(x) or isinstance(x, (Rec, ClassVal, Closure, SymDict, Bound)):
                    symbolic = True
                    parts.append(x if is_sym(x) else sym.var(f"repr:{type(x).__name__}", "str"))
                else:
                    spec = ""
                    if v.format_spec is not None:
                        spec = self.ev(v.format_spec, env, mod)
                    if v.conversion == ord("r"):
                        x = repr(x)
                    elif v.conversion == ord("s"):
                        x = str(x)
                    try:
                        parts.append(format(x, spec) if not is_sym(spec) else str(x))
                    except (TypeError, ValueError):
                        parts.append(str(x))
        if symbolic:
            # f"{a}.{b}" of strings without conversions or format specs is the concatenation a + "." + b
            plain = all(isinstance(v, ast.Constant) or (v.format_spec is None and v.conversion == -1) for v in e.values)
            if plain and all((not is_sym(p_) and isinstance(p_, str)) or (is_sym(p_) and sym.kind(p_) == "str") for p_ in parts):
                out = ""
                for p_ in parts:
                    out = sym.cat(out, p_)
                return out
            return sym.op("format", *parts)
        return "".join(parts)

    def e_FormattedValue(self, e, env, mod):
        return self.ev(e.value, env, mod)

    def e_Lambda(self, e, env, mod):
        fn = Closure(e, env, mod, cls_ctx=getattr(env, "cls_ctx", None))
        fn.defaults = [self.ev(d, env, mod) for d in e.args.defaults]
        fn.kw_defaults = [None if d is None else self.ev(d, env, mod) for d in e.args.kw_defaults]
        return fn

    def e_Starred(self, e, env, mod):
        raise Unsupported("starred")

    def _comp(self, e, env, mod, emit):
        def rec(i, env_i):
            if i == len(e.generators):
                emit(env_i)
                return
            g = e.generators[i]
            it = self.ev(g.iter, env_i, mod)
            if is_sym(it):
                raise _SymIter(it, g)
            for item in self.iterate(it):
                env2 = Env(env_i)
                self.assign(g.target, item, env2, mod)
                if all(self.truth(self.ev(c, env2, mod)) for c in g.ifs):
                    rec(i + 1, env2)
        rec(0, Env(env))

    def e_ListComp(self, e, env, mod):
        out = []
        try:
            self._comp(e, env, mod, lambda en: out.append(self.ev(e.elt, en, mod)))
        except _SymIter as si:
            return self._sym_map(e, env, mod, si)
        return out

    def e_GeneratorExp(self, e, env, mod):
        return self.e_ListComp(e, env, mod)

    def e_SetComp(self, e, env, mod):
        return set(self.e_ListComp(e, env, mod))

    def e_DictComp(self, e, env, mod):
        out = {}

        def emit(en):
            out[self.ev(e.key, en, mod)] = self.ev(e.value, en, mod)
        self._comp(e, env, mod, emit)
        return out

    def _sym_map(self, e, env, mod, si):
        if len(e.generators) != 1 or si.gen.ifs:
            raise Unsupported("comprehension over symbolic iterable")
        env2 = Env(env)
        elem = sym.op("elem", si.it)
        self.assign(si.gen.target, elem, env2, mod)
        return sym.op("map", self.ev(e.elt, env2, mod), si.it)

    def e_Yield(self, e, env, mod):
        if not self.gen_stack:
            raise Unsupported("yield outside generator")
        self.gen_stack[-1].append(self.ev(e.value, env, mod) if e.value is not None else None)
        return None

    def e_NamedExpr(self, e, env, mod):
        v = self.ev(e.value, env, mod)
        self.store_name(e.target.id, v, env)
        return v

    # ------------------------------------------------------------------ calls
    def e_Call(self, e, env, mod):
        f = self.ev(e.func, env, mod)
        args = []
        for a in e.args:
            if isinstance(a, ast.Starred):
                v = self.ev(a.value, env, mod)
                if is_sym(v):
                    args.append(("*", v))
                else:
                    args.extend(self.iterate(v))
            else:
                args.append(self.ev(a, env, mod))
        kwargs = {}
        for k in e.keywords:
            if k.arg is None:
                d = self.ev(k.value, env, mod)
                if not isinstance(d, dict):
                    raise Unsupported("**kwargs of non-dict")
                kwargs.update(d)
            else:
                kwargs[k.arg] = self.ev(k.value, env, mod)
        return self.call(f, args, kwargs, node=e, env=env, mod=mod)

    def call_method(self, obj, name, args):
        if isinstance(obj, Rec):
            f, _ = obj.cls.lookup(name)
            if f is None:
                if name in ("__enter__",):
                    return obj
                if name == "__exit__":
                    return None
                raise Raised(ExcVal("AttributeError", args=(f"{obj.cls.name}.{name}",)))
            return self.call(Bound(f, obj), list(args), {})
        if is_sym(obj):
            if name == "__enter__":
                return obj
            if name == "__exit__":
                return False
            return sym.op("call", sym.op("attr", obj, name), *args)
        raise Unsupported(f"method {name} on {obj!r}")

    def call(self, f, args, kwargs, node=None, env=None, mod=None):
        if self.call_hook is not None:
            r = self.call_hook(self, f, args, kwargs, node)
            if r is not NotImplemented:
                return r
        if isinstance(f, PyFn):
            return f.fn(self, list(args), kwargs)
        if isinstance(f, Bound):
            if isinstance(f.fn, Closure):
                return self.call_closure(f.fn, [f.selfobj] + list(args), kwargs, node)
            return self.call(f.fn, [f.selfobj] + list(args), kwargs, node)
        if isinstance(f, Closure):
            return self.call_closure(f, args, kwargs, node)
        if isinstance(f, ClassVal):
            return self.instantiate(f, args, kwargs, node)
        if isinstance(f, Rec):
            c, _ = f.cls.lookup("__call__")
            if c is None:
                raise Raised(ExcVal("TypeError", args=("not callable",)))
            return self.call(Bound(c, f), args, kwargs, node)
        if isinstance(f, tuple) and len(f) == 3 and f[0] == "method":
            return self.call_builtin_method(f[1], f[2], args, kwargs)
        if isinstance(f, tuple) and len(f) == 3 and f[0] == "symmethod":
            return self.call_sym_method(f[1], f[2], args, kwargs)
        if isinstance(f, tuple) and len(f) == 3 and f[0] == "symbytes-method":
            ba, name = f[1], f[2]
            if name == "append":
                x = args[0]
                ba.value = sym.cat(ba.value, sym.op("byte", x) if is_sym(x) else bytes([x]))
                return None
            if name == "extend":
                ba.value = sym.cat(ba.value, args[0])
                return None
            raise Unsupported("bytearray method " + name)
        if isinstance(f, tuple) and len(f) == 3 and f[0] == "symdict-method":
            d, name = f[1], f[2]
            if name == "get":
                if args[0] in d.items:
                    return d.items[args[0]]
                return sym.op("item", d.base, args[0])
            if name == "copy" and not args:
                return SymDict(d.base, d.items)
            raise Unsupported("symdict method " + name)
        if isinstance(f, BuiltinType):
            return self.call_builtin_type(f, args, kwargs)
        if isinstance(f, Ext):
            return self.call_ext(f, args, kwargs, node, env, mod)
        if isinstance(f, NewTypeVal):
            return args[0]
        if is_sym(f) and sym.kind(f) in ("int", "bool", "str", "bytes"):
            raise Raised(ExcVal("TypeError", args=(f"'{sym.kind(f)}' object is not callable",)))
        if is_sym(f):
            flat = [a for a in args]
            self.effect("call", f, tuple(flat))
            return sym.op("call", f, *flat)
        if f in SAFE_BUILTINS.values():
            return self.call_safe_builtin(f, args, kwargs)
        if f is SAFE_BUILTINS["len"].__class__:
            return None
        if f is None or isinstance(f, (int, float, str, bytes, list, tuple, dict)) or isinstance(f, SymDict) or (is_sym(f) and False):
            raise Raised(ExcVal("TypeError", args=(f"'{type(f).__name__}' object is not callable",)))
        raise Unsupported(f"call of {f!r}")

    def call_safe_builtin(self, f, args, kwargs):
        if any(isinstance(a, tuple) and len(a) == 2 and a[0] == "*" for a in args):
            raise Unsupported("star-args of symbolic sequence into builtin")
        if any(isinstance(a, SymBytes) for a in args):
            args = [a.value if isinstance(a, SymBytes) else a for a in args]
            if f in (bytes, bytearray) and len(args) == 1:
                return args[0] if f is bytes else SymBytes(args[0])
        if f is divmod and len(args) == 2 and any(is_sym(a) for a in args):
            return (sym.floordiv(args[0], args[1]), sym.mod(args[0], args[1]))
        if f is len:
            x = args[0]
            if isinstance(x, SymBytes):
                x = x.value
            if isinstance(x, Rec):
                return self.call_method(x, "__len__", [])
            if is_sym(x):
                return sym.length(x)
            if x is None or isinstance(x, (int, float, bool)):
                raise Raised(ExcVal("TypeError", args=(f"object of type '{type(x).__name__}' has no len()",)))     # the PROGRAM's error
            return len(x)
        if f is repr or f is str:
            x = args[0] if args else ""
            if isinstance(x, Rec):
                m, _ = x.cls.lookup("__repr__")
                if m is not None:
                    try:
                        return self.call(Bound(m, x), [], {})
                    except Raised:
                        pass
                return sym.var(f"repr:{x.cls.name}", "str")
            if is_sym(x):
                return sym.op("str", x)
            if isinstance(x, (ClassVal, Closure, BuiltinType, Ext, NewTypeVal)):
                return f"<{getattr(x, 'name', x)}>"
        if f is format:
            if any(is_sym(a) for a in args):
                return sym.op("format", *args)
            if isinstance(args[0], (Rec, ClassVal, Closure)):
                raise Unsupported("format() of a record")
        if f is sum and args and is_sym(args[0]):
            return sym.op("sum", args[0])
        if f is sum and args and not is_sym(args[0]):
            total = args[1] if len(args) > 1 else 0
            for x in self.iterate(args[0]):
                total = self.binop(ast.Add(), total, x)
            return total
        if f in (min, max) and any(is_sym(a) for a in args):
            return sym.op(f.__name__, *args)
        if f is int and args and is_sym(args[0]):
            if sym.kind(args[0]) == "int":
                return args[0]
            return sym.op("int", *args)
        if f in (chr, ord, bin, oct, hex, abs, bool) and is_sym(args[0]):
            if f is bool:
                return self.truth(args[0])
            return sym.op(f.__name__, args[0])
        if f in (bytes, bytearray) and args and is_sym(args[0]):
            if sym.kind(args[0]) in ("int", "bool"):
                return sym.rep(b"\x00", args[0])       # bytes(n): n zero bytes
            return sym.op("bytesof", args[0])
        if f in (list, tuple) and args and is_sym(args[0]):
            return args[0]
        if f in (sorted, list, tuple, set, frozenset, enumerate, zip, reversed, all, any, map, filter, dict) and args:
            args = [self.iterate(a) if not callable(a) and not isinstance(a, (int, Closure)) and i == 0 and f not in (map, filter) else a for i, a in enumerate(args)]
            if f in (map, filter):
                fn = args[0]
                seqs = [list(self.iterate(a)) for a in args[1:]]
                if f is map:
                    return [self.call(fn, list(xs), {}) for xs in zip(*seqs)]
                return [x for x in seqs[0] if self.truth(self.call(fn, [x], {}) if fn is not None else x)]
            if f is sorted and "key" in kwargs:
                key = kwargs["key"]
                items = list(args[0])
                keyed = [(self.call(key, [x], {}), i, x) for i, x in enumerate(items)]
                keyed.sort(key=lambda t: (t[0], t[1]))
                out = [x for _, _, x in keyed]
                if kwargs.get("reverse"):
                    out.reverse()
                return out
            if f in (all, any):
                vals = [self.truth(x) for x in args[0]]
                return f(vals)
        try:
            r = f(*args, **kwargs)
        except (ValueError, TypeError, KeyError, IndexError, OverflowError, ZeroDivisionError) as ex:
            raise Raised(ExcVal(type(ex).__name__, args=(str(ex),))) from None
        if f in (enumerate, zip, reversed, map, filter, iter):
            r = list(r)
        return r

    def call_builtin_type(self, f, args, kwargs):
        if f.name in BUILTIN_EXC:
            e = ExcVal(f.name, args=tuple(args))
            return e
        if f.name == "type":
            if len(args) == 1:
                x = args[0]
                if isinstance(x, Rec):
                    return x.cls
                if x is None:
                    return self.none_type()
                if is_sym(x):
                    k = sym.kind(x)
                    if k in self.builtin_types:
                        return self.builtin_types[k]
                    return sym.op("type", x)
                for n, t in BUILTIN_TYPES.items():
                    if type(x) is t:
                        return self.builtin_types[n]
                raise Unsupported(f"type() of {x!r}")
            raise Unsupported("3-arg type()")
        if f.name == "object":
            return Rec(ClassVal("object"))
        if f.name == "dict" and len(args) == 1 and (isinstance(args[0], SymDict) or (is_sym(args[0]) and sym.kind(args[0]) in ("any", "dict"))):
            # dict(state): a copy of a symbolic mapping
            x = args[0]
            return SymDict(x.base, {**x.items, **kwargs}) if isinstance(x, SymDict) else SymDict(x, dict(kwargs))
        if f.name == "bytearray":
            if not args:
                return SymBytes(b"")
            if isinstance(args[0], (bytes, bytearray)):
                return SymBytes(bytes(args[0]))
            if is_sym(args[0]):
                return SymBytes(args[0] if sym.kind(args[0]) == "bytes" else sym.op("bytesof", args[0]))
        return self.call_safe_builtin(f.pytype, args, kwargs)

    def none_type(self):
        if "NoneType" not in self.builtin_types:
            self.builtin_types["NoneType"] = BuiltinType("NoneType", type(None))
        return self.builtin_types["NoneType"]

    def call_builtin_method(self, obj, name, args, kwargs):
        if name == "join" and args and is_sym(args[0]):
            it = args[0]
            if it[0] == "op" and it[1] == "map":
                return sym.op("joinmap", obj, it[2], it[3])
            return sym.op("join", obj, it)
        if name == "join" and args and not is_sym(args[0]):
            items = list(self.iterate(args[0]))
            if any(is_sym(x) for x in items):
                out = b"" if isinstance(obj, (bytes, bytearray)) else ""
                for i, x in enumerate(items):
                    if i and len(obj):
                        out = sym.cat(out, obj)
                    out = sym.cat(out, x)
                return out
            args = [items]
        if name == "sort" and isinstance(obj, list):
            key = kwargs.get("key")
            if key is not None:
                keyed = [(self.call(key, [x], {}), i, x) for i, x in enumerate(obj)]
                if any(is_sym(k) or (isinstance(k, tuple) and any(is_sym(z) for z in k)) for k, _, _ in keyed):
                    raise Unsupported("sort with symbolic keys")
                try:
                    keyed.sort(key=lambda t: (t[0], t[1]))
                except TypeError as ex:
                    raise Raised(ExcVal("TypeError", args=(str(ex),))) from None      # the program compares incomparable keys
                obj[:] = [x for _, _, x in keyed]
                if kwargs.get("reverse"):
                    obj.reverse()
                return None
        if name in ("append", "extend") and isinstance(obj, bytearray) and any(is_sym(a) for a in args):
            raise Unsupported("symbolic bytearray append")
        if any(is_sym(a) for a in args):
            if name == "index" and isinstance(obj, (str, list, tuple)):
                return sym.op("index", obj if isinstance(obj, str) else tuple(obj), *args)
            if name in ("append", "insert", "setdefault", "get", "extend", "update", "add", "count"):
                pass
            elif name in ("ljust", "rjust") and isinstance(obj, (bytes, str)):
                return sym.op("ljustb" if isinstance(obj, bytes) else "ljust", obj, *args)
            elif name == "format":
                return sym.op("format", obj, *args)
            else:
                raise Unsupported(f"symbolic argument to {type(obj).__name__}.{name}")
        if name == "encode" and isinstance(obj, str):
            enc = args[0] if args else "utf-8"
            if enc == "bk":
                raise Unsupported("bk codec is part of the repo; use the codec rule")
        try:
            return getattr(obj, name)(*args, **kwargs)
        except (ValueError, TypeError, KeyError, IndexError, UnicodeError, LookupError) as ex:
            raise Raised(ExcVal(type(ex).__name__, args=(str(ex),))) from None

    def call_sym_method(self, obj, name, args, kwargs):
        if name == "isdigit":
            parts = obj[2:] if obj[0] == "op" and obj[1] == "cat" else (obj,)
            ok = True
            for p in parts:
                if is_sym(p):
                    if not (p[0] == "op" and p[1] == "str" and is_sym(p[2]) and p[2][0] == "op" and p[2][1] == "bit"):
                        ok = False
                elif not (isinstance(p, str) and p.isdigit()):
                    ok = False
            if ok:
                return True
            return self.choose(("isdigit", obj))
        if name in ("count", "rfind", "find") and args:
            # s[a:b].count(x) == s.count(x, a, b)   (for find/rfind only with a == 0, where indexes agree)
            base, lo, hi = obj, 0, None
            if obj[0] == "op" and obj[1] == "slice" and obj[5] is None:
                base, lo, hi = obj[2], (obj[3] if obj[3] is not None else 0), obj[4]
                if name != "count" and not (not is_sym(lo) and lo == 0):
                    base, lo, hi = obj, 0, None
            if len(args) > 1:
                if not (not is_sym(lo) and lo == 0 and hi is None):
                    return sym.op("call", sym.op("attr", obj, name), *args)
                lo = args[1]
                hi = args[2] if len(args) > 2 else None
            return sym.op(name, base, args[0], lo, hi)
        if name in ("lower", "upper"):
            if obj[0] == "op" and obj[1] in ("lower", "upper"):
                return sym.op(name, obj[2])
            return sym.op(name, obj)
        if name == "encode":
            return sym.op("encode", obj, *(args or ["utf-8"]))
        if name in ("ljust", "rjust"):
            return sym.op(name + ("b" if sym.kind(obj) == "bytes" else ""), obj, *args)
        if name in ("startswith", "endswith"):
            return sym.op(name, obj, *args)
        if name == "join":
            return self.call_builtin_method(obj, name, args, kwargs)
        return sym.op("call", sym.op("attr", obj, name), *args)

    # external (stdlib) models ------------------------------------------------
    def call_ext(self, f, args, kwargs, node, env, mod):
        d = f.dotted
        if d in self.ext_models:
            return self.ext_models[d](self, args, kwargs)
        if d == "builtins.isinstance":
            return self.isinstance(args[0], args[1])
        if d.startswith("unicodedata.") and not kwargs and all(isinstance(a, (str, int)) and not is_sym(a) for a in args):
            import unicodedata
            fnc = getattr(unicodedata, d.split(".", 1)[1], None)
            if callable(fnc):
                try:
                    return fnc(*args)
                except (ValueError, TypeError) as ex:
                    raise Raised(ExcVal(type(ex).__name__)) from None
        if d == "itertools.groupby" and args:
            items = list(self.iterate(args[0]))
            keyf = kwargs.get("key") if "key" in kwargs else (args[1] if len(args) > 1 else None)
            out = []
            for it_ in items:
                k_ = self.call(keyf, [it_], {}) if keyf is not None else it_
                if is_sym(k_):
                    raise Unsupported("itertools.groupby with a symbolic key")
                if out and out[-1][0] == k_:
                    out[-1][1].append(it_)
                else:
                    out.append((k_, [it_]))
            # each group is an iterator, as in Python: it can be consumed once and cannot be indexed or measured
            return [(k_, iter(g_)) for k_, g_ in out]
        if d == "operator.itemgetter" and args and not kwargs:
            idx = list(args)
            if len(idx) == 1:
                return PyFn(lambda I_, a, k: I_.getitem(a[0], idx[0]), "itemgetter")
            return PyFn(lambda I_, a, k: tuple(I_.getitem(a[0], i_) for i_ in idx), "itemgetter")
        if d == "operator.methodcaller" and args and isinstance(args[0], str):
            mn_, margs_, mkw_ = args[0], list(args[1:]), dict(kwargs)
            return PyFn(lambda I_, a, k: I_.call(I_.getattr(a[0], mn_), margs_, mkw_), "methodcaller")
        if d == "operator.attrgetter" and len(args) == 1 and isinstance(args[0], str) and "." not in args[0]:
            nm_ = args[0]
            return PyFn(lambda I_, a, k: I_.getattr(a[0], nm_), "attrgetter")
        if d == "functools.partial" and args:
            f0, pre, prek = args[0], list(args[1:]), dict(kwargs)
            return PyFn(lambda I_, a, k: I_.call(f0, pre + list(a), {**prek, **k}), "partial")
        if d in ("functools.lru_cache", "functools.cache", "functools.wraps"):
            # within ONE abstract run a memoised function behaves like the function (what a cache does across assemblies is rule G5.memo)
            if len(args) == 1 and not kwargs and isinstance(args[0], (Closure, Bound)) and d != "functools.wraps":
                return args[0]
            return PyFn(lambda I_, a, k: a[0])
        if d == "builtins.issubclass":
            a, b = args
            bs = b if isinstance(b, tuple) else (b,)
            if isinstance(a, ClassVal):
                return any(x in a.mro() for x in bs)
            if isinstance(a, BuiltinType):
                return any(x is a for x in bs)
            raise Unsupported("issubclass")
        if d == "builtins.hasattr":
            obj, name = args
            try:
                self.getattr(obj, name)
                return True
            except Raised:
                return False
        if d == "builtins.getattr":
            try:
                return self.getattr(args[0], args[1])
            except Raised:
                if len(args) > 2:
                    return args[2]
                raise
        if d == "builtins.setattr":
            self.setattr(args[0], args[1], args[2])
            return None
        if d == "builtins.callable":
            return isinstance(args[0], (Closure, Bound, ClassVal, BuiltinType, Ext)) or \
                (isinstance(args[0], Rec) and args[0].cls.lookup("__call__")[0] is not None) or callable(args[0]) and not is_sym(args[0])
        if d == "builtins.open":
            self.effect("open", tuple(args), tuple(sorted(kwargs.items())))
            return sym.var("file", "obj")
        if d == "builtins.print":
            self.effect("print", tuple(args), kwargs.get("file"))
            return None
        if d in ("sys.stderr.write", "sys.stdout.write") and len(args) == 1:
            # stream.write(text): recorded like print(text, end='', file=stream); one trailing newline is the line end consumers add back
            t_ = args[0]
            if isinstance(t_, str) and not is_sym(t_) and t_.endswith("\n"):
                t_ = t_[:-1]
            self.effect("print", (t_,), Ext(d.rsplit(".", 1)[0]))
            return None
        if d in ("sys.stderr.flush", "sys.stdout.flush"):
            return None
        if d == "builtins.super":
            if args:
                raise Unsupported("super with args")
            e = env
            selfobj = None
            cls_ctx = None
            while e is not None:
                if getattr(e, "fn_self", None) is not None and cls_ctx is None:
                    selfobj = e.fn_self
                    cls_ctx = e.fn_cls_ctx
                e = e.parent
            if selfobj is None or cls_ctx is None:
                raise Unsupported("super() outside method")
            return SuperProxy(selfobj, cls_ctx)
        if d == "builtins.object.__new__":
            return Rec(args[0])
        if d == "builtins.id" or d == "builtins.hash":
            return sym.op(d.split(".")[1], *[a if is_sym(a) else sym.var("obj", "any") for a in args])
        if d == "builtins.__builtins__.get" or d == "builtins.__builtins__[]":
            # `__builtins__.get(name, None)`: whether a builtin of that name exists
            import builtins as _b
            name = args[0]
            if hasattr(_b, name):
                return Ext("builtins." + name)
            return args[1] if len(args) > 1 else None
        if d in ("bisect.bisect_right", "bisect.bisect_left", "bisect.bisect") and not kwargs and 2 <= len(args) <= 4 \
                and isinstance(args[0], (list, tuple)) and all(isinstance(x, (int, str)) and not isinstance(x, bool) for x in list(args[0]) + list(args[1:])):
            import bisect as _bisect
            return getattr(_bisect, d.split(".")[1])(list(args[0]), *args[1:])
        if d == "struct.Struct":
            if not args or not isinstance(args[0], (str, bytes)):
                raise Unsupported("struct.Struct with a format that is not a literal")
            return StructVal(args[0])
        if d == "struct.calcsize" and args and isinstance(args[0], (str, bytes)):
            return _struct.calcsize(args[0])
        if d == "struct.pack":
            flat = []
            for a in args:
                flat.append(a)
            try:
                return sym.pack(*flat)
            except _struct.error as ex:
                raise Raised(ExcVal("struct.error", args=(str(ex),))) from None
        if d == "builtins.int.from_bytes":
            order = args[1] if len(args) > 1 else kwargs.get("byteorder", "big")
            if kwargs.get("signed"):
                raise Unsupported("signed from_bytes")
            if is_sym(args[0]):
                return _from_bytes(args[0], order)
            return int.from_bytes(args[0], order)
        if d == "struct.unpack":
            if any(is_sym(a) for a in args):
                if args[0] in ("<H", ">H", "<I", ">I", "<B", "B") and _known_len(args[1]) == _struct.calcsize(args[0]):
                    return (_from_bytes(args[1], "little" if args[0][0] in "<B" else "big"),)
                return (sym.op("unpack", *args),)      # operand of unproven length: struct.error is possible
            return _struct.unpack(*args)
        if d == "struct.calcsize":
            return _struct.calcsize(*args)
        if d == "re.compile":
            return _re.compile(*args, **kwargs)
        if d in ("re.fullmatch", "re.match", "re.search"):
            if any(is_sym(a) for a in args):
                return sym.var(f"match:{args[0]}", "obj") if self.choose(("regexmatch", d, args[0], args[1])) else None
            m = getattr(_re, d.split(".")[1])(*args, **kwargs)
            return m
        if d in ("re.sub", "re.subn", "re.split", "re.findall") and not any(is_sym(a) for a in args) and not any(is_sym(v) for v in kwargs.values()):
            if d in ("re.sub", "re.subn") and len(args) >= 3 and isinstance(args[1], (Closure, Bound, PyFn)):
                pat, fn_, text = args[0], args[1], args[2]
                rx = pat if isinstance(pat, _re.Pattern) else _re.compile(pat, kwargs.get("flags", 0) or (args[4] if len(args) > 4 else 0))
                out, last, n_ = [], 0, 0
                for m_ in rx.finditer(text):
                    out.append(text[last:m_.start()])
                    rep = self.call(fn_, [m_], {})
                    if is_sym(rep):
                        raise Unsupported("re.sub with a symbolic replacement")
                    out.append(rep)
                    last = m_.end()
                    n_ += 1
                out.append(text[last:])
                return "".join(out) if d == "re.sub" else ("".join(out), n_)
            try:
                return getattr(_re, d.split(".")[1])(*args, **kwargs)
            except (TypeError, ValueError, _re.error) as ex:
                raise Raised(ExcVal(type(ex).__name__, args=(str(ex),))) from None
        if d == "re.escape":
            return _re.escape(*args)
        if d in ("re.I", "re.IGNORECASE"):
            return _re.I
        if d == "typing.NewType":
            return NewTypeVal(args[0], args[1])
        if d == "inspect.Parameter" and len(args) >= 2:
            kw_ = {k_: v_ for k_, v_ in kwargs.items() if k_ in ("default", "annotation")}
            try:
                return _inspect.Parameter(args[0], args[1], **kw_)
            except (TypeError, ValueError) as ex:
                raise Raised(ExcVal(type(ex).__name__, args=(str(ex),))) from None
        if d == "inspect.Signature":
            params_ = list(args[0]) if args else list(kwargs.get("parameters", []))
            try:
                return _inspect.Signature(params_, **({"return_annotation": kwargs["return_annotation"]} if "return_annotation" in kwargs else {}))
            except (TypeError, ValueError) as ex:
                raise Raised(ExcVal(type(ex).__name__, args=(str(ex),))) from None
        if d == "inspect.signature":
            fn = args[0]
            if isinstance(fn, Closure) and isinstance(fn.attrs.get("__signature__"), _inspect.Signature):
                return fn.attrs["__signature__"]          # an explicit __signature__ is what inspect.signature() reports
            if not isinstance(fn, Closure):
                raise Unsupported("inspect.signature of non-function")
            a = fn.node.args
            P = _inspect.Parameter
            params = []
            pos = a.posonlyargs + a.args
            nd = len(getattr(fn, "defaults", []))
            for i, p in enumerate(pos):
                kind_ = P.POSITIONAL_ONLY if i < len(a.posonlyargs) else P.POSITIONAL_OR_KEYWORD
                default = fn.defaults[i - (len(pos) - nd)] if i >= len(pos) - nd else P.empty
                params.append(P(p.arg, kind_, default=_Wrapped(default) if default is not P.empty and not isinstance(default, (int, str, type(None), bool, bytes)) else default))
            if a.vararg:
                params.append(P(a.vararg.arg, P.VAR_POSITIONAL))
            for i, p in enumerate(a.kwonlyargs):
                params.append(P(p.arg, P.KEYWORD_ONLY, default=fn.kw_defaults[i] if a.kw_defaults[i] is not None else P.empty))
            if a.kwarg:
                params.append(P(a.kwarg.arg, P.VAR_KEYWORD))
            return _inspect.Signature(params)
        if d in ("typing.get_origin",):
            return None
        if d in ("typing.get_args",):
            return ()
        if d == "typing.get_type_hints":
            fn = args[0]
            if isinstance(fn, Closure) and isinstance(fn.attrs.get("__annotations__"), dict):
                return dict(fn.attrs["__annotations__"])      # annotations assigned after the definition (generated functions)
            if isinstance(fn, Closure):
                return self.type_hints(fn)
            raise Unsupported("get_type_hints of non-function")
        if d == "collections.Counter":
            src = args[0] if args else {}
            if isinstance(src, dict):
                return CounterDict(src)
            out_ = CounterDict()
            for it_ in self.iterate(src):
                out_[it_] = self.binop(ast.Add(), out_.get(it_, 0), 1)
            return out_
        if d == "collections.defaultdict":
            import collections
            fac = args[0] if args else None
            if fac is None:
                return collections.defaultdict()
            if isinstance(fac, BuiltinType):
                return collections.defaultdict(fac.pytype)
            raise Unsupported("defaultdict factory")
        if d == "codecs.register" or d == "codecs.CodecInfo":
            self.effect("ext", d, tuple(args), tuple(sorted(kwargs.items(), key=lambda kv: kv[0])))
            return sym.var(d, "any")
        if d == "float":
            return float(*args)
        if d in ("os.path.normpath", "os.path.join", "os.path.dirname", "os.path.abspath", "os.path.basename"):
            if any(is_sym(a) for a in args):
                return sym.op(d.split(".")[-1], *args)
            import os as _os
            return getattr(_os.path, d.split(".")[-1])(*args)
        raise Unsupported(f"external call {d}")

    def e_ext_value(self, d):
        return Ext(d)

    def type_hints(self, fn):
        node = fn.node
        out = {}
        a = node.args
        for arg in a.posonlyargs + a.args + a.kwonlyargs + ([a.vararg] if a.vararg else []) + ([a.kwarg] if a.kwarg else []):
            if arg.annotation is not None:
                out[arg.arg] = self.ev(arg.annotation, fn.env, fn.module)
        if getattr(node, "returns", None) is not None:
            out["return"] = self.ev(node.returns, fn.env, fn.module)
        return out

    def isinstance(self, x, c):
        cs = c if isinstance(c, tuple) else (c,)
        for t in cs:
            # isinstance(SomeClass, an_instance): 'isinstance() arg 2 must be a type, a tuple of types, or a union'
            if isinstance(t, Rec) or isinstance(t, (int, str, bytes, list, dict)) and not isinstance(t, bool) or t is None or isinstance(t, (SymDict,)) \
                    or (is_sym(t) and sym.kind(t) in ("int", "str", "bytes", "bool")):
                raise Raised(ExcVal("TypeError", args=("isinstance() arg 2 must be a type, a tuple of types, or a union",)))
        if self.isinstance_hook is not None:
            r = self.isinstance_hook(x, cs)
            if r is not None:
                return r
        undecided = False
        for t in cs:
            if isinstance(x, Rec):
                if isinstance(t, ClassVal) and t in x.cls.mro():
                    return True
                if isinstance(t, BuiltinType) and t.name == "object":
                    return True
                continue
            if isinstance(x, ClassVal):
                if isinstance(t, BuiltinType) and t.name == "type":
                    return True
                continue
            if isinstance(x, BuiltinType):
                if isinstance(t, BuiltinType) and t.name == "type":
                    return True
                continue
            if isinstance(x, ExcVal):
                if self.exc_isa(x, t):
                    return True
                continue
            if isinstance(x, (Closure, Bound, NewTypeVal, Ext, ModuleVal)):
                continue
            if isinstance(x, SymDict):
                if isinstance(t, BuiltinType) and t.name == "dict":
                    return True
                continue
            if is_sym(x):
                k = sym.kind(x)
                if isinstance(t, BuiltinType):
                    if k == t.name or (k == "bool" and t.name == "int"):
                        return True
                    if k == "any":
                        undecided = True
                    continue
                if isinstance(t, ClassVal):
                    if k == "any":
                        undecided = True
                    continue
                if isinstance(t, Ext):
                    raise Unsupported(f"isinstance against {t!r}")
                continue
            if isinstance(t, BuiltinType) and t.pytype is not None:
                if isinstance(x, t.pytype):
                    return True
                continue
            if isinstance(t, ClassVal):
                continue
            if isinstance(t, Ext):
                raise Unsupported(f"isinstance against {t!r}")
            raise Unsupported(f"isinstance({x!r}, {t!r})")
        if undecided:
            return self.choose(("isinstance", x, tuple(getattr(t, "name", str(t)) for t in cs)))
        return False

    # closures -------------------------------------------------------------------
    def call_closure(self, fn, args, kwargs, node=None):
        qual = None
        mod = fn.module
        if id(fn.node) in mod.qualname_of:
            qual = f"{mod.name}::{mod.qualname_of[id(fn.node)]}"
        if qual is not None and qual not in self.summaries and self.summaries:
            # a module-level function that other modules re-export under the same name (moved to a new module, old names kept
            # importable): a summary registered under any of those names is a summary of this function
            for alias in self._reexported_as(mod.name, qual.split("::")[1]):
                if alias in self.summaries:
                    qual = alias
                    break
        if qual in self.summaries:
            if kwargs and self.summaries[qual] is not None:
                # summaries look at arguments by position: a call spelled with keywords is the same call
                # (the keywords stay available by name as well)
                args = self.positional(fn, args, kwargs)
            r = self.summaries[qual](self, fn, args, kwargs)
            if r is not NotImplemented:
                return r
        self.depth += 1
        self.qual_stack.append(qual)
        if self.depth > MAX_DEPTH:
            self.depth -= 1
            self.qual_stack.pop()
            # one function making up half of a full call stack is runaway recursion in the
            # program (Python raises RecursionError); anything else is the analysis running out of depth
            top = max(set(self.qual_stack), key=self.qual_stack.count)
            if top is not None and self.qual_stack.count(top) >= SELF_RECURSION:
                raise Raised(ExcVal("RecursionError", args=(f"maximum recursion depth exceeded in {top}",)))
            raise Unsupported("call depth")
        try:
            env = Env(fn.env)
            env.cls_ctx = None
            self.bind_args(fn, env, args, kwargs)
            a = fn.node.args
            params = a.posonlyargs + a.args
            if params and fn.cls_ctx is not None and args:
                env.fn_self = args[0]
                env.fn_cls_ctx = fn.cls_ctx
            if isinstance(fn.node, ast.Lambda):
                return self.ev(fn.node.body, env, mod)
            is_gen = getattr(fn.node, "_is_gen", None)
            if is_gen is None:
                is_gen = fn.node._is_gen = any(isinstance(n, (ast.Yield, ast.YieldFrom)) for n in _walk_local(fn.node))
            if is_gen:
                self.gen_stack.append([])
                try:
                    try:
                        self.exec_block(fn.node.body, env, mod)
                    except _Return:
                        pass
                    return list(self.gen_stack[-1])
                finally:
                    self.gen_stack.pop()
            try:
                self.exec_block(fn.node.body, env, mod)
            except _Return as r:
                return r.value
            return None
        finally:
            self.depth -= 1
            self.qual_stack.pop()

    def _reexported_as(self, defmod, name):
        cache = self.__dict__.setdefault("_reexports", None)
        if cache is None:
            cache = self.__dict__["_reexports"] = {}
            for m_ in self.repo.modules.values():
                for local, imp in m_.imports.items():
                    if imp[0] == "name":
                        cache.setdefault((imp[1], imp[2]), []).append(f"{m_.name}::{local}")
                # module-level aliases kept for compatibility:  wait = BaseDeferred.wait_for ;  old_name = new_name
                for st in getattr(m_, "tree", ast.Module([], [])).body:
                    if isinstance(st, ast.Assign) and len(st.targets) == 1 and isinstance(st.targets[0], ast.Name):
                        v = st.value
                        if isinstance(v, ast.Attribute) and isinstance(v.value, ast.Name):
                            cache.setdefault((m_.name, f"{v.value.id}.{v.attr}"), []).append(f"{m_.name}::{st.targets[0].id}")
                        elif isinstance(v, ast.Name):
                            cache.setdefault((m_.name, v.id), []).append(f"{m_.name}::{st.targets[0].id}")
            # aliases of aliases (imported under the old name elsewhere)
            for (dm, nm), als in list(cache.items()):
                for a_ in list(als):
                    am, _, an = a_.partition("::")
                    for b_ in cache.get((am, an), []):
                        if b_ not in als:
                            als.append(b_)
        return cache.get((defmod, name), [])

    def positional(self, fn, args, kwargs):
        """the arguments of a call in parameter order (keyword arguments moved to their positions; stops at the first parameter
        that was not given) - for summaries that inspect what a callee was handed, whatever the call's spelling"""
        node = getattr(fn, "node", None)
        if node is None or not kwargs:
            return list(args)
        params = [p.arg for p in node.args.posonlyargs + node.args.args]
        out = list(args)
        for name in params[len(out):]:
            if name in kwargs:
                out.append(kwargs[name])
            else:
                break
        return out

    def bind_args(self, fn, env, args, kwargs):
        a = fn.node.args
        params = [p.arg for p in a.posonlyargs + a.args]
        defaults = getattr(fn, "defaults", [])
        args = list(args)
        symstar = None
        if any(isinstance(x, tuple) and len(x) == 2 and x[0] == "*" for x in args):
            idx = [i for i, x in enumerate(args) if isinstance(x, tuple) and len(x) == 2 and x[0] == "*"][0]
            symstar = args[idx][1]
            if idx != len(args) - 1:
                raise Unsupported("symbolic *args not last")
            args = args[:idx]
        kwargs = dict(kwargs)
        n = len(params)
        for i, p in enumerate(params):
            if i < len(args):
                env.vars[p] = args[i]
            elif p in kwargs:
                env.vars[p] = kwargs.pop(p)
            elif i >= n - len(defaults):
                env.vars[p] = defaults[i - (n - len(defaults))]
            elif symstar is not None:
                raise Unsupported("symbolic *args bound to positional parameter")
            else:
                raise Raised(ExcVal("TypeError", args=(f"missing argument {p} for {fn.name}",)))
        extra = args[n:]
        if a.vararg:
            if symstar is not None:
                if extra:
                    raise Unsupported("mixed concrete and symbolic varargs")
                env.vars[a.vararg.arg] = symstar
            else:
                env.vars[a.vararg.arg] = tuple(extra)
        elif extra:
            raise Raised(ExcVal("TypeError", args=(f"too many arguments for {fn.name}",)))
        kwd = getattr(fn, "kw_defaults", [])
        for i, p in enumerate(a.kwonlyargs):
            if p.arg in kwargs:
                env.vars[p.arg] = kwargs.pop(p.arg)
            elif i < len(kwd) and a.kw_defaults[i] is not None:
                env.vars[p.arg] = kwd[i]
            else:
                raise Raised(ExcVal("TypeError", args=(f"missing kw-only {p.arg}",)))
        if a.kwarg:
            env.vars[a.kwarg.arg] = kwargs
        elif kwargs:
            raise Raised(ExcVal("TypeError", args=(f"unexpected keyword {list(kwargs)} for {fn.name}",)))

    def instantiate(self, cls, args, kwargs, node=None):
        if cls.is_exception():
            e = ExcVal(cls.name, cls=cls, args=tuple(args), node=node)
            rec = Rec(cls)
            rec.fields["args"] = tuple(args)
            init, owner = cls.lookup("__init__")
            if init is not None:
                self.call(Bound(init, rec), args, kwargs)
            e.rec = rec
            return e
        new, _ = cls.lookup("__new__")
        if new is not None:
            obj = self.call_closure(new, [cls] + list(args), kwargs)
        else:
            obj = Rec(cls)
        if isinstance(obj, Rec) and cls in obj.cls.mro():
            init, _ = cls.lookup("__init__")
            if init is not None:
                self.call(Bound(init, obj), args, kwargs)
            elif args or kwargs:
                raise Raised(ExcVal("TypeError", args=(f"{cls.name}() takes no arguments",)))
        return obj


def _walk_local(fn):
    stack = list(fn.body)
    while stack:
        n = stack.pop()
        yield n
        if isinstance(n, FUNC_TYPES + (ast.ClassDef,)):
            continue
        stack.extend(ast.iter_child_nodes(n))


def _known_len(x):
    """length of a symbolic bytes value when its form fixes it: x[:k].ljust(w, pad) with k <= w has w bytes"""
    if is_sym(x) and x[:2] == ("op", "ljustb") and len(x) == 5 and isinstance(x[3], int):
        y = x[2]
        if is_sym(y) and y[:2] == ("op", "slice") and y[3] is None and isinstance(y[4], int) and 0 <= y[4] <= x[3] and y[5] is None:
            return x[3]
    if is_sym(x) and x[:2] == ("op", "pack") and isinstance(x[2], str):
        try:
            return _struct.calcsize(x[2])
        except Exception:
            return None
    return None


def _from_bytes(x, order):
    # little-endian: trailing zero padding does not change the value
    while order == "little" and is_sym(x) and x[:2] == ("op", "ljustb") and len(x) == 5 and x[4] == b"\x00":
        x = x[2]
    return sym.op("from_bytes", x, order)


class _Wrapped:
    def __init__(self, v):
        self.v = v


class _SymIter(Exception):
    def __init__(self, it, gen):
        self.it = it
        self.gen = gen


def _decorate_builtin_wrappers(interp):
    """classmethod / staticmethod / property decorators"""
    def cm(i, args, kwargs):
        args[0].is_classmethod = True
        return args[0]

    def sm(i, args, kwargs):
        args[0].is_staticmethod = True
        return args[0]
    def pm(i, args, kwargs):
        args[0].is_property = True
        return args[0]
    interp.ext_models.setdefault("builtins.classmethod", cm)
    interp.ext_models.setdefault("builtins.staticmethod", sm)
    interp.ext_models.setdefault("builtins.property", pm)


_orig_load = Interp.load_name


def _load_name(self, name, env, mod):
    if name in ("classmethod", "staticmethod", "property"):
        _decorate_builtin_wrappers(self)
        return Ext("builtins." + name)
    return _orig_load(self, name, env, mod)


Interp.load_name = _load_name
