"""E1: load and index the repository under analysis (never imported, only parsed)."""
import ast
import os
import pathlib

MODULES = [
    "__init__", "__main__", "_cli", "architecture", "bk_encoding", "bk_wav", "builtins", "cli",
    "compiler", "containers", "context", "deferred", "devices", "formats", "insns",
    "metacommand_impl", "metacommands", "operators", "parser", "radix50", "reports", "types",
    "version",
]


class AnalysisError(Exception):
    """The analyser cannot give a verdict (anchor vanished, unsupported construct): exit 2."""


class Unknown(AnalysisError):
    pass


FUNC_TYPES = (ast.FunctionDef, ast.AsyncFunctionDef, ast.Lambda)


class Module:
    def __init__(self, name, path, source):
        self.name = name
        self.path = path
        self.source = source
        self.tree = ast.parse(source, filename=str(path))
        self.imports = {}       # local name -> ("module", modname) | ("name", modname, attr) | ("ext", dotted)
        self.functions = {}     # qualname (without module) -> node
        self.classes = {}       # qualname -> ClassDef
        self.qualname_of = {}   # id(node) -> qualname


class Repo:
    def __init__(self, root=None):
        root = root or os.environ.get("VERIF_REPO", "/repo")
        self.root = pathlib.Path(root)
        self.pkg = self.root / "pdpy11"
        if not self.pkg.is_dir():
            raise AnalysisError(f"package directory {self.pkg} not found")
        self.modules = {}
        present = sorted(p.stem for p in self.pkg.glob("*.py"))
        for name in present:
            path = self.pkg / (name + ".py")
            try:
                src = path.read_text(encoding="utf-8")
                mod = Module(name, path, src)
            except (OSError, SyntaxError, UnicodeDecodeError) as ex:
                raise AnalysisError(f"cannot parse {path}: {ex}") from None
            self.modules[name] = mod
        missing = [m for m in MODULES if m not in self.modules]
        if missing:
            raise AnalysisError(f"modules missing from the package: {missing}")
        for mod in self.modules.values():
            self._index(mod)

    # ------------------------------------------------------------------
    def _index(self, mod):
        for node in ast.walk(mod.tree):
            for child in ast.iter_child_nodes(node):
                child._parent = node
        mod.tree._parent = None
        lam_counter = {}

        def visit(node, prefix):
            for child in ast.iter_child_nodes(node):
                if isinstance(child, (ast.FunctionDef, ast.AsyncFunctionDef)):
                    q = f"{prefix}.{child.name}" if prefix else child.name
                    q = self._uniq(mod.functions, q)
                    mod.functions[q] = child
                    mod.qualname_of[id(child)] = q
                    child._module = mod
                    visit(child, q)
                elif isinstance(child, ast.ClassDef):
                    q = f"{prefix}.{child.name}" if prefix else child.name
                    mod.classes[q] = child
                    mod.qualname_of[id(child)] = q
                    child._module = mod
                    visit(child, q)
                elif isinstance(child, ast.Lambda):
                    n = lam_counter.get(prefix, 0) + 1
                    lam_counter[prefix] = n
                    q = f"{prefix}.<lambda#{n}>" if prefix else f"<lambda#{n}>"
                    mod.functions[q] = child
                    mod.qualname_of[id(child)] = q
                    child._module = mod
                    visit(child, q)
                else:
                    visit(child, prefix)

        visit(mod.tree, "")
        # imports (module level and function level alike; names are unique enough in this repo)
        for node in ast.walk(mod.tree):
            if isinstance(node, ast.ImportFrom):
                if node.level >= 1:
                    src = node.module  # None for "from . import x"
                    for a in node.names:
                        local = a.asname or a.name
                        if src is None:
                            mod.imports[local] = ("module", a.name)
                        else:
                            mod.imports[local] = ("name", src, a.name)
                else:
                    for a in node.names:
                        mod.imports[a.asname or a.name] = ("ext", f"{node.module}.{a.name}")
            elif isinstance(node, ast.Import):
                for a in node.names:
                    mod.imports[a.asname or a.name.split(".")[0]] = ("ext", a.name if a.asname else a.name.split(".")[0])

    @staticmethod
    def _uniq(table, q):
        if q not in table:
            return q
        i = 2
        while f"{q}#{i}" in table:
            i += 1
        return f"{q}#{i}"

    # ------------------------------------------------------------------
    def module(self, name):
        try:
            return self.modules[name]
        except KeyError:
            raise Unknown(f"module {name} not found") from None

    def func(self, qual):
        """qual = 'module::Qual.name'"""
        modname, _, q = qual.partition("::")
        mod = self.module(modname)
        if q not in mod.functions:
            raise Unknown(f"anchor vanished: function {qual}")
        return mod.functions[q]

    def has_func(self, qual):
        modname, _, q = qual.partition("::")
        return modname in self.modules and q in self.modules[modname].functions

    def cls(self, qual):
        modname, _, q = qual.partition("::")
        mod = self.module(modname)
        if q not in mod.classes:
            raise Unknown(f"anchor vanished: class {qual}")
        return mod.classes[q]

    def qual(self, node):
        mod = self.module_of(node)
        return f"{mod.name}::{mod.qualname_of.get(id(node), '?')}"

    def module_of(self, node):
        n = node
        while getattr(n, "_parent", None) is not None:
            n = n._parent
        for mod in self.modules.values():
            if mod.tree is n:
                return mod
        raise Unknown("node does not belong to a loaded module")

    def enclosing_function(self, node):
        n = getattr(node, "_parent", None)
        while n is not None and not isinstance(n, FUNC_TYPES):
            n = getattr(n, "_parent", None)
        return n

    def enclosing_scope_qual(self, node):
        """qualified name of the innermost function/class/module containing node"""
        n = node
        mod = self.module_of(node)
        while n is not None:
            if isinstance(n, FUNC_TYPES + (ast.ClassDef,)) and id(n) in mod.qualname_of:
                return f"{mod.name}::{mod.qualname_of[id(n)]}"
            n = getattr(n, "_parent", None)
        return f"{mod.name}::<module>"

    def all_functions(self):
        for mod in self.modules.values():
            for q, node in mod.functions.items():
                yield f"{mod.name}::{q}", node

    def all_classes(self):
        for mod in self.modules.values():
            for q, node in mod.classes.items():
                yield f"{mod.name}::{q}", node

    def module_assign(self, modname, name):
        """value node of the (single) module-level assignment `name = ...`"""
        mod = self.module(modname)
        found = []
        for s in mod.tree.body:
            if isinstance(s, ast.Assign):
                for t in s.targets:
                    if isinstance(t, ast.Name) and t.id == name:
                        found.append(s.value)
            elif isinstance(s, ast.AnnAssign) and isinstance(s.target, ast.Name) and s.target.id == name and s.value is not None:
                found.append(s.value)
        if len(found) != 1:
            raise Unknown(f"anchor vanished: {modname}.{name} has {len(found)} module-level assignments")
        return found[0]

    # class hierarchy ---------------------------------------------------
    def resolve_name(self, mod, name):
        """Resolve a bare name used in `mod` to ('func'|'class'|'module'|'ext'|'var', qual)"""
        if name in mod.functions:
            return ("func", f"{mod.name}::{name}")
        if name in mod.classes:
            return ("class", f"{mod.name}::{name}")
        if name in mod.imports:
            imp = mod.imports[name]
            if imp[0] == "module":
                return ("module", imp[1])
            if imp[0] == "name":
                src = self.modules.get(imp[1])
                if src is None:
                    return ("ext", f"{imp[1]}.{imp[2]}")
                if imp[2] in src.functions:
                    return ("func", f"{src.name}::{imp[2]}")
                if imp[2] in src.classes:
                    return ("class", f"{src.name}::{imp[2]}")
                if imp[2] in src.imports:
                    return self.resolve_name(src, imp[2])
                return ("var", f"{src.name}::{imp[2]}")
            return ("ext", imp[1])
        return ("var", f"{mod.name}::{name}")

    def bases(self, clsqual):
        node = self.cls(clsqual)
        mod = node._module
        out = []
        for b in node.bases:
            if isinstance(b, ast.Name):
                kind, q = self.resolve_name(mod, b.id)
                out.append(q if kind == "class" else b.id)
            elif isinstance(b, ast.Attribute) and isinstance(b.value, ast.Name):
                kind, q = self.resolve_name(mod, b.value.id)
                if kind == "module" and q in self.modules and b.attr in self.modules[q].classes:
                    out.append(f"{q}::{b.attr}")
                else:
                    out.append(ast.unparse(b))
            else:
                out.append(ast.unparse(b))
        return out

    def mro(self, clsqual):
        out = []
        todo = [clsqual]
        while todo:
            c = todo.pop(0)
            if c in out:
                continue
            out.append(c)
            if "::" in c:
                try:
                    todo = self.bases(c) + todo
                except Unknown:
                    pass
        return out

    def is_subclass(self, clsqual, basequal):
        return basequal in self.mro(clsqual)

    def subclasses(self, basequal):
        return [q for q, _ in self.all_classes() if self.is_subclass(q, basequal)]

    def find_method(self, clsqual, name):
        for c in self.mro(clsqual):
            if "::" not in c:
                continue
            modname, _, q = c.partition("::")
            mod = self.modules.get(modname)
            if mod and f"{q}.{name}" in mod.functions:
                return f"{modname}::{q}.{name}"
        return None

    # decorator registries ------------------------------------------------
    def decorated(self, modname, decorator_name):
        """[(funcnode, decorator_call_or_name)] for top-level functions decorated by name"""
        mod = self.module(modname)
        out = []
        for s in mod.tree.body:
            if isinstance(s, ast.FunctionDef):
                for d in s.decorator_list:
                    f = d.func if isinstance(d, ast.Call) else d
                    if isinstance(f, ast.Name) and f.id == decorator_name:
                        out.append((s, d))
                    elif isinstance(f, ast.Attribute) and f.attr == decorator_name:
                        out.append((s, d))
        return out


def walk_local(fn):
    """Walk the body of a function without descending into nested functions/classes."""
    body = fn.body if isinstance(fn.body, list) else [fn.body]
    stack = list(reversed(body))
    while stack:
        n = stack.pop()
        yield n
        if isinstance(n, FUNC_TYPES + (ast.ClassDef,)):
            continue
        stack.extend(reversed(list(ast.iter_child_nodes(n))))


def norm_text(node):
    """Normalised text of a construct, used as a line-independent key."""
    try:
        return " ".join(ast.unparse(node).split())
    except Exception:  # pragma: no cover
        return "<?>"


def public_qual(q):
    """'module::Class.method.inner.fn' -> 'module::Class.method': findings and discharge tables are keyed by the enclosing
    public function, so that renaming a local helper does not change a key."""
    if "::" not in q:
        return q
    mod, _, rest = q.partition("::")
    parts = rest.split(".")
    # class components start with an upper-case letter in this repo; keep them plus the first function component
    out = []
    for p_ in parts:
        out.append(p_)
        if not (p_[:1].isupper()) or p_.startswith("<"):
            break
    return mod + "::" + ".".join(out)
