"""E3: algebraic normal forms over opaque atoms (device 2).

A symbolic value is an `S` (a tagged tuple). Everything else is an ordinary concrete Python value.
    ("var", name, kind)                      opaque atom; kind in {"int","bytes","str","bool","any",...}
    ("lin", ((term, coeff), ...), const)     integer linear form, terms sorted, no zero coefficients
    ("op", name, *args)                      any other operation (args: S or concrete)
Two expressions are equal iff their normal forms are equal (structural equality of the tuples).
"""
import struct


class S(tuple):
    # terms are immutable and share sub-terms freely (a DAG): the hash is computed once per node from the children's cached
    # hashes - tuple.__hash__ would re-walk the unfolded tree, which is exponential in the depth of a shared chain
    def __hash__(self):
        try:
            return self.__dict__["_h"]
        except KeyError:
            h = self.__dict__["_h"] = tuple.__hash__(self)
            return h

    def __eq__(self, other):
        if self is other:
            return True
        if isinstance(other, S):
            try:
                if hash(self) != hash(other):
                    return False
            except TypeError:          # a term that carries an unhashable constant (a dict, a list)
                pass
        return tuple.__eq__(self, other)

    def __ne__(self, other):
        r = self.__eq__(other)
        return r if r is NotImplemented else not r

    def __repr__(self):
        return show(self)

    # never let an S be used as a Python truth value / number by accident
    def __bool__(self):
        raise TypeError("truth value of a symbolic expression")


def is_sym(x):
    return isinstance(x, S)


def var(name, kind="int"):
    return S(("var", name, kind))


def op(name, *args):
    return S(("op", name) + tuple(args))


def _key(x):
    return (type(x).__name__, repr(x))


def kind(x):
    """Static kind of a value: 'int', 'bytes', 'str', 'bool', 'none', 'any'"""
    if isinstance(x, S):
        if x[0] == "var":
            return x[2]
        if x[0] == "lin":
            return "int"
        name = x[1]
        if name in ("cat", "rep", "slice"):
            for part in x[2:]:
                k = kind(part)
                if k in ("bytes", "str"):
                    return k
            return "bytes" if name != "slice" else "any"
        if name in ("mod", "floordiv", "shl", "shr", "and", "or", "xor", "inv", "pow", "mul", "len", "get_as_int",
                    "int", "abs", "ord", "sum", "count", "index", "bit", "select_int", "rfind", "find", "from_bytes"):
            return "int"
        if name in ("cat", "pack", "rep", "joinmap", "bytesof", "encode", "ljustb", "rjustb", "slice_b", "sized", "byte"):
            return "bytes"
        if name in ("strcat", "format", "lower", "upper", "get_as_str", "str", "chr", "repr", "normpath", "join", "dirname", "abspath", "basename", "relpath"):
            return "str"
        if name in ("cmp", "not", "isinstance", "and_", "or_", "in"):
            return "bool"
        if name == "ifexp":
            a, b = kind(x[3]), kind(x[4])
            return a if a == b else "any"
        if name == "item":
            k = kind(x[2])
            return "str" if k == "str" else ("int" if k == "bytes" else "any")
        if name == "call" and isinstance(x[2], S) and x[2][:2] == ("op", "attr") and x[2][3] == "save":
            return "obj"      # Context.save(): a (non-None) source position
        if name == "resolve":
            return "any"
        return "any"
    if isinstance(x, bool):
        return "bool"
    if isinstance(x, int):
        return "int"
    if isinstance(x, (bytes, bytearray)):
        return "bytes"
    if isinstance(x, str):
        return "str"
    if x is None:
        return "none"
    return "any"


# --------------------------------------------------------------------------- linear forms
def _lin_parts(x):
    """-> (dict term->coeff, const) for an int-like value"""
    if isinstance(x, S):
        if x[0] == "lin":
            return dict(x[1]), x[2]
        return {x: 1}, 0
    if isinstance(x, bool):
        return {}, int(x)
    if isinstance(x, int):
        return {}, x
    raise TypeError(f"not an integer value: {x!r}")


def _mk_lin(terms, const):
    terms = {t: c for t, c in terms.items() if c != 0}
    if not terms:
        return const
    if len(terms) == 1 and const == 0:
        (t, c), = terms.items()
        if c == 1:
            return t
    return S(("lin", tuple(sorted(terms.items(), key=lambda tc: _key(tc[0]))), const))


def add(a, b):
    if not is_sym(a) and not is_sym(b):
        return a + b
    ka, kb = kind(a), kind(b)
    if "bytes" in (ka, kb) or "str" in (ka, kb):
        return cat(a, b)
    if ka in ("any",) and kb in ("any",):
        # unknown kinds: keep as an opaque commutative sum only if both are atoms of unknown kind
        pass
    ta, ca = _lin_parts(a)
    tb, cb = _lin_parts(b)
    for t, c in tb.items():
        ta[t] = ta.get(t, 0) + c
    return _mk_lin(ta, ca + cb)


def neg(a):
    if not is_sym(a):
        return -a
    t, c = _lin_parts(a)
    return _mk_lin({k: -v for k, v in t.items()}, -c)


def sub(a, b):
    if not is_sym(a) and not is_sym(b):
        return a - b
    return add(a, neg(b))


def _factors(t):
    if t is None:
        return []
    if isinstance(t, S) and t[0] == "op" and t[1] == "mul":
        return list(t[2:])
    return [t]


def _mono(t1, t2):
    f = sorted(_factors(t1) + _factors(t2), key=_key)
    if not f:
        return None
    if len(f) == 1:
        return f[0]
    return op("mul", *f)


def mul(a, b):
    if not is_sym(a) and not is_sym(b):
        return a * b
    # bytes/str repetition
    for x, y in ((a, b), (b, a)):
        if kind(x) in ("bytes", "str"):
            if not is_sym(y) and not is_sym(x):
                return x * y
            return rep(x, y)
    # a * 2**b == a << b
    for x, y in ((a, b), (b, a)):
        if is_sym(y) and y[0] == "op" and y[1] == "pow" and y[2] == 2:
            return shl(x, y[3])
    for x, y in ((a, b), (b, a)):
        if is_sym(y) and y[0] == "op" and y[1] == "shl" and not is_sym(y[2]) and y[2] == 1:
            return shl(x, y[3])
    # polynomial normal form: distribute, monomials are sorted products of atoms
    ta, ca = _lin_parts(a)
    tb, cb = _lin_parts(b)
    out = {}
    const = ca * cb
    for t1, c1 in list(ta.items()) + [(None, ca)]:
        for t2, c2 in list(tb.items()) + [(None, cb)]:
            if t1 is None and t2 is None:
                continue
            m = _mono(t1, t2)
            out[m] = out.get(m, 0) + c1 * c2
    return _mk_lin(out, const)


def rep(x, n):
    if not is_sym(x) and not is_sym(n):
        return x * n
    # canonical form: one repeated byte/character, the unit length folded into the count:  b"\0\0" * n == b"\0" * (2*n)
    if isinstance(x, (bytes, str)) and len(x) > 1 and len(set(x)) == 1:
        return op("rep", x[:1], mul(len(x), n))
    return op("rep", x, n)


def floordiv(a, b):
    if not is_sym(a) and not is_sym(b):
        return a // b
    return op("floordiv", a, b)


def mod(a, b):
    if not is_sym(a) and not is_sym(b):
        return a % b
    # canonical form modulo b: multiples of b vanish and an inner (y mod b) is y:   (b - x % b) % b == (-x) % b
    if is_sym(a) and (a[0] == "lin" or (a[0] == "op" and a[1] == "mod")):
        try:
            terms, const = _lin_parts(a)
        except TypeError:
            terms = None
        if terms is not None:
            out, changed = {}, False
            for t, c in terms.items():
                if t == b:
                    changed = True
                    continue                                  # c * b
                if isinstance(t, S) and t[0] == "op" and t[1] == "mod" and t[3] == b:
                    it, ic = _lin_parts(t[2])
                    for t2, c2 in it.items():
                        out[t2] = out.get(t2, 0) + c * c2
                    const += c * ic
                    changed = True
                    continue
                out[t] = out.get(t, 0) + c
            if not is_sym(b) and isinstance(b, int) and b > 0 and const % b != const:
                const, changed = const % b, True
            if changed:
                a = _mk_lin(out, const)
                if not is_sym(a) and not is_sym(b):
                    return a % b
    return op("mod", a, b)


def pow_(a, b):
    if not is_sym(a) and not is_sym(b):
        return a ** b
    return op("pow", a, b)


def shl(a, b):
    if not is_sym(a) and not is_sym(b):
        return a << b if b >= 0 else op("shl", a, b)
    return op("shl", a, b)


def shr(a, b):
    if not is_sym(a) and not is_sym(b):
        return a >> b
    if not is_sym(b) and b == 0:
        return a
    return op("shr", a, b)


def _comm(name, a, b, fold):
    if not is_sym(a) and not is_sym(b):
        return fold(a, b)
    args = sorted([a, b], key=_key)
    return op(name, *args)


def band(a, b):
    # (x >> i) & 1  ==  bit i of x
    for x, y in ((a, b), (b, a)):
        if not is_sym(y) and y == 1 and is_sym(x):
            if x[0] == "op" and x[1] == "shr" and not is_sym(x[3]):
                return op("bit", x[2], x[3])
            if x[0] == "op" and x[1] == "mod" and x[3] == 2:
                return op("bit", x[2], 0)
            if not (x[0] == "op" and x[1] == "bit"):
                return op("bit", x, 0)
            return x
    # x & (2**k - 1)  ==  x mod 2**k   (for every Python int, negative ones included)
    for x, y in ((a, b), (b, a)):
        if is_sym(x) and not is_sym(y) and isinstance(y, int) and y > 1 and (y & (y + 1)) == 0:
            return mod(x, y + 1)
    return _comm("and", a, b, lambda x, y: x & y)


def _le_word(a, b):
    """item(E, 0) | item(E, 1) << 8 with E = two bytes (ljust(x[:2], 2, b"\0")) is int.from_bytes(x[:2], "little")"""
    if isinstance(a, S) and isinstance(b, S) and a[:2] == ("op", "item") and a[3] == 0 and b[:2] == ("op", "shl") and b[3] == 8 \
            and isinstance(b[2], S) and b[2][:2] == ("op", "item") and b[2][3] == 1 and b[2][2] == a[2]:
        e = a[2]
        if isinstance(e, S) and e[:2] == ("op", "ljustb") and len(e) == 5 and e[3] == 2 and e[4] == b"\x00" and isinstance(e[2], S) and e[2][:2] == ("op", "slice") \
                and tuple(e[2][3:]) == (None, 2, None):
            return op("from_bytes", e[2], "little")
    return None


def bor(a, b):
    w = _le_word(a, b)
    if w is None:
        w = _le_word(b, a)
    if w is not None:
        return w
    return _comm("or", a, b, lambda x, y: x | y)


def bxor(a, b):
    return _comm("xor", a, b, lambda x, y: x ^ y)


def inv(a):
    if not is_sym(a):
        return ~a
    return op("inv", a)


# --------------------------------------------------------------------------- sequences
def cat(a, b):
    parts = []
    for x in (a, b):
        if is_sym(x) and x[0] == "op" and x[1] == "cat":
            parts.extend(x[2:])
        else:
            parts.append(x)
    out = []
    for p in parts:
        if not is_sym(p):
            if isinstance(p, bytearray):
                p = bytes(p)
            if len(p) == 0:
                continue
            if out and not is_sym(out[-1]) and type(out[-1]) is type(p):
                out[-1] = out[-1] + p
                continue
        out.append(p)
    if not out:
        return b"" if "bytes" in (kind(a), kind(b)) else ""
    if len(out) == 1:
        return out[0]
    return op("cat", *out)


def length(x):
    if not is_sym(x):
        return len(x)
    if x[0] == "op":
        n = x[1]
        if n == "cat":
            total = 0
            for p in x[2:]:
                total = add(total, length(p))
            return total
        if n == "pack":
            return struct.calcsize(x[2])
        if n == "rep":
            return mul(length(x[2]), x[3])
        if n == "joinmap":
            # sep.join(elt for _ in it): only for an empty separator
            sep, elt, it = x[2], x[3], x[4]
            if not is_sym(sep) and len(sep) == 0:
                return mul(length(elt), length(it))
        if n == "map":
            return length(x[3])
        if n == "sized":
            return x[2]
        if n == "byte":
            return 1
        if n == "ifexp":
            return ifexp(x[2], length(x[3]), length(x[4]))
    return op("len", x)


def pack(fmt, *args):
    """struct.pack normal form: explicit-byte-order formats (no padding) are split into one pack per field, so that
    pack('<HH', a, b) and pack('<H', a) + pack('<H', b) have the same normal form."""
    if not any(is_sym(a) for a in args):
        return struct.pack(fmt, *args)
    import re
    if fmt and fmt[0] in "<>=!":
        items = re.findall(r"(\d*)([a-zA-Z?])", fmt[1:])
        fields = []
        for cnt, ch in items:
            if ch in "sp":
                fields.append((cnt or "1") + ch)
            elif ch == "x":
                fields.append(None)
            else:
                fields += [ch] * (int(cnt) if cnt else 1)
        if len([f for f in fields if f is not None]) == len(args) and len(fields) == 1 and fields[0] is not None:
            return op("pack", fmt[0] + fields[0], *args)      # canonical spelling: '<1B' == '<B'
        if len([f for f in fields if f is not None]) == len(args) and len(fields) > 1:
            out = b""
            it = iter(args)
            for f in fields:
                if f is None:
                    out = cat(out, b"\x00")
                else:
                    a = next(it)
                    out = cat(out, struct.pack(fmt[0] + f, a) if not is_sym(a) else op("pack", fmt[0] + f, a))
            return out
    return op("pack", fmt, *args)


def ifexp(c, a, b):
    if not is_sym(c):
        return a if c else b
    if not is_sym(a) and not is_sym(b) and type(a) is type(b) and a == b:
        return a
    if is_sym(a) and is_sym(b) and a == b:
        return a
    return op("ifexp", c, a, b)


_NEG = {"<": ">=", "<=": ">", ">": "<=", ">=": "<", "==": "!=", "!=": "==", "is": "is not", "is not": "is",
        "in": "not in", "not in": "in"}


def cmp(opname, a, b):
    if not is_sym(a) and not is_sym(b):
        import operator as o
        table = {"<": o.lt, "<=": o.le, ">": o.gt, ">=": o.ge, "==": o.eq, "!=": o.ne,
                 "is": o.is_, "is not": o.is_not, "in": lambda x, y: x in y, "not in": lambda x, y: x not in y}
        return table[opname](a, b)
    return op("cmp", opname, a, b)


def not_(a):
    if not is_sym(a):
        return not a
    if a[0] == "op" and a[1] == "cmp":
        return op("cmp", _NEG[a[2]], a[3], a[4])
    if a[0] == "op" and a[1] == "not":
        return a[2]
    return op("not", a)


# --------------------------------------------------------------------------- pretty printing
def show(x):
    if not isinstance(x, S):
        if isinstance(x, int) and not isinstance(x, bool) and abs(x) >= 64:
            return f"{x}" if x < 0 else f"{x}(0o{x:o})"
        return repr(x)
    if x[0] == "var":
        return x[1]
    if x[0] == "lin":
        out = []
        for t, c in x[1]:
            s = show(t)
            out.append(("+" if c > 0 else "-") + ("" if abs(c) == 1 else f"{abs(c)}*") + s)
        if x[2]:
            out.append(("+" if x[2] > 0 else "-") + str(abs(x[2])))
        r = "".join(out)
        return "(" + (r[1:] if r.startswith("+") else r) + ")"
    name = x[1]
    args = x[2:]
    if name == "cmp":
        return f"({show(args[1])} {args[0]} {show(args[2])})"
    if name == "item":
        return f"{show(args[0])}[{show(args[1])}]"
    if name == "attr":
        return f"{show(args[0])}.{args[1]}"
    return f"{name}(" + ", ".join(show(a) for a in args) + ")"


def subst(x, mapping):
    """Replace atoms/sub-expressions by mapping (dict S -> value), re-normalising on the way up."""
    if isinstance(x, S):
        if x in mapping:
            return mapping[x]
        if x[0] == "var":
            return x
        if x[0] == "lin":
            total = x[2]
            for t, c in x[1]:
                total = add(total, mul(subst(t, mapping), c))
            return total
        name = x[1]
        args = [subst(a, mapping) for a in x[2:]]
        return rebuild(name, args)
    if isinstance(x, tuple):
        return tuple(subst(a, mapping) for a in x)
    return x


def rebuild(name, args):
    table = {"mod": mod, "floordiv": floordiv, "shl": shl, "shr": shr, "and": band, "or": bor, "xor": bxor,
             "pow": pow_, "mul": mul, "rep": rep}
    if name in table and len(args) == 2:
        return table[name](*args)
    if name == "inv":
        return inv(args[0])
    if name == "cat":
        out = args[0]
        for a in args[1:]:
            out = cat(out, a)
        return out
    if name == "len":
        return length(args[0])
    if name == "pack":
        return pack(*args)
    if name == "cmp":
        return cmp(*args)
    if name == "not":
        return not_(args[0])
    if name == "ifexp":
        return ifexp(*args)
    return op(name, *args)


def atoms(x, out=None):
    """All ('var', ...) and opaque op sub-terms, for taint-style queries."""
    if out is None:
        out = set()
    if isinstance(x, S):
        out.add(x)
        if x[0] == "lin":
            for t, _ in x[1]:
                atoms(t, out)
        elif x[0] == "op":
            for a in x[2:]:
                atoms(a, out)
    elif isinstance(x, (tuple, list)):
        for a in x:
            atoms(a, out)
    return out


def contains(x, needle):
    return needle in atoms(x)


def to_python(x, varmap):
    """Render an integer normal form as a Python expression over the names in varmap {S atom: name}.
    Only total integer operations are rendered; anything else raises ValueError."""
    if not isinstance(x, S):
        if isinstance(x, bool):
            return "1" if x else "0"
        if isinstance(x, int):
            return f"({x})"
        raise ValueError(f"not an integer: {x!r}")
    if x in varmap:
        return varmap[x]
    if x[0] == "lin":
        parts = [f"({c})*{to_python(t, varmap)}" for t, c in x[1]]
        parts.append(f"({x[2]})")
        return "(" + "+".join(parts) + ")"
    if x[0] == "op":
        n, a = x[1], x[2:]
        binop = {"mod": "%", "floordiv": "//", "shl": "<<", "shr": ">>", "and": "&", "or": "|", "xor": "^", "mul": "*", "pow": "**"}
        if n in binop and len(a) == 2:
            return f"({to_python(a[0], varmap)} {binop[n]} {to_python(a[1], varmap)})"
        if n == "inv":
            return f"(~{to_python(a[0], varmap)})"
        if n == "bit":
            return f"(({to_python(a[0], varmap)} >> {to_python(a[1], varmap)}) & 1)"
        if n == "ifexp":
            return f"({to_python(a[1], varmap)} if {to_python(a[0], varmap)} else {to_python(a[2], varmap)})"
        if n == "cmp":
            if a[0] not in ("<", "<=", ">", ">=", "==", "!="):
                raise ValueError(a[0])
            return f"({to_python(a[1], varmap)} {a[0]} {to_python(a[2], varmap)})"
        if n in ("min", "max"):
            return f"{n}(" + ",".join(to_python(z, varmap) for z in a) + ")"
    raise ValueError(f"cannot render {x!r}")


def compile_int(x, varmap):
    src = to_python(x, varmap)
    names = sorted(varmap.values())
    return eval("lambda " + ",".join(names) + ": " + src, {"__builtins__": {"min": min, "max": max}})
