"""C12 - the link base is what the source says, or an error."""
import ast

from ..engine import sym
from ..engine.interp import Rec, Raised, ExcVal, PyFn, Unsupported
from ..engine.loader import Unknown, norm_text
from ..engine.sym import is_sym
from ..rules import thunks
from ..rules.directives import run_directive, unwrap, G
from ..rules.world import STATE, DOT, Shapes, eager_interp, emit_report_summary, get_as_int_opaque
from . import c03
from . import c02

EXPLANATION = (
    "R1: compile_and_link_files on an empty program is abstractly executed: the base settled when nothing set it must fold "
    "to 0o1000. R2: set_link_address is executed twice on one link-base record: the second call must report "
    "'address-conflict' and leave the first value in place. R3: a DeferredCycle while evaluating the base reaches the "
    "'recursive-definition' report. R4: compile_block on '. = N' with the base already set is decided by predicate "
    "abstraction on N: for N >= old address exactly N - old zero bytes, for N < old an error and no bytes; with the base "
    "unset the statement sets the base instead. R5 = G1 (the skip thunk captures the address at its own statement). "
    "R6: '.link' hands its raw operand to set_link_address. R7: the LinearPolynomial algebra that makes K + end - start "
    "cancel (shared with C03.R7).")
ASSUMPTIONS = ["symbolic cancellation for arbitrary link expressions at run time is not decided beyond the algebra laws"]
TRUSTED = ["sa.engine.interp"]
LEVEL_TEXT = "Every integer skip distance is covered by cells; single-assignment and default-base facts are path facts of the code."
LEVEL_NOTE = "necessary conditions; run-time evaluation of arbitrary link expressions relies on the algebra laws checked in R7"
TECHNIQUE = "abstract interpretation of set_link_address / compile_block / compile_and_link_files with predicate abstraction of the skip distance"


def lazy(repo, opaque_int=True):
    I = eager_interp(repo)
    I.summaries = {"reports::emit_report": emit_report_summary}
    if opaque_int:
        I.summaries["metacommand_impl::get_as_int"] = get_as_int_opaque
    return I


def mk_state(I, sh, comp, settled=None):
    P = I.module_get("deferred", "Promise")
    prom = I.instantiate(P, [I.builtin_types["int"], "LA"], {})
    if settled is not None:
        I.call_method(prom, "settle", [settled])
    insn = sh.symbol("stmt")
    return {"filename": "a.mac", "context": "file", "internal_symbol_prefix": ".internal1.", "compiler": comp, "link_base": {"promise": prom, "set_where": None},
            "internal_symbols_list": [], "extern_all": None, "insn": insn, "emit_address": prom, "local_symbol_prefix": ".local1."}, prom


def rule_R1(ck):
    I = lazy(ck.repo)

    def thunk():
        comp = I.instantiate(I.module_get("compiler", "Compiler"), [], {})
        return I.call_method(comp, "compile_and_link_files", [[]])
    ps = I.explore(thunk)
    where = "compiler::Compiler.compile_and_link_files"
    ck.instance("default-base", {"empty program assembles to": repr(ps[0].value)}, fn=where)
    if len(ps) != 1 or ps[0].kind != "return" or ps[0].value != (0o1000, b""):
        ck.violation(where, f"a program that never sets its base is linked at {ps[0].value!r}; the documented default is 0o1000 (512) with an empty image for an empty program",
                     construct="default link base", expected="(512, b'')", found=repr(ps[0].value))
    # a base set by the program is not overwritten by the default
    V = sym.var("BASE", "int")
    seen = {}

    def compile_file(I_, fn, a, k):
        link_base = a[3]
        I_.call_method(link_base["promise"], "settle", [V])
        return b""
    I.summaries["compiler::Compiler.compile_file"] = compile_file

    def thunk2():
        comp = I.instantiate(I.module_get("compiler", "Compiler"), [], {})
        return I.call_method(comp, "compile_and_link_files", [[sym.var("FILE", "obj")]])
    ps = I.explore(thunk2)
    ck.instance("explicit-base", {"program sets base BASE": repr(ps[0].value)}, fn=where)
    if len(ps) != 1 or ps[0].kind != "return" or ps[0].value != (V, b""):
        ck.violation(where, f"a base set by the program is not the base returned: {ps}", construct="explicit link base")


def rule_R2(ck):
    repo = ck.repo
    where = "compiler::Compiler.set_link_address"
    I = lazy(repo)
    V1, V2 = sym.var("V1", "int"), sym.var("V2", "int")

    def thunk():
        sh = Shapes(I)
        comp = I.instantiate(I.module_get("compiler", "Compiler"), [], {})
        state, prom = mk_state(I, sh, comp)
        I.call_method(comp, "set_link_address", [sh.xexpr(V1, "V1"), state])
        first = prom.fields.get("value")
        n1 = len([e for e in I.effects if e[0] == "report" and e[1] == "error"])
        I.call_method(comp, "set_link_address", [sh.xexpr(V2, "V2"), state])
        errs = [e[2] for e in I.effects if e[0] == "report" and e[1] == "error"][n1:]
        wait = I.module_get("deferred", "wait")
        return n1, errs, I.call(wait, [prom], {}), state["link_base"]["set_where"] is state["insn"]
    ps = I.explore(thunk)
    ck.instance("single-assignment", {"(errors after 1st, errors of 2nd, base after both, set_where recorded)": repr(ps[0].value) if ps[0].kind == "return" else repr(ps[0])}, fn=where)
    if len(ps) != 1 or ps[0].kind != "return":
        ck.violation(where, f"setting the link base twice does not end normally with a report: {ps}", construct="second .link")
        return
    n1, errs, base, recorded = ps[0].value
    if n1:
        ck.violation(where, "the first '.link' is reported as an error", construct="first .link")
    if "address-conflict" not in errs:
        ck.violation(where, "a second '.link' is not reported as an 'address-conflict' error", construct="second .link report")
    if base != G(V1, 16, False):
        ck.violation(where, f"after two '.link's the base is {base!r}; the first ({G(V1, 16, False)!r}) must stay", construct="second .link keeps first", expected=repr(G(V1, 16, False)), found=repr(base))
    if not recorded:
        ck.violation(where, "the place where the base was set is not recorded (the conflict report cannot point at it)", construct="set_where")


def rule_R3(ck):
    repo = ck.repo
    where = "compiler::Compiler.set_link_address"
    I = lazy(repo)

    def cyc(I_, fn, a, k):
        raise Raised(ExcVal("DeferredCycle", cls=I_.module_get("deferred", "DeferredCycle")))
    I.summaries["metacommand_impl::get_as_int"] = cyc

    def thunk():
        sh = Shapes(I)
        comp = I.instantiate(I.module_get("compiler", "Compiler"), [], {})
        state, prom = mk_state(I, sh, comp)
        I.call_method(comp, "set_link_address", [sh.xexpr(sym.var("LA_dep", "int"), "LA+2"), state])
        return I.call(I.module_get("deferred", "wait"), [prom], {})
    ps = I.explore(thunk)
    ck.instance("self-dependence", {"outcome": ps[0].kind, "errors": [e[2] for e in ps[0].reported()]}, fn=where)
    if len(ps) != 1 or ps[0].kind != "return" or "recursive-definition" not in [e[2] for e in ps[0].reported()]:
        ck.violation(where, f"a link base that depends on itself is not reported as 'recursive-definition': {ps[0].kind} {ps[0].value!r}", construct="self-dependent base")


def rule_R4(ck):
    repo = ck.repo
    where = "compiler::Compiler.compile_block"
    OLD = 0o2000
    for base_set in (True, False):
        I = lazy(repo, opaque_int=False)
        N = I.add_cellvar("N")
        calls = []

        def gai(I_, fn, a, k):
            I_.effect("get_as_int", a[3], k.get("bitness"), k.get("unsigned"))
            return N
        I.summaries["metacommand_impl::get_as_int"] = gai
        I.summaries["compiler::Compiler.set_link_address"] = lambda I_, fn, a, k: calls.append(I_.positional(fn, a, k)[1:]) or None

        def thunk():
            del calls[:]
            sh = Shapes(I)
            comp = I.instantiate(I.module_get("compiler", "Compiler"), [], {})
            state, prom = mk_state(I, sh, comp, settled=0o1000 if base_set else None)
            ip = sh.mk(I.module_get("types", "InstructionPointer"), None, None)
            val = sh.xexpr(sym.var("NEWEXPR", "int"), "N")
            asg = sh.mk(I.module_get("types", "Assignment"), None, None, ip, val, False)
            block = sh.mk(I.module_get("types", "CodeBlock"), None, None, [asg])
            data = I.call_method(comp, "compile_block", [state, block, OLD])
            wait = I.module_get("deferred", "wait")
            return I.call(wait, [data], {}), list(calls), val, state
        for p in I.explore(thunk):
            cell = p.cells[N]
            errs = [e[2] for e in p.reported()]
            ck.instance(("skip", base_set, repr(cell)), {"base already set": base_set, "new address cell": repr(cell), "old address": OLD, "outcome": f"{p.kind} {p.value!r}"[:120], "errors": errs}, fn=where)
            if not base_set:
                if p.kind != "return" or p.value[0] != b"" or len(p.value[1]) != 1:
                    ck.violation(where, f"a leading '. = X' with no base set must set the base and emit nothing; got {p.value!r}", construct=". = as base")
                elif not (len(p.value[1][0]) >= 2 and p.value[1][0][0] is p.value[2] and isinstance(p.value[1][0][1], dict) and p.value[1][0][1].get("link_base") is p.value[3]["link_base"]):
                    ck.violation(where, f"a leading '. = X' calls set_link_address with {tuple(type(x).__name__ if not isinstance(x, Rec) else x.cls.name for x in p.value[1][0])}; "
                                        "expected (the unevaluated expression X, the statement's state) - the same contract '.link X' uses", construct=". = hands (X, state) to set_link_address")
                continue
            if p.kind == "return" and p.value[1]:
                ck.violation(where, "'. = X' after the base is set tries to set the base again", construct=". = dispatch")
                continue
            fwd = cell.lo is not None and cell.lo >= OLD
            back = cell.hi is not None and cell.hi < OLD
            if not fwd and not back:
                ck.violation(where, f"'. = N': the guard boundary lies inside {cell}; moving to N < {OLD} (the current address) must be refused, N >= {OLD} accepted", construct=". = backward guard", expected=f"N < {OLD} refused", found=repr(cell))
                continue
            if fwd:
                want = sym.rep(b"\x00", sym.sub(N, OLD))
                if p.kind != "return" or errs or p.value[0] != want:
                    ck.violation(where, f"'. = N' with N in {cell} (forward from {OLD}) gives {p.value!r} errors={errs}; expected N-{OLD} zero bytes", construct=". = forward fill", expected=repr(want), found=repr(p.value))
            else:
                if not errs:
                    ck.violation(where, f"'. = N' with N in {cell} (backward from {OLD}) is accepted silently", construct=". = backward guard", expected="error", found="accepted")
                elif p.kind == "return" and p.value[0] != b"":
                    ck.violation(where, f"a refused backward '. =' still emits {p.value[0]!r}", construct=". = backward bytes")
            used = [e for e in p.effects if e[0] == "get_as_int"]
            if used and (used[0][2], used[0][3]) != (16, False):
                ck.violation(where, f"the new address is read as bitness={used[0][2]} unsigned={used[0][3]}, expected a 16-bit value", construct=". = operand type")


def rule_R6(ck):
    repo = ck.repo
    seen = []
    extra = {"compiler::Compiler.set_link_address": lambda I_, fn, a, k: seen.append(a) or None}
    I = eager_interp(repo, extra=extra)

    def thunk():
        from ..rules.world import metacommand
        del seen[:]
        sh = Shapes(I)
        comp = I.instantiate(I.module_get("compiler", "Compiler"), [], {})
        cmd = metacommand(I, ".link")
        x = sh.xexpr(sym.var("X", "int"), "X")
        state = {"compiler": comp, "insn": sh.symbol(".link")}
        tok = I.instantiate(I.module_get("types", "Instruction"), [None, None, sh.symbol(".link"), [x]], {})
        r = I.call_method(cmd, "compile_insn", [state, tok])
        return r, x, state
    ps = I.explore(thunk)
    where = "metacommands::link"
    ck.instance("link-operand", {"paths": len(ps), "set_link_address calls": len(seen)}, fn=where)
    ok = len(ps) == 1 and ps[0].kind == "return" and len(seen) == 1 and seen[0][1] is ps[0].value[1] and seen[0][2] is ps[0].value[2]
    if not ok:
        ck.violation(where, "'.link X' does not hand the unevaluated operand X and its state to set_link_address", construct=".link operand")
    else:
        size, val = unwrap(ps[0].value[0])
        if val != b"":
            ck.violation(where, f"'.link' emits bytes: {val!r}", construct=".link bytes")


def run(ck):
    ck.run_rule("C12.R1", "default base 0o1000; an explicit base is the base returned", 2, rule_R1)
    ck.run_rule("C12.R2", "single assignment of the base: a second .link is an error and changes nothing", 1, rule_R2)
    ck.run_rule("C12.R3", "self-dependent base is reported", 1, rule_R3)
    ck.run_rule("C12.R4", "'. =': base-setting vs forward skip; zero fill; backward refused (cells over all N)", 3, rule_R4)
    ck.run_rule("G1", "deferred thunks capture by value", 20, thunks.rule_G1)
    from . import c06 as _c06
    ck.run_rule("C06.R1", "the value of '.link X' / '. = X' is read as a 16-bit number: accept interval and reduction (65536 is out of range, not address 0)", 20, _c06.rule_R1)
    ck.run_rule("C12.R6", "'.link' passes its raw operand", 1, rule_R6)
    ck.run_rule("C03.R7", "LinearPolynomial algebra (the base cancels in K + end - start)", 18, c03.rule_R7)
    ck.run_rule("C03.R7t", "the base cancels in 'K + end - start' as written: + - * do not force unknown operands", 6, c03.rule_R7t)
    ck.run_rule("C02.R7", "linked files are placed at base + lengths of the files before them", 3, c02.rule_R7)
    from . import c18
    ck.run_rule("G5.memo", "the base is the value of the expression in THIS source: parse trees and values are not memoised across assemblies", 40, c18.rule_memo)
    from . import c16
    ck.run_rule("C16.R2", "'. = X' inside a repeated body is checked against each copy's own location counter (every copy is compiled)", 4, c16.rule_R2)
