"""C02 - addresses the program sees equal where its bytes land."""
import ast

from ..engine import sym
from ..engine.interp import Rec, ClassVal, PyFn, SymBytes, Unsupported, Raised
from ..engine.loader import Unknown, norm_text, walk_local, FUNC_TYPES
from ..engine.sym import is_sym
from ..rules import thunks
from ..rules.directives import run_directive, unwrap, G
from ..rules.world import STATE, DOT, REL, Shapes, eager_interp, metacommand, metacommand_fn
from . import c01

EXPLANATION = (
    "The invariant 'value of . / labels = base + bytes before' holds iff every producer's announced size equals what it "
    "yields and every append to the image is matched by the same advance of the address. R1 (G8): every sized producer "
    "(directives with size=, opcode word, operand words, implicit word lists) is abstractly executed with symbolic "
    "operands; on every non-error path len(result) as a normal form must equal the announced size; a data-dependent "
    "length under a constant announced size is a violation. R2: in every image-building loop, each 'data += c' is "
    "paired with 'addr += c.length() / len(c)' of the same c. R3: '.' for a statement is the accumulator before the "
    "statement; labels store the same value; InstructionPointer.resolve returns it. R4: the length() siblings agree "
    "with what wait() yields. R5 (G1): thunks capture by value. R6: address continuation into included and further "
    "linked files.")
ASSUMPTIONS = ["run-time laziness (evaluation order of deferreds) is not decided", "programs with errors are outside the statement (odd-address pad byte lives on an error path)"]
TRUSTED = ["sa.engine.interp", "python ast"]
LEVEL_TEXT = "Size agreement holds for every operand value and count class; pairing/ordering facts hold on all paths of the structured loops."
LEVEL_NOTE = "necessary conditions of the address invariant; the lazy value graph at run time is not modelled"
TECHNIQUE = "abstract interpretation of producers to length normal forms vs announced sizes; syntactic pairing of byte and address accumulators; closure-capture analysis"


def build_operands(sh, I, cmd, n_extra):
    """operands for a directive from its folded operand_info; n_extra adds optional/variadic operands"""
    info = cmd.fields["operand_info"]
    mn, mx = cmd.fields["min_operands"], cmd.fields["max_operands"]
    n = mn + n_extra
    if n > mx:
        return None
    ops = []
    types_str = I.builtin_types["str"]
    for i in range(n):
        oi = info[min(i, len(info) - 1)] if info else None
        t = oi["type"] if oi else None
        if t is types_str:
            q = I.instantiate(I.module_get("types", "QuotedString"), [None, None, '"', f"s{i}"], {})
            q.fields["ctx_start"] = sym.var(f"q{i}.ctx_start", "obj")
            q.fields["ctx_end"] = sym.var(f"q{i}.ctx_end", "obj")
            ops.append(q)
        else:
            ops.append(sh.xexpr(sym.var(f"X{i}", "int"), f"X{i}"))
    if cmd.fields["takes_code_block"]:
        cb = I.instantiate(I.module_get("types", "CodeBlock"), [None, None, []], {})
        ops.append(cb)
    return ops


def _unsized_stays_unsized(ck, repo, name, cmd):
    """a directive that declares no size is wrapped as an unsized deferred: a SizedDeferred announcing None poisons the address of everything after it"""
    from ..engine.interp import ExcVal
    seen = []

    def sized(I_, fn, a, k):
        seen.append(a[2])
        return sym.op("sized", a[2], I_.call(a[3], [], {}))

    def build(sh, I_):
        ops = build_operands(sh, I_, metacommand(I_, name), 0)
        if ops is None:
            raise Raised(ExcVal("SkipInstance"))
        return ops
    stub = lambda v: (lambda I_, fn, a, k: v)
    extra = {"metacommand_impl::get_as_str": stub(sym.var("STR", "str")), "devices::resolve_relative_path": stub(sym.var("PATH", "str")), "compiler::Compiler.compile_include": stub(sym.var("included_code", "bytes")),
             "parser::parse": stub(sym.var("FILE_AST", "obj")), "compiler::Compiler.set_link_address": stub(None), "compiler::Compiler.declare_external_symbol": stub(None),
             "metacommands::add_emitted_file": stub(None), "metacommands::add_emitted_bk_wav": stub(None), "compiler::Compiler.compile_block": stub(sym.var("BODY", "bytes")),
             "deferred::SizedDeferred.construct": sized}
    try:
        run_directive(repo, name, build=build, extra=extra)
    except (Unsupported, Unknown, Raised):
        return
    if any(x is None for x in seen):
        ck.violation(f"metacommand_impl::Metacommand.compile_insn", f"{name} declares no size but is wrapped as a chunk that announces None bytes: a directive without a declared size has to stay an unsized deferred "
                     "(its length is known once it is evaluated); 'addr += None' dies in compile_block", construct="sized chunk without a size")


def rule_R1(ck):
    repo = ck.repo
    I = eager_interp(repo)
    table = I.explore(lambda: (I.module_env("metacommands"), I.module_get("metacommand_impl", "metacommands"))[1])[0].value
    names = sorted(table)
    n_sized = 0
    for name in names:
        cmd = table[name]
        size_attr = cmd.fields.get("size")
        if size_attr is None:
            ck.instance(("unsized", name), None, fn=f"metacommands::{cmd.fields['fn'].name}")
            _unsized_stays_unsized(ck, repo, name, cmd)
            continue
        n_sized += 1
        where = f"metacommands::{cmd.fields['fn'].name}"
        for extra in range(0, 3):
            probe = {}

            def build(sh, I_):
                ops = build_operands(sh, I_, metacommand(I_, name), extra)
                probe["ops"] = ops
                if ops is None:
                    raise Raised(__import__("sa.engine.interp", fromlist=["ExcVal"]).ExcVal("SkipInstance"))
                return ops
            included = sym.var("included_code", "bytes")
            extra_summ = {
                "metacommand_impl::get_as_str": lambda I_, fn, a, k: sym.var("STR", "str"),
                "devices::resolve_relative_path": lambda I_, fn, a, k: sym.var("PATH", "str"),
                "compiler::Compiler.compile_include": lambda I_, fn, a, k: included,
                "parser::parse": lambda I_, fn, a, k: sym.var("FILE_AST", "obj"),
                "compiler::Compiler.set_link_address": lambda I_, fn, a, k: None,
                "compiler::Compiler.declare_external_symbol": lambda I_, fn, a, k: None,
                "metacommands::add_emitted_file": lambda I_, fn, a, k: None,
                "metacommands::add_emitted_bk_wav": lambda I_, fn, a, k: None,
            }
            try:
                paths, I2 = run_directive(repo, name, build=build, extra=extra_summ)
            except Unsupported as ex:
                ck.unknown(f"{name}: {ex}")
                break
            if probe.get("ops") is None:
                break
            for p in paths:
                if p.kind == "raise":
                    if p.value.name == "SkipInstance":
                        continue
                    if p.reported() or p.value.name in ("RecoverableError", "CompilerStopIteration"):
                        continue
                    if p.value.name in ck.CRASHES:
                        ck.violation(where, f"{name} with {len(probe['ops'])} operand(s) of the kinds it is declared with dies with {p.value.name}{tuple(str(a_)[:80] for a_ in (getattr(p.value, 'args', None) or ()))} "
                                            "(an internal exception, not a diagnostic)", construct=f"{name}: internal exception")
                    else:
                        ck.unknown(f"{name} with {len(probe['ops'])} operands raises {p.value!r} during size analysis")
                    continue
                size, val = unwrap(p.value)
                raw = getattr(p.value, "value", p.value)
                if is_sym(raw) and raw[:2] == ("op", "sized") and raw[2] is None:
                    ck.violation(where, f"{name} with {len(probe['ops'])} operand(s) is wrapped as a chunk that announces None bytes: a directive without a declared size has to stay an unsized deferred "
                                        "(its length is known once it is evaluated); 'addr += None' dies in compile_block", construct=f"{name}: sized chunk without a size")
                    continue
                errs = p.reported()
                if val is None and any(e[0] == "call" and "stop_iteration" in repr(e[1]) for e in p.effects):
                    continue      # '.end' / '.once': control leaves through CompilerStopIteration
                if val is None:
                    ck.unknown(f"{name}: the directive function returned None on a non-raising path ({p.decisions})")
                    continue
                ck.instance(("sized", name, len(probe["ops"]), repr(p.cells.get(DOT))), {"directive": name, "operands": len(probe["ops"]), "announced": repr(size), "produced length": repr(sym.length(val)) if not errs else "error path"}, fn=where)
                if size is None:
                    ck.violation(where, f"{name} declares size={size_attr!r} but compile_insn did not build a sized chunk", construct=f"{name} sized")
                    continue
                if errs:
                    continue
                ln = sym.length(val)
                if ln != size:
                    dd = is_sym(ln) and any(w in repr(ln) for w in ("included_code", "read", "compile_include", "compile_block"))
                    ck.violation(where, f"{name} with {len(probe['ops'])} operand(s) announces {size!r} bytes but produces {ln!r}" +
                                 (": the length depends on data while the announced size is constant, so every later address is computed without these bytes" if dd else ""),
                                 construct=f"{name} announced size", expected=repr(size), found=repr(ln))
    if n_sized < 15:
        ck.unknown(f"only {n_sized} sized directives found (20 confirmed by hand)")
    # instruction chunks: opcode word and operand words
    tab = c01.fold_table(repo)
    for name in ("mov", "clr", "br", "sob", "ldf", "emt", "nop", "jsr"):
        if name not in tab:
            continue
        paths, rels = c01.run_compile_insn(repo, name)
        for p in paths:
            for e in p.effects:
                if e[0] == "sized":
                    ck.instance(("insn-sized", name, repr(e[1])), None, fn="insns::Instruction.compile_insn")
                    if sym.length(e[2]) != e[1]:
                        ck.violation("insns::Instruction.compile_insn", f"'{name}': a chunk announced as {e[1]!r} bytes is {sym.length(e[2])!r} bytes long", construct="opcode chunk size")
    XV = sym.var("X", "int")
    for shape in ("X(R)", "@X(R)", "#X", "@#X", "X", "@X", "@(R)"):
        I3 = eager_interp(repo)

        def thunk():
            sh = Shapes(I3)
            operand = c01.build_shape(sh, shape, lambda: sh.symbol("r2"), sh.xexpr(XV, "X"))
            stub = I3.instantiate(I3.module_get("insns", "RegisterModeOperandStub"), ["d", [5, 4, 3, 2, 1, 0]], {})
            return I3.call_method(stub, "encode", [operand, STATE])
        for p in I3.explore(thunk):
            if p.kind != "return":
                continue
            ext = p.value[1]
            size, val = unwrap(ext)
            ck.instance(("ext-sized", shape), {"operand shape": shape, "announced": size, "length": repr(sym.length(val))}, fn="insns::RegisterModeOperandStub.encode")
            want = 2
            got = size if size is not None else sym.length(val)
            if sym.length(val) != got or got != want:
                ck.violation("insns::RegisterModeOperandStub.encode", f"operand shape {shape}: extension announced {size!r}, produced {sym.length(val)!r}, a PDP-11 consumes {want}", construct=f"extension size {shape}")
    # implicit word list
    for n in (1, 3):
        I4 = eager_interp(repo)
        I4.add_cell(DOT)

        def thunk2():
            sh = Shapes(I4)
            comp = I4.instantiate(I4.module_get("compiler", "Compiler"), [], {})
            words = [sh.xexpr(sym.var(f"X{j}", "int"), f"X{j}") for j in range(n)]
            insn = I4.instantiate(I4.module_get("types", "WordList"), [None, None, words], {})
            return I4.call_method(comp, "compile_word_list", [insn, words, STATE])
        for p in I4.explore(thunk2):
            if p.reported() or p.kind != "return":
                continue
            size, val = unwrap(p.value)
            ck.instance(("list-sized", n), None, fn="compiler::Compiler.compile_word_list")
            if size != sym.length(val):
                ck.violation("compiler::Compiler.compile_word_list", f"implicit list of {n} words announces {size!r} bytes, produces {sym.length(val)!r}", construct="word list size")


# ------------------------------------------------------------------------------------------ R2 / R3
LOOP_FUNCS = ["compiler::Compiler.compile_block", "compiler::Compiler.compile_and_link_files", "metacommands::repeat"]


def is_advance(stmt, c):
    """`if isinstance(c, BaseDeferred): A += c.length() else: A += len(c)` -> A or None; also plain `A += <expr of c>`"""
    if isinstance(stmt, ast.If) and isinstance(stmt.test, ast.Call) and norm_text(stmt.test.func) == "isinstance" and len(stmt.test.args) == 2 \
            and norm_text(stmt.test.args[0]) == c and "BaseDeferred" in norm_text(stmt.test.args[1]):
        if len(stmt.body) == 1 and len(stmt.orelse) == 1 and isinstance(stmt.body[0], ast.AugAssign) and isinstance(stmt.orelse[0], ast.AugAssign) \
                and isinstance(stmt.body[0].op, ast.Add) and isinstance(stmt.orelse[0].op, ast.Add):
            a1, a2 = norm_text(stmt.body[0].target), norm_text(stmt.orelse[0].target)
            v1, v2 = norm_text(stmt.body[0].value), norm_text(stmt.orelse[0].value)
            if a1 == a2:
                return a1, (v1 == f"{c}.length()" and v2 == f"len({c})")
    if isinstance(stmt, ast.AugAssign) and isinstance(stmt.op, ast.Add) and isinstance(stmt.target, ast.Name):
        v = norm_text(stmt.value)
        if v in (f"{c}.length()", f"len({c})") or (c in [n.id for n in ast.walk(stmt.value) if isinstance(n, ast.Name)] and "length" in v):
            return stmt.target.id, None
    return None


def rule_R2(ck):
    repo = ck.repo
    pairs = 0
    per_region = {}
    for q in LOOP_FUNCS:
        per_region[q] = pairs
        if q == "metacommands::repeat":
            I = eager_interp(repo)
            fnc = I.explore(lambda: metacommand(I, ".repeat").fields["fn"])[0].value
            fn = fnc.node
        else:
            fn = repo.func(q)
        # blocks = every statement list inside fn (including nested closures: the '. =' closure mutates the same accumulators)
        blocks = []
        for n in ast.walk(fn):
            for field in ("body", "orelse", "finalbody"):
                b = getattr(n, field, None)
                if isinstance(b, list) and b and isinstance(b[0], ast.stmt):
                    blocks.append(b)
        ret_names = {norm_text(r.value) for r in ast.walk(fn) if isinstance(r, ast.Return) and r.value is not None and isinstance(r.value, ast.Name)}
        for b in blocks:
            for s in b:
                if isinstance(s, ast.AugAssign) and isinstance(s.op, ast.Add) and isinstance(s.target, ast.Name) and isinstance(s.value, ast.Name):
                    D, c = s.target.id, s.value.id
                    # is D a bytes accumulator? (initialised with b"" in fn)
                    init = [a for a in ast.walk(fn) if isinstance(a, ast.Assign) and any(isinstance(t, ast.Name) and t.id == D for t in a.targets)
                            and isinstance(a.value, ast.Constant) and a.value.value == b""]
                    if not init:
                        continue
                    adv = [is_advance(t, c) for t in b]
                    adv = [a for a in adv if a]
                    pairs += 1
                    ck.instance(("pair", q, D, c, s.lineno), {"function": q, "bytes": f"{D} += {c}", "address": adv[0][0] if adv else None}, fn=q)
                    if not adv:
                        ck.violation(s, f"'{D} += {c}' appends bytes to the image but the running address is not advanced by the length of {c} in the same block: every later label and '.' is off by that many bytes",
                                     construct=f"{D} += {c} without address advance")
                    elif adv[0][1] is False:
                        ck.violation(s, f"the address advance paired with '{D} += {c}' does not add {c}.length() for deferred chunks and len({c}) otherwise", construct=f"advance form for {c}")
        # converse: an advance idiom without the append
        for b in blocks:
            for s in b:
                if isinstance(s, ast.If):
                    m = None
                    if isinstance(s.test, ast.Call) and norm_text(s.test.func) == "isinstance" and len(s.test.args) == 2 and isinstance(s.test.args[0], ast.Name):
                        m = is_advance(s, s.test.args[0].id)
                    if m and m[1] is not None:
                        c = s.test.args[0].id
                        app = [t for t in b if isinstance(t, ast.AugAssign) and isinstance(t.op, ast.Add) and norm_text(t.value) == c and norm_text(t.target) != m[0]]
                        if not app:
                            ck.violation(s, f"the address is advanced by the length of {c} but {c} is not appended to the image in the same block", construct=f"advance of {c} without append")
        per_region[q] = pairs - per_region[q]
    # a region without the `data += chunk` / `addr += length` idiom (an accumulator object, a helper ...) is decided by
    # executing it: the law is the same - what is appended to the image advances the address by its length
    expected = {"compiler::Compiler.compile_block": 3, "compiler::Compiler.compile_and_link_files": 1, "metacommands::repeat": 1}
    for q, want in expected.items():
        if per_region.get(q, 0) >= want:
            continue
        ck.instance(("pair-by-execution", q), {"function": q, "idiom sites found": per_region.get(q, 0), "decided by": "abstract execution"}, fn=q)
        if q == "compiler::Compiler.compile_block":
            rule_R3b(ck)
        elif q == "compiler::Compiler.compile_and_link_files":
            rule_R7(ck)
        else:
            from . import c16
            c16.rule_R2(ck)


def rule_R3(ck):
    repo = ck.repo
    fn = repo.func("compiler::Compiler.compile_block")
    where = "compiler::Compiler.compile_block"
    # the accumulator A: name advanced in R2 pairs
    A = None
    for n in ast.walk(fn):
        if isinstance(n, ast.If):
            if isinstance(n.test, ast.Call) and norm_text(n.test.func) == "isinstance" and isinstance(n.test.args[0], ast.Name):
                m = is_advance(n, n.test.args[0].id)
                if m:
                    A = m[0]
        if A is None and isinstance(n, ast.AugAssign) and isinstance(n.op, ast.Add) and isinstance(n.target, ast.Name):
            for c in {x.id for x in ast.walk(n.value) if isinstance(x, ast.Name)}:
                m = is_advance(n, c)
                if m:
                    A = m[0]
    if A is None:
        # no named accumulator (an accumulator object, a helper): the same facts are decided by executing compile_block
        for what in ("emit_address", "start", "label-call", "label-store"):
            ck.instance(what, {"accumulator": None, "decided by": "abstract execution (block law)"}, fn=where)
        rule_R3b(ck)
        _ip_resolves_to_dot(ck)
        return
    loop = [n for n in walk_local(fn) if isinstance(n, ast.For)]
    if not loop:
        raise Unknown("compile_block: statement loop not found")
    loop = loop[0]
    first = loop.body[0]
    ok = False
    if isinstance(first, ast.Assign) and isinstance(first.value, ast.Dict):
        for k, v in zip(first.value.keys, first.value.values):
            if isinstance(k, ast.Constant) and k.value == "emit_address":
                ok = norm_text(v) == A
                ck.instance("emit_address", {"state['emit_address']": norm_text(v), "accumulator": A}, fn=where)
                if not ok:
                    ck.violation(first, f"'.' for a statement is bound to {norm_text(v)!r}, not to the running address {A!r} as it stands before the statement", construct="emit_address binding", expected=A, found=norm_text(v))
                ok = True
    if not ok:
        ck.violation(where, "the per-statement state is not built (with 'emit_address') at the top of the statement loop, before the statement is compiled", construct="emit_address binding")
    # start: A = start parameter
    params = [a.arg for a in fn.args.args]
    init = [s for s in fn.body if isinstance(s, ast.Assign) and norm_text(s.targets[0]) == A]
    ck.instance("start", {"init": norm_text(init[0]) if init else None}, fn=where)
    if not init or norm_text(init[0].value) not in params:
        ck.violation(where, f"the running address {A} does not start at the block's start address parameter", construct="address start")
    # labels
    calls = [c for c in ast.walk(fn) if isinstance(c, ast.Call) and norm_text(c.func) == "self.compile_label"]
    ck.instance("label-call", {"call": norm_text(calls[0]) if calls else None}, fn=where)
    lab = repo.func("compiler::Compiler.compile_label")
    lparams = [a.arg for a in lab.args.args]
    given = None
    if calls:
        # the address argument: second positional, or the keyword named like compile_label's second parameter
        given = calls[0].args[1] if len(calls[0].args) >= 2 else next((k.value for k in calls[0].keywords if len(lparams) > 2 and k.arg == lparams[2]), None)
    if calls and given is not None and norm_text(given) != A:
        ck.violation(where, f"labels are not given the running address {A}", construct="label address")
    # (a call that is spelled some other way is decided by the block law, C02.R3b, which executes compile_block)
    stores = [s for s in ast.walk(lab) if isinstance(s, ast.Assign) and isinstance(s.targets[0], ast.Subscript) and norm_text(s.targets[0].value) == "self.symbols"]
    ck.instance("label-store", {"store": norm_text(stores[0]) if stores else None}, fn="compiler::Compiler.compile_label")
    okl = stores and isinstance(stores[0].value, ast.Tuple) and len(stores[0].value.elts) == 2 and len(lparams) > 2 and norm_text(stores[0].value.elts[1]) == lparams[2]
    if not okl:
        ck.violation("compiler::Compiler.compile_label", "a label's value is not the address it was given", construct="label store")
    _ip_resolves_to_dot(ck)


def _ip_resolves_to_dot(ck):
    # '.' evaluates to state['emit_address']
    I = eager_interp(ck.repo)

    def thunk():
        sh = Shapes(I)
        ip = sh.mk(I.module_get("types", "InstructionPointer"), None, None)
        return I.call_method(ip, "resolve", [STATE])
    ps = I.explore(thunk)
    ck.instance("ip-resolve", {"'.' resolves to": repr(ps[0].value)}, fn="types::InstructionPointer.resolve")
    if len(ps) != 1 or ps[0].value != DOT:
        ck.violation("types::InstructionPointer.resolve", f"'.' evaluates to {ps[0].value!r}, not to the statement's address", construct="InstructionPointer.resolve")


def rule_R3b(ck):
    """compile_block, behaviourally: statement k is compiled with '.' = start + lengths of the chunks before it, a label gets
    that same address and stores it as its value, a statement without bytes (None) moves nothing, every chunk - also one of
    size zero - is part of the block's code (so that its deferred work runs), and the code is the concatenation; for plain
    and for deferred chunks. The block is [insn, word list, insn -> None, insn of size 0, label, insn]."""
    repo = ck.repo
    where = "compiler::Compiler.compile_block"
    for deferred in (False, True):
        I = eager_interp(repo)
        I.summaries = {"reports::emit_report": I.summaries["reports::emit_report"]}
        seen, evaluated = [], []
        L = [sym.var(f"len{i}", "int") for i in range(4)]

        def chunk(I_, i, size):
            if deferred:
                SD = I_.module_get("deferred", "SizedDeferred")
                return I_.instantiate(SD, [I_.builtin_types["bytes"], size, PyFn(lambda I2, aa, kk: evaluated.append(i) or (b"" if size == 0 else sym.var(f"chunk{i}", "bytes")))], {})
            evaluated.append(i)
            return b"" if size == 0 else sym.var(f"chunk{i}", "bytes")

        def compile_insn(I_, fn, a, k):
            tag = a[1].fields["name"].fields["name"]
            seen.append((tag, a[2]["emit_address"]))
            if tag == "none":
                return None
            if tag == "empty":
                return chunk(I_, 9, 0)
            i = {"i0": 0, "i1": 2}[tag]
            return chunk(I_, i, L[i])

        def compile_word_list(I_, fn, a, k):
            seen.append(("words", a[3]["emit_address"]))
            return chunk(I_, 1, L[1])
        I.summaries["compiler::Compiler.compile_insn"] = compile_insn
        I.summaries["compiler::Compiler.compile_word_list"] = compile_word_list

        def thunk():
            del seen[:]
            del evaluated[:]
            sh = Shapes(I)
            comp = I.instantiate(I.module_get("compiler", "Compiler"), [], {})
            T = I.module_get("types", "Instruction")
            items = [sh.mk(T, None, None, sh.symbol("i0"), []), sh.mk(I.module_get("types", "WordList"), None, None, [sh.number("1", 1)]), sh.mk(T, None, None, sh.symbol("none"), []),
                     sh.mk(T, None, None, sh.symbol("empty"), []), sh.mk(I.module_get("types", "Label"), None, None, "here", False), sh.mk(T, None, None, sh.symbol("i1"), [])]
            block = sh.mk(I.module_get("types", "CodeBlock"), None, None, items)
            START = sym.var("START", "int")
            state = {"context": "file", "link_base": {}, "internal_symbol_prefix": ".internal1.", "internal_symbols_list": [], "extern_all": None, "compiler": comp, "filename": "a.mac"}
            data = I.call_method(comp, "compile_block", [state, block, START])
            wait = I.module_get("deferred", "wait")
            res = [(x[0],) + tuple(I.call(wait, [v], {}) for v in x[1:]) for x in seen]
            out = I.call(wait, [data], {})
            tab = comp.fields["symbols"]
            tab = tab.fields["container"] if isinstance(tab, Rec) else tab
            ent = tab.get(".internal1.here")
            ent = ent[1] if isinstance(ent, tuple) and len(ent) == 2 and isinstance(ent[1], tuple) else ent
            label_value = I.call(wait, [ent[1]], {}) if isinstance(ent, tuple) and len(ent) == 2 else None
            return out, res, label_value, sorted(evaluated)
        ps = I.explore(thunk)
        gen = [p for p in ps if all(v for k, v in p.decisions)] or ps
        p = gen[0]
        ck.instance(("block-addresses", deferred), {"deferred chunks": deferred, "addresses": repr(p.value[1]) if p.kind == "return" else repr(p.value)}, fn=where)
        if p.kind != "return":
            ck.violation(where, f"compile_block on [insn, word list, insn without bytes, empty insn, label, insn] does not complete: {p.value!r}", construct="compile_block paths")
            continue
        data, res, label_value, evald = p.value
        START = sym.var("START", "int")
        ln = (lambda i: L[i]) if deferred else (lambda i: sym.op("len", sym.var(f"chunk{i}", "bytes")))
        a0, a1, a2 = START, sym.add(START, ln(0)), sym.add(sym.add(START, ln(0)), ln(1))
        want = [("i0", a0), ("words", a1), ("none", a2), ("empty", a2), ("i1", a2)]
        if res != want:
            bad = next((g, w) for g, w in zip(res + [None] * 6, want) if g != w)
            ck.violation(where, f"in a block [insn, word list, insn without bytes, empty insn, label, insn] the statement '{bad[1][0]}' is given address {bad[0]!r}, its bytes land at {bad[1]!r} (start + lengths of the chunks before it)",
                         construct="compile_block running address", expected=repr(bad[1]), found=repr(bad[0]))
        if label_value != a2:
            ck.violation(where, f"the label after [insn, word list, insn without bytes, empty insn] gets the value {label_value!r}; the byte after it lies at {a2!r}", construct="label address", expected=repr(a2), found=repr(label_value))
        wantd = sym.cat(sym.cat(sym.var("chunk0", "bytes"), sym.var("chunk1", "bytes")), sym.var("chunk2", "bytes"))
        if data != wantd:
            ck.violation(where, f"the block's code is {data!r}, expected {wantd!r}", construct="compile_block concatenation")
        if evald != [0, 1, 2, 9]:
            ck.violation(where, f"after the block's code has been evaluated the chunks {sorted(set([0, 1, 2, 9]) - set(evald))} have not been (9 = a chunk of size zero): a directive without bytes whose work is deferred "
                                "(make_raw with a forward-defined path, '.extern') never runs", construct="compile_block drops a chunk")


def rule_R4(ck):
    repo = ck.repo
    I = eager_interp(repo)
    I.summaries = {"reports::emit_report": I.summaries["reports::emit_report"]}   # real (lazy) deferred classes here
    S1, S2 = sym.var("S1", "int"), sym.var("S2", "int")

    def thunk():
        SD = I.module_get("deferred", "SizedDeferred")
        bt = I.builtin_types["bytes"]
        a = I.instantiate(SD, [bt, S1, None], {})
        b = I.instantiate(SD, [bt, S2, None], {})
        C = I.module_get("deferred", "Concatenator")
        c = I.instantiate(C, [bt, [b"abc", a, bytearray(b"de"), b]], {})   # .ascii/.asciz hand over a bytearray, the others bytes
        return I.call_method(c, "length", []), I.call_method(a, "length", []), I.call_method(a, "__len__", [])
    ps = I.explore(thunk)
    where = "deferred::Concatenator.length"
    ck.instance("concat-length", {"length of [3 bytes, sized S1, bytearray of 2, sized S2]": repr(ps[0].value[0]) if ps[0].kind == "return" else repr(ps[0].value)}, fn=where)
    if len(ps) != 1 or ps[0].kind != "return":
        return ck.incomplete(where, "length() of a concatenation", ps)
    total, sl, ln = ps[0].value
    if total != sym.add(sym.add(S1, S2), 5):
        ck.violation(where, f"length of a concatenation [3 literal bytes, chunk of size S1, a 2-byte bytearray (as .ascii produces), chunk of size S2] is {total!r}, expected S1+S2+5", construct="Concatenator.length", expected="S1+S2+5", found=repr(total))
    ck.instance("sized-length", None, fn="deferred::SizedDeferred.length")
    if sl != S1 or ln != S1:
        ck.violation("deferred::SizedDeferred.length", f"a sized chunk of announced size S1 reports length {sl!r} / len {ln!r}", construct="SizedDeferred.length")
    # _wait joins the same list
    fn = repo.func("deferred::Concatenator._wait")
    txt = norm_text(fn)
    ck.instance("concat-wait", None, fn="deferred::Concatenator._wait")
    if "self.lst" not in txt or "join" not in txt:
        ck.violation("deferred::Concatenator._wait", "the concatenation's value is not the join of the list whose lengths are summed", construct="Concatenator._wait")
    # Deferred.length / BaseDeferred.length: length of the settled value
    def thunk2():
        D = I.module_get("deferred", "Deferred")
        bt = I.builtin_types["bytes"]
        V = sym.var("VALUE", "bytes")
        d = I.instantiate(D, [bt, PyFn(lambda I_, a, k: V)], {})
        l = I.call_method(d, "length", [])
        return I.call(I.module_get("deferred", "wait"), [l], {})
    ps = I.explore(thunk2)
    ck.instance("deferred-length", {"Deferred.length()": repr(ps[0].value)}, fn="deferred::Deferred.length")
    if len(ps) != 1 or ps[0].value != sym.op("len", sym.var("VALUE", "bytes")):
        ck.violation("deferred::Deferred.length", f"length of an unsized deferred chunk is {ps[0].value!r}, expected len(its value)", construct="Deferred.length")


def rule_R4c(ck):
    """Concatenation algebra of byte chunks (the image is built with `data += chunk`): for every combination of plain bytes,
    sized chunks, unsized chunks and concatenations, x + y evaluates to value(x) followed by value(y) and its length is the
    sum of the lengths - with the real classes, abstractly executed on symbolic chunk contents."""
    repo = ck.repo
    I = eager_interp(repo)
    I.summaries = {"reports::emit_report": I.summaries["reports::emit_report"]}
    where = "deferred::Concatenator.__add__"
    S1, S2 = sym.var("S1", "int"), sym.var("S2", "int")
    VA, VB, VD = sym.var("VA", "bytes"), sym.var("VB", "bytes"), sym.var("VD", "bytes")

    def mk(kind):
        bt = I.builtin_types["bytes"]
        SD, D, C = (I.module_get("deferred", n) for n in ("SizedDeferred", "Deferred", "Concatenator"))
        if kind == "ab":
            return b"ab", b"ab", 2
        if kind == "cd":
            return b"cd", b"cd", 2
        if kind == "empty":
            return b"", b"", 0
        if kind == "a":
            return I.instantiate(SD, [bt, S1, PyFn(lambda I_, a_, k_: VA)], {}), VA, S1
        if kind == "b":
            return I.instantiate(SD, [bt, S2, PyFn(lambda I_, a_, k_: VB)], {}), VB, S2
        if kind == "d":
            return I.instantiate(D, [bt, PyFn(lambda I_, a_, k_: VD)], {}), VD, sym.op("len", VD)
        parts = [mk(k) for k in kind]
        return I.instantiate(C, [bt, [p_[0] for p_ in parts]], {}), _cat([p_[1] for p_ in parts]), _sum([p_[2] for p_ in parts])

    def _cat(xs):
        out = b""
        for x in xs:
            out = sym.cat(out, x)
        return out

    def _sum(xs):
        out = 0
        for x in xs:
            out = sym.add(out, x)
        return out
    cases = [(("ab", "a"), "cd"), (("a", "ab"), "cd"), ("cd", ("ab", "a")), ("cd", ("a", "ab")), (("a", "ab"), ("cd", "d")), (("ab", "a"), ("d", "cd")), (("ab", "a"), ("b", "cd")),
             ("a", "cd"), ("cd", "a"), ("a", "d"), ("a", "empty"), ("empty", "a"), (("a", "ab"), "empty"), ("empty", ("ab", "a")), (("ab", "a", "cd"), ("ab", "b", "cd")), (("a", "b"), "d"), ("d", ("a", "b"))]
    for lhs, rhs in cases:
        def thunk(lhs=lhs, rhs=rhs):
            x, vx, lx = mk(lhs)
            y, vy, ly = mk(rhs)
            r = I.binop(ast.Add(), x, y)
            wait = I.module_get("deferred", "wait")
            if r is None or not isinstance(r, (Rec, bytes, bytearray)) and not is_sym(r) and not hasattr(r, "value"):
                from ..report import Defect
                raise Defect("deferred::Concatenator.__add__", f"chunk {lhs} + chunk {rhs} evaluates to {r!r}, not to a chunk: the image loses everything assembled so far (or the next '+=' dies)", "chunk + chunk is not a chunk")
            length = I.call(wait, [I.call_method(r, "length", [])], {}) if isinstance(r, Rec) else len(r)
            return I.call(wait, [r], {}), length, sym.cat(vx, vy), sym.add(lx, ly)
        try:
            ps = I.explore(thunk)
        except Unsupported as ex:
            raise Unknown(f"{lhs} + {rhs}: {ex}") from None
        gen = [p_ for p_ in ps if all(v for k, v in p_.decisions)] or ps
        p_ = gen[0]
        name = f"{lhs!r} + {rhs!r}".replace("'", "")
        ck.instance(("concat", name), {"operands (ab/cd bytes, a/b sized chunks, d unsized chunk, tuples: concatenations)": name, "value": repr(p_.value[0]) if p_.kind == "return" else repr(p_.value)}, fn=where)
        if p_.kind != "return":
            ck.violation(where, f"{name} raises {p_.value!r} {getattr(p_.value, 'args', '')}", construct="concatenation algebra")
            continue
        val, ln, wv, wl = p_.value
        if val != wv:
            ck.violation(where, f"{name} (ab/cd: bytes, a/b: sized chunks, d: an unsized chunk, tuples: concatenations) evaluates to {val!r}, expected {wv!r}: bytes of the image are lost, doubled or reordered",
                         construct="concatenation algebra", expected=repr(wv), found=repr(val))
        elif ln != wl:
            ck.violation(where, f"{name}: the length of the concatenation is {ln!r}, its value has {wl!r} bytes: every later address is off", construct="concatenation length", expected=repr(wl), found=repr(ln))


def rule_R6(ck):
    repo = ck.repo
    where = "compiler::Compiler.compile_include"
    ADDR = sym.var("including_dot", "int")
    for inner_sets in (False, True):
        I = eager_interp(repo)
        I.summaries = {"reports::emit_report": I.summaries["reports::emit_report"]}
        seen = []

        def compile_file(I_, fn, a, k):
            seen.append(a)
            if inner_sets:
                I_.call_method(a[2], "settle", [sym.var("own_base", "int")])
            return sym.var("CODE", "bytes")
        I.summaries["compiler::Compiler.compile_file"] = compile_file

        def thunk():
            del seen[:]
            comp = I.instantiate(I.module_get("compiler", "Compiler"), [], {})
            r = I.call_method(comp, "compile_include", [sym.var("FILE", "obj"), ADDR])
            return r, seen[0]
        ps = I.explore(thunk)
        ck.instance(("include", inner_sets), {"included file sets its own base": inner_sets, "paths": len(ps)}, fn=where)
        if len(ps) != 1 or ps[0].kind != "return":
            ck.violation(where, f"compile_include does not complete on one path: {ps}", construct="include continuation")
            continue
        code, args = ps[0].value
        _self, file, start, link_base = args[:4]
        prom = link_base.get("promise") if isinstance(link_base, dict) else None
        if not isinstance(prom, Rec) or start is not prom:
            ck.violation(where, "the included file is not compiled at a fresh promise of its own link base", construct="include start promise")
            continue
        want = sym.var("own_base", "int") if inner_sets else ADDR
        if prom.fields.get("value") != want or not prom.fields.get("settled"):
            ck.violation(where, f"an included file that {'sets' if inner_sets else 'does not set'} its own base continues at {prom.fields.get('value')!r}, expected {want!r}", construct="include continuation", expected=repr(want), found=repr(prom.fields.get("value")))
        if code != sym.var("CODE", "bytes"):
            ck.violation(where, "compile_include does not return the included file's code", construct="include result")
    # the caller hands '.' of the including statement (abstract execution of the directive; file access, parser and compile_include stubbed)
    I = eager_interp(repo)
    got = []
    I.summaries = dict(I.summaries)
    route = []
    I.summaries["parser::parse"] = lambda I_, fn_, a, k: route.append(("parse", tuple(I_.positional(fn_, a, k)), {})) or sym.var("PARSED", "obj")
    I.summaries["compiler::Compiler.compile_include"] = lambda I_, fn_, a, k: got.append(tuple(I_.positional(fn_, a, k)[1:])) or sym.var("INCLUDED", "bytes")
    I.summaries["devices::resolve_relative_path"] = lambda I_, fn_, a, k: route.append(("resolve", tuple(I_.positional(fn_, a, k)), {})) or sym.var("PATH", "str")
    DOT_ = sym.var("DOT_OF_INCLUDE", "int")

    def thunk2():
        del got[:]
        del route[:]
        sh = Shapes(I)
        comp = I.instantiate(I.module_get("compiler", "Compiler"), [], {})
        state = {"filename": "a.mac", "emit_address": DOT_, "insn": sh.symbol(".include"), "compiler": comp, "context": "file"}
        r = I.call(metacommand_fn(I, ".include"), [state, "x.mac"], {})
        return r, list(got), list(route), [e[1] for e in I.effects if e[0] == "open"]
    try:
        all_ps = I.explore(thunk2)
        ps = [p for p in all_ps if p.kind == "return" and p.value[1]]
    except Unsupported as ex:
        raise Unknown(f"'.include' handler: {ex}") from None
    ck.instance("include-call", {"compile_include called with": repr(ps[0].value[1]) if ps else None}, fn="metacommands::include")
    if not ps:
        done = [p for p in all_ps if p.kind == "return"]
        if done and len(done) == len(all_ps):
            ck.violation("metacommands::include", f"'.include \"x.mac\"' with a readable file returns {done[0].value[0]!r} without ever calling compile_include: the included file contributes nothing "
                                                  "(or its text instead of its code)", construct="include compiles the included file")
            return
        return ck.incomplete("metacommands::include", "'.include \"x.mac\"' with a readable file (no path reaches compile_include)", all_ps)
    for p in ps:
        r, calls_, route_, opened = p.value
        # the name in the directive is resolved against the including file, that path is the one opened, and the parser gets
        # (that path, what was read from it) - the path is what diagnostics inside the included file show and what its own includes resolve against
        res = [x for x in route_ if x[0] == "resolve"]
        par = [x for x in route_ if x[0] == "parse"]
        PATH = sym.var("PATH", "str")
        ck.instance("include-route", {"resolve_relative_path": repr(res[0][1:]) if res else None, "open": repr(opened), "parse": repr(par[0][1:])[:160] if par else None}, fn="metacommands::include")
        if len(res) != 1 or (tuple(res[0][1]) + tuple(res[0][2].get(n) for n in ("path", "relative_to") if n in res[0][2]))[:2] != ("x.mac", "a.mac"):
            ck.violation("metacommands::include", f"'.include \"x.mac\"' inside a.mac resolves its path with resolve_relative_path{res[0][1] if res else ()!r}; expected ('x.mac', 'a.mac'): the included name relative to the including file",
                         construct="include path resolution")
        if len(opened) != 1 or not opened[0] or opened[0][0] != PATH:
            ck.violation("metacommands::include", f"'.include' opens {opened!r}, expected the resolved path first", construct="include opens the resolved path")
        if len(par) != 1 or len(par[0][1]) != 2 or par[0][1][0] != PATH or par[0][1][1] == PATH or "read" not in repr(par[0][1][1]):
            ck.violation("metacommands::include", f"'.include' parses {par[0][1] if par else None!r}; expected parse(<resolved path>, <text read from that file>)", construct="include parse arguments")
        if len(calls_) != 1 or len(calls_[0]) < 2 or calls_[0][1] != DOT_:
            ck.violation("metacommands::include", f"'.include' compiles the included file at {calls_[0][1] if calls_ and len(calls_[0]) > 1 else None!r}, not at the address of the including statement", construct="include address argument")
        elif r != sym.var("INCLUDED", "bytes"):
            ck.violation("metacommands::include", f"'.include' returns {r!r}, not the bytes of the included file", construct="include result")


def rule_R7(ck):
    """compile_and_link_files: file k starts at base + total length of files before it; result is their concatenation;
    every symbol value (whatever its kind) is waited before returning"""
    repo = ck.repo
    where = "compiler::Compiler.compile_and_link_files"
    for deferred in (False, True):
        I = eager_interp(repo)
        I.summaries = {"reports::emit_report": I.summaries["reports::emit_report"]}
        calls = []
        L = [sym.var(f"len{i}", "int") for i in range(3)]

        def compile_file(I_, fn, a, k):
            i = len(calls)
            calls.append(a)
            if deferred:
                SD = I_.module_get("deferred", "SizedDeferred")
                r = I_.instantiate(SD, [I_.builtin_types["bytes"], L[i], PyFn(lambda I2, aa, kk: sym.var(f"chunk{i}", "bytes"))], {})
                return r
            return sym.var(f"chunk{i}", "bytes")
        I.summaries["compiler::Compiler.compile_file"] = compile_file

        def thunk():
            del calls[:]
            comp = I.instantiate(I.module_get("compiler", "Compiler"), [], {})
            files = [sym.var(f"file{i}", "obj") for i in range(3)]
            base, code = I.call_method(comp, "compile_and_link_files", [files])
            wait = I.module_get("deferred", "wait")
            starts = [I.call(wait, [c[2]], {}) for c in calls]
            return base, code, starts, [c[1] for c in calls], [c[3] for c in calls]
        ps = I.explore(thunk)
        gen = [p for p in ps if all(v for k, v in p.decisions)] or ps
        p = gen[0]
        ck.instance(("link-chain", deferred), {"deferred chunks": deferred, "file start addresses": [repr(x) for x in p.value[2]] if p.kind == "return" else repr(p.value)}, fn=where)
        if p.kind != "return":
            ck.violation(where, f"linking three files does not complete: {p.value!r}", construct="link chain")
            continue
        base, code, starts, files, lbs = p.value
        acc = 0o1000
        for i, st in enumerate(starts):
            if st != acc:
                ck.violation(where, f"linked file {i + 1} is compiled at {st!r}; its bytes land at {acc!r} (base + lengths of the files before it)", construct="linked file start address", expected=repr(acc), found=repr(st))
                break
            acc = sym.add(acc, L[i] if deferred else sym.op("len", sym.var(f"chunk{i}", "bytes")))
        want = sym.cat(sym.cat(sym.var("chunk0", "bytes"), sym.var("chunk1", "bytes")), sym.var("chunk2", "bytes"))
        if code != want or base != 0o1000:
            ck.violation(where, f"linking three files yields base {base!r} and image {code!r}, expected base 512 and the concatenation {want!r}", construct="link result")
        if len({id(x) for x in lbs}) != 1:
            ck.violation(where, "linked files do not share one link-base record", construct="link shared base")
    rule_closing_wait(ck)


def rule_closing_wait(ck):
    """every value in the symbol table is evaluated inside compile_and_link_files (so an error in an unused definition
    is diagnosed inside the report scope, and the listing reads final values)"""
    repo = ck.repo
    where = "compiler::Compiler.compile_and_link_files"
    I = eager_interp(repo)
    I.summaries = {"reports::emit_report": I.summaries["reports::emit_report"]}
    waited = []

    def th():
        del waited[:]
        comp = I.instantiate(I.module_get("compiler", "Compiler"), [], {})
        bt = I.builtin_types["int"]
        D = I.module_get("deferred", "Deferred")
        LP = I.module_get("deferred", "LinearPolynomial")
        P = I.module_get("deferred", "Promise")

        def mk(name):
            return PyFn(lambda I_, a, k: waited.append(name) or 1, name)
        d = I.instantiate(D, [bt, mk("deferred")], {})
        inner = I.instantiate(D, [bt, mk("polynomial-term")], {})
        lp = I.instantiate(LP, [bt, {inner: 2}, 1], {})
        pr = I.instantiate(P, [bt, "p"], {})
        I.call_method(pr, "settle", [I.instantiate(D, [bt, mk("promise-value")], {})])
        syms = comp.fields["symbols"]
        for nm, v in (("a", d), ("b", lp), ("c", pr), ("d", 5)):
            I.call_method(syms, "__setitem__", [".internal1." + nm, (sym.var("tok", "obj"), v)])
        I.call_method(comp, "compile_and_link_files", [[]])
        return sorted(waited)
    ps = I.explore(th)
    ck.instance("closing-wait", {"symbol values evaluated before returning": repr(ps[0].value)}, fn=where)
    if len(ps) != 1 or ps[0].kind != "return":
        ck.violation(where, f"closing evaluation of the symbol table does not complete: {ps}", construct="closing wait")
    elif ps[0].value != ["deferred", "polynomial-term", "promise-value"]:
        missing = sorted({"deferred", "polynomial-term", "promise-value"} - set(ps[0].value))
        ck.violation(where, f"symbol values of kind {missing} are not evaluated before compile_and_link_files returns: an error inside an unused definition of that kind is never diagnosed inside the report scope "
                            "(the run succeeds and writes its outputs; a later listing evaluates it outside the scope)", construct="closing wait skips " + ",".join(missing))


def run(ck):
    ck.run_rule("C02.R7", "linked files: start addresses, concatenation, every symbol evaluated", 3, rule_R7)
    ck.run_rule("C02.R1", "announced size == produced length for every sized producer (G8)", 40, rule_R1)
    ck.run_rule("C02.R2", "bytes accumulator / address accumulator pairing", 5, rule_R2)
    ck.run_rule("C02.R3", "'.' and label values are the running address before the statement", 5, rule_R3)
    ck.run_rule("C02.R3b", "compile_block: statement and label addresses, concatenation (abstract execution)", 2, rule_R3b)
    ck.run_rule("C02.R4", "length() siblings agree with the values they describe", 4, rule_R4)
    ck.run_rule("C02.R4c", "concatenation algebra of chunks: value(x + y) = value(x) value(y), length additive (17 operand shapes)", 17, rule_R4c)
    ck.run_rule("G1", "deferred thunks capture by value", 20, thunks.rule_G1)
    from ..rules import route as _route
    ck.run_rule("BLK.route", "implicit word lists, constants and labels compiled as statements of a block: values, byte order, the label's address", 1, _route.rule_block_route)
    from . import c03 as _c03
    ck.run_rule("C03.R7", "addresses inside an included file while the base is still unknown: the include's own base is a polynomial over the outer one (LinearPolynomial algebra, substitution)", 18, _c03.rule_R7)
    ck.run_rule("C02.R6", "address continuation across included and linked files", 3, rule_R6)
    from ..rules import treeimm
    ck.run_rule("G4.re", "the value of '.' inside an expression is the current statement's, also when the same tree node is compiled again", 15, treeimm.rule_reresolve)
    ck.run_rule("G4.def", "the image and its length are values: no in-place growth, no cached length", 30, treeimm.rule_deferred_immutable)
