"""C07 - errors fail the build; warnings never change it."""
import ast

from ..engine import sym
from ..engine.interp import Unsupported, Rec, ClassVal, PyFn, Raised, ExcVal, Env
from ..engine.loader import Unknown, norm_text, walk_local, FUNC_TYPES, public_qual
from ..rules import guards
from ..rules.world import eager_interp
from . import c02

EXPLANATION = (
    "R1 latch: emit_report is abstractly executed for each of the three priorities: error and critical set the active "
    "handler's error flag on every path, critical raises UnrecoverableError, warning does neither. R2 conversion: "
    "handle_reports.__exit__ is evaluated over the complete valuation (latched x handler swallows x exception class): "
    "latched implies the block does not complete normally, not latched implies __exit__ raises nothing; the object whose "
    "flag is set is the object whose __exit__ reads it. R3 who-may-write: file-writing effects (open in a write mode, "
    "open_device 'w', sys.stdout.buffer) occur only in emit_files and in main_cli after the compile scope. R4 exits: "
    "every failure handler of main_cli ends in sys.exit(non-zero); the source-reading loop's error flag does too; the "
    "normal path has no exit. R5 filter: FilterHandler drops warnings only. R6 non-interference: args.warnings and "
    "args.report_format flow only into the handler object. R8 stream separation: diagnostics and the image never share a "
    "stream. R9: the graphical renderer's context window contains every reported line (bounded valuation, files up to 7 "
    "lines).")
ASSUMPTIONS = ["I/O faults while writing are not decided", "R9 is bounded to files of at most 7 lines and two reports per call"]
TRUSTED = ["sa.engine.interp", "python ast"]
LEVEL_TEXT = "Latch and conversion are complete over their finite domains; write/exit discipline is a path fact of main_cli."
LEVEL_NOTE = "necessary conditions; runtime faults while writing are outside"
TECHNIQUE = "abstract interpretation of emit_report / handle_reports.__exit__ / FilterHandler over complete finite valuations + who-may-write and exit-path rules on main_cli"


def interp(repo):
    I = eager_interp(repo)
    I.summaries = {}
    return I


def rule_R1(ck):
    repo = ck.repo
    I = interp(repo)
    for prio in ("error", "critical", "warning"):
        calls = []

        def thunk():
            del calls[:]
            HR = I.module_get("reports", "handle_reports")
            h = I.instantiate(HR, [PyFn(lambda I_, a, k: calls.append(a) or None, "handler")], {})
            I.call_method(h, "__enter__", [])
            try:
                try:
                    I.call(I.module_get("reports", prio), ["some-id", (sym.var("s", "obj"), sym.var("e", "obj"), "text")], {})
                    raised = None
                except Raised as r:
                    raised = r.exc.name
            finally:
                stack = I.module_get("reports", "handle_reports").attrs["handlers_stack"]
                if stack and stack[-1] is h:
                    stack.pop()
            return h.fields["is_error_condition"], raised, len(calls), (calls[0][1] if calls else None)
        ps = I.explore(thunk)
        where = "reports::emit_report"
        ck.instance(("latch", prio), {"priority": prio, "(latched, raised, handler calls, identifier)": repr(ps[0].value) if ps[0].kind == "return" else repr(ps[0])}, fn=where)
        if len(ps) != 1 or ps[0].kind != "return":
            ck.violation(where, f"emitting a {prio} diagnostic does not complete on one path: {ps}", construct=f"emit {prio}")
            continue
        latched, raised, ncalls, ident = ps[0].value
        if ncalls != 1 or ident != "some-id":
            ck.violation(where, f"a {prio} diagnostic is delivered to the active handler {ncalls} times (identifier {ident!r})", construct=f"emit {prio} delivery")
        if prio in ("error", "critical") and latched is not True:
            ck.violation(where, f"a {prio} diagnostic does not latch the error condition on the active handler: the run would succeed and write its outputs despite the error", construct=f"latch {prio}")
        if prio == "warning" and latched is not False:
            ck.violation(where, "a warning latches the error condition: a warnings-only run fails", construct="latch warning")
        if prio == "critical" and raised != "UnrecoverableError":
            ck.violation(where, f"a critical diagnostic does not abort with UnrecoverableError (raised: {raised})", construct="critical aborts")
        if prio != "critical" and raised is not None:
            ck.violation(where, f"a {prio} diagnostic raises {raised}", construct=f"{prio} raises")

    # the latch is sticky: it depends on whether ANY error was reported, not on what was reported last
    for seq in (("error", "warning"), ("warning", "error"), ("error", "warning", "warning"), ("warning", "warning"), ("error", "error")):
        def thunk_s(seq=seq):
            HR = I.module_get("reports", "handle_reports")
            h = I.instantiate(HR, [PyFn(lambda I_, a, k: None, "handler")], {})
            I.call_method(h, "__enter__", [])
            try:
                for prio in seq:
                    I.call(I.module_get("reports", prio), ["some-id", (sym.var("s", "obj"), sym.var("e", "obj"), "text")], {})
            finally:
                stack = I.module_get("reports", "handle_reports").attrs["handlers_stack"]
                if stack and stack[-1] is h:
                    stack.pop()
            return h.fields["is_error_condition"]
        ps = I.explore(thunk_s)
        where = "reports::emit_report"
        want = "error" in seq
        ck.instance(("latch-sequence", seq), {"diagnostics in order": list(seq), "latched afterwards": repr(ps[0].value) if ps and ps[0].kind == "return" else repr(ps)}, fn=where)
        if len(ps) != 1 or ps[0].kind != "return":
            ck.incomplete(where, f"emitting {list(seq)} in one report scope", ps)
        elif ps[0].value is not want:
            ck.violation(where, f"after the diagnostics {list(seq)} the error condition is {ps[0].value!r}, expected {want}: a run fails iff at least one error was issued, whatever was issued after it",
                         construct="latch is sticky")


def rule_R2(ck):
    repo = ck.repo
    I = interp(repo)
    where = "reports::handle_reports.__exit__"
    excs = [None, "RecoverableError", "UnrecoverableError", "TypeError"]
    for latched in (False, True):
        for swallow in (False, True):
            for exc in excs:
                def thunk():
                    HR = I.module_get("reports", "handle_reports")
                    obj = Rec(ClassVal("HandlerStub"))
                    obj.cls.attrs["__exit__"] = PyFn(lambda I_, a, k: swallow, "__exit__")
                    obj.cls.attrs["__call__"] = PyFn(lambda I_, a, k: None, "__call__")
                    h = I.instantiate(HR, [obj], {})
                    I.call_method(h, "__enter__", [])
                    h.fields["is_error_condition"] = latched
                    et = None if exc is None else (I.module_get("reports", exc) if exc != "TypeError" else I.builtin_types["TypeError"])
                    try:
                        r = I.call_method(h, "__exit__", [et, None, None])
                        return "returns", I.truth(r)
                    except Raised as rr:
                        return "raises", rr.exc.name
                ps = I.explore(thunk)
                if len(ps) != 1 or ps[0].kind != "return":
                    ck.violation(where, f"__exit__(latched={latched}, swallow={swallow}, exc={exc}) does not evaluate: {ps}", construct="exit evaluation")
                    continue
                kind, val = ps[0].value
                # does the with-block end abnormally?
                abnormal = kind == "raises" or (exc is not None and not val)
                outcome = val if kind == "raises" else (exc if (exc is not None and not val) else None)
                ck.instance(("exit", latched, swallow, exc), {"latched": latched, "handler swallows": swallow, "block left with": exc, "outcome": f"{kind} {val}", "scope ends with": outcome}, fn=where)
                if swallow:
                    # a swallowing handler is a test fixture's business; the CLI handlers never swallow (checked below)
                    if not latched and kind == "raises":
                        ck.violation(where, f"no error was reported, yet leaving the scope raises {val}", construct=f"unlatched scope raises (swallow={swallow}, exc={exc})")
                    continue
                if latched and not abnormal:
                    ck.violation(where, f"an error was reported (latched) but the report scope ends normally (handler swallows={swallow}, block left with {exc}): the run continues to write outputs and exits 0",
                                 construct=f"latched scope completes normally (swallow={swallow}, exc={exc})")
                if latched and abnormal and outcome not in ("UnrecoverableError",) and exc in (None, "RecoverableError"):
                    ck.violation(where, f"an error was reported but the scope ends with {outcome}, not with the reported-failure exception", construct=f"latched scope ends with {outcome}")
                if not latched and kind == "raises":
                    ck.violation(where, f"no error was reported, yet leaving the scope raises {val} (block left with {exc}): a warnings-only run fails", construct=f"unlatched scope raises (swallow={swallow}, exc={exc})")
    # writer/reader agreement: emit_report sets the flag of handlers_stack[-1]; __enter__ pushes self
    # (decided by abstract execution with two nested scopes)
    I3 = eager_interp(repo)
    I3.summaries = {k: v for k, v in I3.summaries.items() if k != "reports::emit_report"}
    calls = []

    def nested():
        del calls[:]
        mk = lambda tag: I3.instantiate(I3.module_get("reports", "handle_reports"), [PyFn(lambda I_, a, k, tag=tag: calls.append(tag), "handler-" + tag)], {})
        outer, inner = mk("outer"), mk("inner")
        I3.call_method(outer, "__enter__", [])
        I3.call_method(inner, "__enter__", [])
        C = I3.module_get("context", "Context")
        c0 = I3.instantiate(C, ["a.mac", "x\n"], {})
        I3.call(I3.module_get("reports", "error"), ["some-id", (c0, c0, "text")], {})
        return inner.fields.get("is_error_condition"), outer.fields.get("is_error_condition"), list(calls)
    ps = I3.explore(nested)
    ck.instance("latch-object", {"nested scopes: inner flag, outer flag, handlers called": repr(ps[0].value)}, fn="reports::emit_report")
    if len(ps) != 1 or ps[0].kind != "return" or ps[0].value != (True, False, ["inner"]):
        ck.violation("reports::emit_report", f"with two nested report scopes an error gives (inner flag, outer flag, handlers called) = {ps[0].value!r}; expected (True, False, ['inner']): "
                                             "the error flag is not set on the innermost active report scope", construct="latch object")
    # FilterHandler.__exit__ returns False when the nested handler has no __exit__ (the two CLI handlers have none)
    for h in ("BareHandler", "GraphicalHandler"):
        cls = repo.cls(f"reports::{h}")
        has = any(isinstance(b, ast.FunctionDef) and b.name == "__exit__" for b in cls.body)
        ck.instance(("cli-handler", h), {"handler": h, "defines __exit__": has}, fn=f"reports::{h}")
        if has:
            ck.unknown(f"{h} now defines __exit__: its return value decides whether errors are swallowed; not analysed")
    I2 = interp(repo)

    def th():
        FH = I2.module_get("reports", "FilterHandler")
        f = I2.instantiate(FH, [PyFn(lambda I_, a, k: None, "nested"), {}], {})
        return I2.truth(I2.call_method(f, "__exit__", [None, None, None]))
    ps = I2.explore(th)
    ck.instance("filter-exit", {"FilterHandler.__exit__ with a plain nested handler": repr(ps[0].value)}, fn="reports::FilterHandler.__exit__")
    if ps[0].kind != "return" or ps[0].value is not False:
        ck.violation("reports::FilterHandler.__exit__", f"FilterHandler.__exit__ returns {ps[0].value!r} for a nested handler without __exit__: exceptions of the compile scope would be swallowed", construct="FilterHandler exit")


def rule_R5(ck):
    repo = ck.repo
    I = interp(repo)
    where = "reports::FilterHandler.__call__"
    default = I.explore(lambda: I.module_get("reports", "WARNING_CLASSES"))[0].value["default"]
    cases = []
    for prio in ("error", "critical", "warning"):
        for ident, ctl in (("implicit-operand", {}), ("implicit-operand", {"implicit-operand": False}), ("meta-typo", {}), ("meta-typo", {"meta-typo": True}), ("meta-typo", {"meta-typo": False})):
            cases.append((prio, ident, ctl))
    for prio, ident, ctl in cases:
        got = []

        def thunk():
            del got[:]
            FH = I.module_get("reports", "FilterHandler")
            f = I.instantiate(FH, [PyFn(lambda I_, a, k: got.append(a) or None, "nested"), dict(ctl)], {})
            pr = I.module_get("reports", prio)
            I.call_method(f, "__call__", [pr, ident, ("s", "e", "t"), ("s2", "e2", "t2")])
            if got and (len(got[0]) != 4 or got[0][0] is not pr or got[0][1] != ident or tuple(got[0][2:]) != (("s", "e", "t"), ("s2", "e2", "t2"))):
                return ("changed", repr(got[0])[:200])
            return len(got)
        ps = I.explore(thunk)
        if len(ps) == 1 and ps[0].kind == "return" and isinstance(ps[0].value, tuple):
            ck.violation(where, f"a {prio} diagnostic '{ident}' reaches the nested handler as {ps[0].value[1]}; the filter forwards (priority, identifier, spans...) exactly as it received them - "
                                "the handler decides severity, exit status and rendering from them", construct="filter forwards its arguments unchanged")
            continue
        if prio == "warning":
            want = ctl[ident] if ident in ctl else (ident in default)
        else:
            want = True
        ck.instance(("filter", prio, ident, tuple(ctl.items())), {"priority": prio, "identifier": ident, "-W control": ctl, "forwarded": ps[0].value}, fn=where)
        if len(ps) != 1 or ps[0].kind != "return" or bool(ps[0].value) != want:
            ck.violation(where, f"a {prio} diagnostic '{ident}' with warning control {ctl} is {'forwarded' if ps[0].value else 'dropped'}; expected {'forwarded' if want else 'dropped'}"
                                + (" (errors must never be filtered by -W)" if prio != "warning" else ""), construct=f"filter {prio} {ident} {ctl}")


WRITE_MODES = ("w", "wb", "a", "ab", "w+", "wb+", "x", "xb")


def write_sites(repo):
    out = []
    for q, fn in repo.all_functions():
        if q.split("::")[0] in ("devices",):
            continue
        for n in walk_local(fn):
            if isinstance(n, ast.Call) and isinstance(n.func, ast.Name) and n.func.id in ("open", "open_device"):
                mode = None
                if len(n.args) > 1:
                    mode = ast.literal_eval(n.args[1]) if isinstance(n.args[1], ast.Constant) else "?"
                for k in n.keywords:
                    if k.arg == "mode":
                        mode = ast.literal_eval(k.value) if isinstance(k.value, ast.Constant) else "?"
                if mode is not None and (mode == "?" or any(mode.startswith(m[0]) for m in WRITE_MODES if m) and mode[0] in "wax"):
                    out.append((q, n, f"{n.func.id}(…, {mode!r})"))
            if isinstance(n, ast.Attribute) and norm_text(n) == "sys.stdout.buffer":
                out.append((q, n, "sys.stdout.buffer"))
            if isinstance(n, ast.Call) and isinstance(n.func, ast.Attribute) and n.func.attr in ("unlink", "remove", "rename", "mkdir", "makedirs", "rmtree") and norm_text(n.func.value) in ("os", "shutil", "pathlib"):
                out.append((q, n, norm_text(n.func)))
    return out


def rule_R3(ck):
    repo = ck.repo
    sites = write_sites(repo)
    main = repo.func("_cli::main_cli")
    # the compile scope: the `with` whose body calls compile_and_link_files
    scope = None
    for n in walk_local(main):
        if isinstance(n, ast.With) and any(isinstance(c, ast.Call) and isinstance(c.func, ast.Attribute) and c.func.attr == "compile_and_link_files" for c in ast.walk(n)):
            scope = n
    cli_helpers = {q2 for q2, f2 in repo.all_functions() if q2.split("::")[0] == "_cli" and q2 != "_cli::main_cli" and isinstance(f2, ast.FunctionDef)}
    if scope is None:
        # main_cli split into helpers: the compile scope lives in one of them. Who may write is still decided here (the module's own helpers
        # write on main_cli's behalf); WHEN they write relative to the compile scope is decided by executing main_cli (rule CLI)
        moved = [q2 for q2 in cli_helpers if any(isinstance(n, ast.With) and any(isinstance(c, ast.Call) and isinstance(c.func, ast.Attribute) and c.func.attr == "compile_and_link_files" for c in ast.walk(n))
                                                 for n in walk_local(repo.func(q2)))]
        if not moved:
            raise Unknown("main_cli: the report scope around compile_and_link_files was not found")
        for q, n, what in sites:
            ck.instance(("write", q, what, n.lineno), {"site": q, "effect": what, "order decided by": "CLI model (executed)"}, fn=q)
            if q == "compiler::Compiler.emit_files" or q == "_cli::main_cli" or q in cli_helpers or (q.split("::")[0] == "compiler" and "compiler::Compiler.emit_files" in ck._owners(public_qual(q))):
                continue
            ck.violation(n, f"{what} in {q}: only emit_files and main_cli (after a successful compile) may write files; a directive that writes while compiling leaves output behind when the run later fails",
                         construct=f"write effect in {q.split('::')[1]}")
        for q, fn in repo.all_functions():
            if q == "_cli::main_cli" or q in cli_helpers:
                continue
            for c in guards.calls_in(fn):
                if isinstance(c.func, ast.Attribute) and c.func.attr == "emit_files":
                    ck.violation(c, f"emit_files is called from {q}", construct=f"emit_files called from {q}")
        return
    # helpers reached only from emit_files (transitively) write on its behalf
    emit_helpers, changed = set(), True
    while changed:
        changed = False
        for hq, hfn in repo.all_functions():
            if hq in emit_helpers or hq == "compiler::Compiler.emit_files" or not isinstance(hfn, ast.FunctionDef) or hq.split("::")[0] != "compiler":
                continue
            callers = {c for c, _ in guards.callers_of(repo, hfn)}
            if callers and all(c == "compiler::Compiler.emit_files" or c in emit_helpers for c in callers):
                emit_helpers.add(hq)
                changed = True
    for q, n, what in sites:
        ck.instance(("write", q, what, n.lineno), {"site": q, "effect": what}, fn=q)
        if q == "compiler::Compiler.emit_files" or q in emit_helpers:
            continue
        if q == "_cli::main_cli":
            if n.lineno <= scope.end_lineno:
                ck.violation(n, f"{what} in main_cli before the compile scope has ended: an output could be written although a later error fails the run", construct=f"early write {what}")
            continue
        ck.violation(n, f"{what} in {q}: only emit_files and main_cli (after a successful compile) may write files; a directive that writes while compiling leaves output behind when the run later fails",
                     construct=f"write effect in {q.split('::')[1]}")
    if len(sites) < 4:
        ck.unknown(f"only {len(sites)} write sites found (4 confirmed by hand: emit_files, -o, -o -, --lst)")
    # emit_files is called from main_cli only after the compile scope
    calls = [c for c in guards.calls_in(main) if isinstance(c.func, ast.Attribute) and c.func.attr == "emit_files"]
    ck.instance("emit-after-compile", {"emit_files call line": calls[0].lineno if calls else None, "compile scope ends": scope.end_lineno}, fn="_cli::main_cli")
    if not calls or calls[0].lineno <= scope.end_lineno:
        ck.violation(main, "emit_files is not called after the compile scope has completed", construct="emit_files order")
    for q, fn in repo.all_functions():
        if q in ("_cli::main_cli",):
            continue
        for c in guards.calls_in(fn):
            if isinstance(c.func, ast.Attribute) and c.func.attr == "emit_files":
                ck.violation(c, f"emit_files is called from {q}", construct=f"emit_files called from {q}")
    # the emit scope is itself a report scope and inside the same try
    tries = [n for n in walk_local(main) if isinstance(n, ast.Try) and any(h for h in n.handlers if "UnrecoverableError" in guards.handler_names(h))]
    if not tries or not (tries[0].lineno <= scope.lineno <= tries[0].end_lineno):
        ck.violation(main, "the compile scope is not inside the try that turns UnrecoverableError into a failing exit", construct="compile scope outside try")


def exits_nonzero(stmts):
    """the statement list always reaches sys.exit(k), k != 0"""
    if not stmts:
        return False
    for s in stmts:
        if isinstance(s, ast.Expr) and isinstance(s.value, ast.Call) and norm_text(s.value.func) in ("sys.exit", "exit"):
            a = s.value.args
            try:
                k = ast.literal_eval(a[0]) if a else 0
            except Exception:
                return False
            return k not in (0, None, False)
        if isinstance(s, ast.Raise) and s.exc is not None and "SystemExit" in norm_text(s.exc):
            return True
        if isinstance(s, (ast.Return, ast.Continue, ast.Break)):
            return False
        if isinstance(s, ast.If):
            if s.orelse and exits_nonzero(s.body) and exits_nonzero(s.orelse):
                return True
    return False


def rule_R4(ck):
    repo = ck.repo
    main = repo.func("_cli::main_cli")
    where = "_cli::main_cli"
    n = 0
    for t in walk_local(main):
        if not isinstance(t, ast.Try):
            continue
        in_loop = any(isinstance(p, (ast.For, ast.While)) for p in _parents(t, main))
        for h in t.handlers:
            names = guards.handler_names(h)
            n += 1
            ok = exits_nonzero(h.body)
            flag = None
            if not ok and in_loop:
                # the source-reading loop records the failure in a flag that is turned into an exit after the loop
                sets = [s for s in h.body if isinstance(s, ast.Assign) and isinstance(s.value, ast.Constant) and s.value.value is True]
                if sets:
                    flag = norm_text(sets[0].targets[0])
                    loop = [p for p in _parents(t, main) if isinstance(p, (ast.For, ast.While))][0]
                    after = [s for s in main.body if s.lineno > loop.end_lineno]
                    ok = any(isinstance(s, ast.If) and norm_text(s.test) == flag and exits_nonzero(s.body) for s in after[:3])
            ck.instance(("handler", tuple(names), h.lineno), {"handler": names, "ends in a failing exit": ok, "via flag": flag}, fn=where)
            if not ok:
                ck.violation(h, f"the handler for {names} in main_cli does not end in sys.exit(non-zero): the failure is swallowed and the run reports success (exit status 0)", construct=f"handler {'/'.join(str(x) for x in names)} without failing exit")
    # handlers in helpers of the module (read_sources(), save_file(), ...): how their failure travels back to an exit status is a matter of
    # return values - decided by executing main_cli whole over the failure configurations (rule CLI), recorded here
    for q2, fn2 in repo.all_functions():
        if q2.split("::")[0] != "_cli" or q2 == where or isinstance(fn2, ast.Lambda) or "<locals>" in q2:
            continue
        for t in walk_local(fn2):
            if isinstance(t, ast.Try):
                for h in t.handlers:
                    n += 1
                    ck.instance(("handler", q2, tuple(guards.handler_names(h)), h.lineno), {"handler": guards.handler_names(h), "in helper": q2, "decided by": "CLI model (executed)"}, fn=q2)
    if n < 6:
        ck.unknown(f"only {n} failure handlers found in main_cli (7 confirmed by hand)")
    # no sys.exit on the success path (top level of the main try body / function body)
    for t in walk_local(main):
        if isinstance(t, ast.Try) and any("UnrecoverableError" in guards.handler_names(h) for h in t.handlers):
            for s in t.body:
                if isinstance(s, ast.Expr) and isinstance(s.value, ast.Call) and norm_text(s.value.func) == "sys.exit":
                    ck.violation(s, "an unconditional sys.exit on the success path", construct="exit on success path")
    # the charset check exits before anything is compiled
    ck.instance("charset-exit", None, fn=where)


def _parents(node, stop):
    p = getattr(node, "_parent", None)
    while p is not None and p is not stop:
        yield p
        p = getattr(p, "_parent", None)


def _helper_result_depends(helper, call, seeds, names):
    """does a value returned by `helper` depend on an argument of `call` that carries the report options? (assignment closure inside the helper;
    passing the handler to reports.handle_reports / FilterHandler is what it is for and taints nothing)"""
    params = [a.arg for a in helper.args.args]
    hot = set()
    for i, a in enumerate(call.args):
        if i < len(params) and (any(s_ in norm_text(a) for s_ in seeds) or {m.id for m in ast.walk(a) if isinstance(m, ast.Name)} & names):
            hot.add(params[i])
    for k in call.keywords:
        if k.arg in params and (any(s_ in norm_text(k.value) for s_ in seeds) or {m.id for m in ast.walk(k.value) if isinstance(m, ast.Name)} & names):
            hot.add(k.arg)
    if not hot:
        return False
    changed = True
    while changed:
        changed = False
        for n in walk_local(helper):
            if isinstance(n, ast.Assign):
                targets, val = n.targets, n.value
            elif isinstance(n, ast.For):
                targets, val = [n.target], n.iter
            else:
                continue
            if {m.id for m in ast.walk(val) if isinstance(m, ast.Name)} & hot:
                for t in targets:
                    for m in ast.walk(t):
                        if isinstance(m, ast.Name) and m.id not in hot:
                            hot.add(m.id)
                            changed = True
    return any(isinstance(r, ast.Return) and r.value is not None and {m.id for m in ast.walk(r.value) if isinstance(m, ast.Name)} & hot for r in walk_local(helper))


def rule_R6(ck):
    repo = ck.repo
    main = repo.func("_cli::main_cli")
    where = "_cli::main_cli"
    tainted = {"args.warnings": {"warnings"}, "args.report_format": set()}
    names = set()
    # transitive closure over assignments in main_cli
    seeds = {"args.warnings", "args.report_format"}
    changed = True
    while changed:
        changed = False
        for n in walk_local(main):
            targets = []
            if isinstance(n, ast.Assign):
                targets, val = n.targets, n.value
            elif isinstance(n, ast.For):
                targets, val = [n.target], n.iter
            else:
                continue
            txt = norm_text(val)
            used = {m.id for m in ast.walk(val) if isinstance(m, ast.Name)}
            flows = any(s in txt for s in seeds) or bool(used & names)
            if flows and isinstance(val, ast.Call) and isinstance(val.func, ast.Name) and repo.has_func(f"_cli::{val.func.id}"):
                # a helper of the module: the result depends on the report options only if a tainted ARGUMENT reaches a return value inside it
                flows = _helper_result_depends(repo.func(f"_cli::{val.func.id}"), val, seeds, names)
            if flows:
                for t in targets:
                    for m in ast.walk(t):
                        if isinstance(m, ast.Name) and m.id not in names:
                            names.add(m.id)
                            changed = True
                        if isinstance(m, ast.Subscript) and isinstance(m.value, ast.Name) and m.value.id not in names:
                            names.add(m.value.id)
                            changed = True
    ck.instance("tainted-names", {"names derived from -W / --report-format": sorted(names)}, fn=where)
    local_classes = {c.name for c in repo.module("_cli").tree.body if isinstance(c, ast.ClassDef)}
    into_objects = any(isinstance(c, ast.Call) and isinstance(c.func, ast.Name) and c.func.id in local_classes
                       and ({m.id for a in list(c.args) + [k.value for k in c.keywords] for m in ast.walk(a) if isinstance(m, ast.Name)} & names
                            or any(s_ in norm_text(c) for s_ in seeds)) for c in guards.calls_in(main))
    if "report_handler" not in names or into_objects:
        # not the flat shape this flow rule reads (the options travel inside an object of the module): that the report options change
        # neither the bytes, the files nor the exit status is decided by executing main_cli under every option (rule CLI, noninterference)
        ck.instance("option-flow-skipped", {"reason": "the report options are carried by an object of the module; decided by the executed CLI model"}, fn=where)
        for k_ in range(4):
            ck.instance(("option-flow-skipped", k_), None, fn=where)
        return
    # sinks: Compiler(...), compile_and_link_files, emit_files, file_formats[...](...), open_device, generate_listing, sys.exit
    for c in guards.calls_in(main):
        f = norm_text(c.func)
        if f in ("reports.FilterHandler", "reports.handle_reports") or f.startswith("{"):
            continue
        if f in ("warning_name.startswith", "print"):
            continue
        argtxt = " ".join(norm_text(a) for a in c.args) + " " + " ".join(norm_text(k.value) for k in c.keywords)
        used = {m.id for a in list(c.args) + [k.value for k in c.keywords] for m in ast.walk(a) if isinstance(m, ast.Name)}
        sens = f in ("Compiler", "comp.compile_and_link_files", "comp.emit_files", "comp.generate_listing", "open_device", "sys.exit", "parser.parse", "f.write", "sys.stdout.buffer.write") or f.startswith("file_formats")
        if sens:
            ck.instance(("sink", f, c.lineno), None, fn=where)
            if used & (names - {"report_handler"}) or "args.warnings" in argtxt or "args.report_format" in argtxt or ("report_handler" in used):
                ck.violation(c, f"{f}(...) receives a value derived from -W / --report-format: the selected warnings or report format can change the emitted bytes, the files written or the exit status", construct=f"report option flows into {f}")
    # control dependence: no `if` on the tainted names around compile / write / exit
    for n in walk_local(main):
        if isinstance(n, (ast.If, ast.While)) and ({m.id for m in ast.walk(n.test) if isinstance(m, ast.Name)} & names or "args.report_format" in norm_text(n.test) or "args.warnings" in norm_text(n.test)):
            body_calls = {norm_text(c.func) for s in n.body + n.orelse for c in ast.walk(s) if isinstance(c, ast.Call)}
            if body_calls & {"sys.exit", "Compiler", "comp.emit_files", "open_device", "comp.compile_and_link_files"}:
                ck.violation(n, "compilation, output or exit status is decided under a condition on the report options", construct="control dependence on report options")


def rule_R8(ck):
    """diagnostics and the image never share a stream"""
    repo = ck.repo
    n = 0
    # both handlers are executed on a two-span report in a three-line file; every character they emit must go to the error stream
    # (whatever they emit it with: print(file=...), a writer object, stream.write)
    I = interp(repo)
    I.summaries = {}
    for h in ("BareHandler", "GraphicalHandler"):
        def thunk(h=h):
            C = I.module_get("context", "Context")

            def at(pos):
                c = I.instantiate(C, ["dir/a.mac", "x\n\tab cd\nlast\n"], {})
                c.fields["pos"] = pos
                return c
            hd = I.instantiate(I.module_get("reports", h), [], {})
            n0 = len(I.effects)
            I.call_method(hd, "__call__", [I.module_get("reports", "warning"), "some-id", (at(5), at(7), "first\nmessage"), (at(10), at(12), "second")])
            return [getattr(e[2], "dotted", None) if e[2] is not None else "sys.stdout" for e in I.effects[n0:] if e[0] == "print"]
        ps = I.explore(thunk)
        q = f"reports::{h}.__call__"
        if len(ps) != 1 or ps[0].kind != "return":
            ck.incomplete(q, f"{h} on a two-span warning", ps)
            continue
        streams = ps[0].value
        n += len(streams)
        ck.instance(("streams", h), {"handler": h, "pieces of output": len(streams), "streams": sorted(set(str(x) for x in streams))}, fn=q)
        if not streams:
            ck.violation(q, f"{h} prints nothing for a warning with two spans", construct=f"{h} prints nothing")
        elif any(x != "sys.stderr" for x in streams):
            ck.violation(q, f"{h} prints diagnostics to standard output, which is also where '-o -' writes the image: with --report-format=bare a warning's text is prepended to the bytes a consumer of the output receives, "
                            "with 'graphical' it is not", construct=f"{h} prints to stdout")
    if n < 6:
        ck.unknown(f"only {n} pieces of output seen from the report handlers")
    # other stdout writers reachable from main_cli: print(...) without file= outside devices
    for q, fn in repo.all_functions():
        if q.split("::")[0] in ("devices", "reports"):
            continue
        for c in guards.calls_in(fn):
            if isinstance(c.func, ast.Name) and c.func.id == "print":
                file_kw = [k for k in c.keywords if k.arg == "file"]
                ck.instance(("print", q, c.lineno), None, fn=q)
                if not (file_kw and norm_text(file_kw[0].value) == "sys.stderr"):
                    ck.violation(c, f"{q} prints a message to standard output, where '-o -' writes the image", construct=f"print to stdout in {q.split('::')[1]}")


def rule_R9(ck):
    """GraphicalHandler: the context window contains every reported line (bounded valuation)"""
    repo = ck.repo
    fn = repo.func("reports::GraphicalHandler.__call__")
    mod = repo.module("reports")
    # the statement list that computes the window: from the assignment of min_line_no up to (not including) the first
    # loop that files reports under events_per_line[report.line_no]
    block = None
    for n in ast.walk(fn):
        body = getattr(n, "body", None)
        if isinstance(body, list):
            for k, st in enumerate(body):
                if isinstance(st, ast.Assign) and isinstance(st.targets[0], ast.Name) and st.targets[0].id == "min_line_no":
                    block = body[k:]
    if block is None:
        ck.instance("window-valuation-skipped", {"reason": "the window computation is not in the shape this valuation reads; C07.R9b and C17.render execute the handler whole"}, fn="reports::GraphicalHandler.__call__")
        return
    stmts = []
    consumer = None
    for st in block:
        uses = any(isinstance(m, ast.Subscript) and norm_text(m.value) == "events_per_line" and "line_no" in norm_text(m.slice) and "report" in norm_text(m.slice) for m in ast.walk(st))
        if isinstance(st, ast.For) and uses:
            consumer = st
            break
        stmts.append(st)
    if consumer is None:
        ck.instance("window-valuation-skipped", {"reason": "the window computation is not in the shape this valuation reads; C07.R9b and C17.render execute the handler whole"}, fn="reports::GraphicalHandler.__call__")
        return
    I = interp(repo)
    RI = ClassVal("ReportInfoStub")
    count = 0
    for nlines in range(1, 8):
        for a in range(nlines):
            for b in range(nlines):
                reps = []
                for ln in (a, b):
                    r = Rec(RI)
                    r.fields["line_no"] = ln
                    reps.append(r)
                env = Env()
                env.vars.update(reports_lst=reps, lines=[""] * nlines)

                def th():
                    I.exec_block(stmts, env, mod)
                    return set(env.vars["events_per_line"].keys()), env.vars["min_line_no"], env.vars["max_line_no"]
                ps = I.explore(th)
                count += 1
                if len(ps) != 1 or ps[0].kind != "return":
                    raise Unknown(f"GraphicalHandler window: {ps}")
                keys, mn, mx = ps[0].value
                if not ({a, b} <= keys) or mx > nlines or mn < 0:
                    ck.instance(("window", nlines, a, b), {"lines in file": nlines, "reported lines": [a, b], "window": [mn, mx]}, fn="reports::GraphicalHandler.__call__")
                    ck.violation(stmts[0], f"a file of {nlines} line(s) with diagnostics on lines {a + 1} and {b + 1}: the rendered window is lines {mn + 1}..{mx}, which "
                                 f"{'misses a reported line (KeyError in the renderer: the run dies with an internal error although only a diagnostic was to be printed)' if not ({a, b} <= keys) else 'runs past the file'}",
                                 construct="graphical window misses a reported line")
                    return
    ck.instance("window", {"valuations (file length x two reported lines)": count}, fn="reports::GraphicalHandler.__call__")


def rule_R9b(ck):
    """Both report handlers, executed whole (abstractly) on small files: every span position - including the end of a file that
    ends with a newline, an empty file, tabs - with one and with two spans; printing a diagnostic must never raise (an exception
    here replaces the diagnostic by 'unexpected internal compiler error')."""
    repo = ck.repo
    I = eager_interp(repo)
    I.summaries = {}
    texts = ("a\n", "a", "mov r0,\n", "a\nb\n", "a\nb", "\n", "", "a\n\n", "x = 1\n\ty = 2\nz\n", "\t\tq ; c\n")
    n = 0
    for hname in ("GraphicalHandler", "BareHandler"):
        where = f"reports::{hname}.__call__"
        for text in texts:
            L = len(text)
            pairs = [(p_, q_) for p_ in range(L + 1) for q_ in range(p_, min(L, p_ + 2) + 1)] + [(0, L)]
            for (p_, q_) in pairs:
                for second in (None, (L, L), (0, 0)):
                    if second is not None and (p_ + q_) % 3:
                        continue          # two-span reports on a third of the positions
                    def thunk(text=text, p_=p_, q_=q_, second=second):
                        C = I.module_get("context", "Context")

                        def at(pos):
                            c = I.instantiate(C, ["a.mac", text], {})
                            c.fields["pos"] = pos
                            return c
                        spans = [(at(p_), at(q_), "message\nsecond line")]
                        if second is not None:
                            spans.append((at(second[0]), at(second[1]), "note"))
                        h = I.instantiate(I.module_get("reports", hname), [], {})
                        I.call_method(h, "__call__", [I.module_get("reports", "error"), "some-id"] + spans)
                        return len([e for e in I.effects if e[0] == "print"])
                    try:
                        ps = I.explore(thunk)
                    except Unsupported as ex:
                        raise Unknown(f"{hname} on {text!r}: {ex}") from None
                    n += 1
                    if len(ps) != 1 or ps[0].kind != "return" or not ps[0].value:
                        ck.instance(("render", hname, text, p_, q_), {"handler": hname, "file": text, "span": [p_, q_], "second span": second}, fn=where)
                        what = f"raises {ps[0].value.name} {getattr(ps[0].value, 'args', '')}" if ps and ps[0].kind == "raise" else f"prints nothing / forks ({ps})"
                        ck.violation(where, f"{hname}: a report with a span at character offsets {p_}..{q_}" + (f" and a second one at {second[0]}..{second[1]}" if second else "") + f" of the file {text!r} {what}: "
                                            "the run dies with an internal error instead of printing the diagnostic", construct=f"{hname} cannot render a span")
                        break
                else:
                    continue
                break
            else:
                continue
            break
    ck.instance("render-valuations", {"handler x file x span position(s)": n}, fn="reports::GraphicalHandler.__call__")
    if n < 300 and not ck.current.findings:
        ck.unknown(f"only {n} renderings were executed")


def run(ck):
    ck.run_rule("C07.R9b", "both report handlers render every span position of small files without raising", 1, rule_R9b)
    ck.run_rule("C07.R1", "error latch: error/critical set the flag, critical aborts, warning does neither", 3, rule_R1)
    from ..rules import deliver
    ck.run_rule("R.deliver", "an emitted error reaches the handler at once and latches, also inside speculative evaluation", 6, deliver.rule_deliver)
    from . import c18 as _c18
    ck.run_rule("G5.bal", "scope objects (try mode, cycle detection, report scopes) restore their state on every exit: a try mode left open turns a later real error into a failure without any diagnostic", 18, _c18.rule_balance)
    ck.run_rule("C07.R2", "conversion at scope exit over the complete valuation; latch writer/reader agreement", 16, rule_R2)
    ck.run_rule("C07.R3", "who may write files, and when", 3, rule_R3)
    ck.run_rule("C07.R4", "every failure handler of main_cli ends in a failing exit", 6, rule_R4)
    ck.run_rule("C07.R5", "FilterHandler drops warnings only, by the -W control and the default class", 15, rule_R5)
    ck.run_rule("C07.R6", "-W and --report-format flow only into the handler object", 5, rule_R6)
    ck.run_rule("C07.R8", "diagnostics and the image never share a stream", 10, rule_R8)
    ck.run_rule("C07.R9", "graphical renderer: the context window contains every reported line", 1, rule_R9)
    ck.run_rule("C02.R7w", "errors in unused definitions are diagnosed inside the report scope (closing evaluation of every symbol)", 1, c02.rule_closing_wait)
    ck.run_rule("C02.R2", "every statement's chunk joins the image, so deferred output directives (make_*) are evaluated and a successful run writes its outputs", 5, c02.rule_R2)
    from ..rules import climodel
    ck.run_rule("CLI", "main_cli over all output configurations: fails iff an error was reported, nothing written on failure, report options do not interfere", 500, climodel.rule_cli, ("exit", "noninterference"))
