"""C19 - the listing agrees with the image."""
import ast

from ..engine import sym
from ..engine.interp import Rec, ClassVal, PyFn, Raised
from ..engine.loader import Unknown, norm_text, walk_local
from ..rules import guards
from ..rules.world import eager_interp, emit_report_summary, Shapes
from . import c11
from . import c02

EXPLANATION = (
    "generate_listing is abstractly executed on a symbol table that realises every order relation the statement mentions "
    "(two files; equal values with different names; values out of source order; a local label, which must not be listed; "
    "a value needing more than 6 octal digits): the text must be, per file, the file name, then one line per ordinary "
    "symbol 'OOOOOO name' sorted by (value, name). The reader's key grammar ('.internal<n>.' + name) is the writer's "
    "(C11.R1k prefixes). P8: oct(v)[2:] is sign-safe only for v >= 0. emit_files returns the FIRST emitted file as the "
    "anchor of the listing name; main_cli derives '<first output without its .<format> suffix>.lst', '-.lst' -> "
    "'listing.lst'. compile_and_link_files waits every symbol, so listed values are final.")
ASSUMPTIONS = ["agreement of label addresses with the image is C02's size invariant", "the sample table stands for all tables (sorting and formatting are uniform in the entries)"]
TRUSTED = ["sa.engine.interp", "python ast"]
LEVEL_TEXT = "Formatting/sorting/grouping code is executed abstractly on a table covering the order types; path rules are idioms of main_cli."
LEVEL_NOTE = "bounded abstract execution for the listing text (one table covering all order relations), syntactic idioms for the path rules"
TECHNIQUE = "abstract interpretation of generate_listing/emit_files on an order-complete table + sign-domain rule for oct()[2:] + idiom recognition of the .lst path derivation"


def rule_listing(ck):
    repo = ck.repo
    I = eager_interp(repo)
    I.summaries = {"reports::emit_report": emit_report_summary}       # the real wait(): symbol values are deferred objects, evaluated by then
    table = [
        (".internal1.zeta", 0o1000), (".internal1.alpha", 0o1010), (".internal1.beta", 0o1000), (".internal2.gamma", 5), (".internal1.Big", 0o1234567),
        (".local3.1", 0o1004), (".internal2.delta", 0o177777), (".internal1.a.b", 0o1004), (".internal2.Huge", 0o1000000), (".internal2.mid", 0o200000),
    ]

    def thunk():
        comp = I.instantiate(I.module_get("compiler", "Compiler"), [], {})
        syms = comp.fields["symbols"]
        for i, (k, v) in enumerate(table):
            if i % 2 == 0:
                # label addresses and constants are stored as deferred values (promise / thunk), settled by the closing wait
                if i % 4 == 0:
                    pr = I.instantiate(I.module_get("deferred", "Promise"), [I.builtin_types["int"], k], {})
                    I.call_method(pr, "settle", [v])
                else:
                    pr = I.instantiate(I.module_get("deferred", "Deferred"), [I.builtin_types["int"], PyFn(lambda I_, a_, k_, v=v: v, "value")], {})
                v = pr
            I.call_method(syms, "__setitem__", [k, (sym.var("tok", "obj"), v)])
        comp.fields["internal_prefix_to_state"] = {1: {"filename": "/src/a.mac"}, 2: {"filename": "/src/b.mac"}}
        return I.call_method(comp, "generate_listing", [])
    ps = I.explore(thunk)
    where = "compiler::Compiler.generate_listing"
    if len(ps) != 1 or ps[0].kind != "return" or not isinstance(ps[0].value, str):
        ck.violation(where, f"generate_listing on a two-file table does not return text: {ps}", construct="listing result")
        return
    got = ps[0].value
    files = {"/src/a.mac": [], "/src/b.mac": []}
    for k, v in table:
        if k.startswith(".internal"):
            n, _, name = k[len(".internal"):].partition(".")
            files["/src/a.mac" if n == "1" else "/src/b.mac"].append((v, name))
    want = ""
    for fname, items in files.items():
        want += fname + "\n"
        for v, name in sorted(items):
            want += format(v, "o").rjust(6, "0") + " " + name + "\n"
        want += "\n"
    ck.instance("listing-text", {"listing": got}, fn=where)
    for line in want.splitlines():
        ck.instance(("line", line), None, fn=where)
    if got != want:
        gl, wl = got.splitlines(), want.splitlines()
        diff = next(((i, g, w) for i, (g, w) in enumerate(zip(gl + [None] * len(wl), wl + [None] * len(gl))) if g != w), None)
        ck.violation(where, f"the listing differs from 'file name, then OOOOOO name sorted by value then name, one line per ordinary symbol': first difference at line {diff[0] + 1}: got {diff[1]!r}, expected {diff[2]!r}",
                     construct="listing text", expected=want, found=got)
    # (that every symbol is evaluated before the listing is made is decided by C02.R7w, by execution)


def rule_P8(ck):
    """oct/hex/bin(x)[2:] is only right for x >= 0"""
    repo = ck.repo
    n = 0
    for q, fn in repo.all_functions():
        if q.split("::")[0] in ("devices", "_cli"):
            continue
        for node in walk_local(fn):
            if isinstance(node, ast.Subscript) and isinstance(node.value, ast.Call) and isinstance(node.value.func, ast.Name) and node.value.func.id in ("oct", "hex", "bin") \
                    and isinstance(node.slice, ast.Slice) and node.slice.lower is not None and norm_text(node.slice.lower) == "2":
                arg = node.value.args[0]
                n += 1
                nonneg = isinstance(arg, ast.Call) and isinstance(arg.func, ast.Name) and arg.func.id in ("int", "len", "ord", "abs") and (arg.func.id != "int" or len(arg.args) == 2 and norm_text(arg.args[0]) in ("char", "c", "digit"))
                ck.instance(("strip-prefix", q, norm_text(node)), {"site": q, "expression": norm_text(node), "operand provably non-negative": nonneg}, fn=q)
                if not nonneg:
                    # a dominating sign test discharges it
                    from ..engine import flow
                    a = norm_text(arg)

                    def tf(t, a=a):
                        txt = norm_text(t)
                        if txt in (f"{a} >= 0", f"0 <= {a}"):
                            return {"nonneg"}, set()
                        if txt in (f"{a} < 0", f"0 > {a}"):
                            return set(), {"nonneg"}
                        return set(), set()
                    facts = flow.facts_before(fn, node, lambda x: set(), None, tf)
                    if facts is not None and "nonneg" in facts:
                        continue
                    ck.violation(node, f"{norm_text(node)}: stripping the two-character prefix is only right for non-negative values; for a negative value '-0o5'[2:] is 'o5' and the line reads '0000o5' "
                                       "(a symbol such as 'neg = -5' is listed with a garbled value)", construct=f"{node.value.func.id}(x)[2:] with x of unknown sign")
    if n < 1:
        ck.unknown(f"no 'oct/hex/bin(x)[2:]' site found (the listing's octal formatting was one)")


def rule_paths(ck):
    repo = ck.repo
    # emit_files returns the first emitted file
    I = eager_interp(repo)
    I.summaries = {"reports::emit_report": emit_report_summary, "devices::open_device": lambda I_, fn, a, k: sym.var("file", "obj")}

    def thunk():
        comp = I.instantiate(I.module_get("compiler", "Compiler"), [], {})
        comp.fields["emitted_files"] = [(sym.var("s1", "obj"), sym.var("e1", "obj"), "raw", "first.out"), (sym.var("s2", "obj"), sym.var("e2", "obj"), "bin", "second.bin")]
        return I.call_method(comp, "emit_files", [sym.var("base", "int"), sym.var("code", "bytes")])
    ps = I.explore(thunk)
    where = "compiler::Compiler.emit_files"
    ck.instance("emit-anchor", {"emit_files with two outputs returns": repr(ps[0].value)}, fn=where)
    if len(ps) != 1 or ps[0].kind != "return" or ps[0].value != (True, {"format": "raw", "path": "first.out"}):
        ck.violation(where, f"emit_files returns {ps[0].value!r}; the listing is named after the FIRST output file, so it must return (True, {{'format': 'raw', 'path': 'first.out'}})", construct="emit_files anchor",
                     expected="(True, first emitted file)", found=repr(ps[0].value))

    def thunk0():
        comp = I.instantiate(I.module_get("compiler", "Compiler"), [], {})
        return I.call_method(comp, "emit_files", [0, b""])
    ps = I.explore(thunk0)
    ck.instance("emit-none", None, fn=where)
    if ps[0].value != (False, None):
        ck.violation(where, f"emit_files without output directives returns {ps[0].value!r}", construct="emit_files none")


def run(ck):
    ck.run_rule("C19.text", "listing text: grouping, one line per ordinary symbol, sort key, octal format", 8, rule_listing)
    ck.run_rule("P8", "oct(v)[2:] is sign-safe", 1, rule_P8)
    ck.run_rule("C19.path", "emit_files hands the FIRST output to the CLI as the anchor of the listing name", 2, rule_paths)
    ck.run_rule("C11.R1k", "reader/writer agreement on the '.internal<n>.' key grammar", 3, c11.rule_R1k)
    from . import c03 as _c03
    ck.run_rule("C03.R7", "listed values of constants defined through forward references: the polynomial arithmetic behind them", 18, _c03.rule_R7)
    ck.run_rule("C03.R8", "listed values of constants that use a name another file exports and this file defines further down: the own definition wins", 1, _c03.rule_R8)
    ck.run_rule("C02.R7w", "listed values are final: every symbol is evaluated before the listing", 1, c02.rule_closing_wait)
    ck.run_rule("C02.R1", "announced size == produced length: a listed label address is where the next byte lies", 40, c02.rule_R1)
    ck.run_rule("C02.R7", "labels of the second, third ... linked file: each file starts at base + lengths of ALL files before it", 3, c02.rule_R7)
    from ..rules import climodel
    ck.run_rule("CLI", "main_cli over all output configurations: the listing beside the first output, named after it", 500, climodel.rule_cli, ("writes",))
