"""C15 - RADIX-50 packing: alphabet, weights, padding, bounds, case folding."""
import ast
import pathlib
import re

from ..engine import sym
from ..engine.interp import Rec, PyFn, Unsupported
from ..engine.loader import Unknown, norm_text, walk_local
from ..engine.sym import is_sym
from ..rules import guards
from ..rules.world import eager_interp, Shapes, STATE, metacommand_fn

REF = pathlib.Path(__file__).resolve().parent.parent.parent / "ref"
EXPLANATION = (
    "TABLE is folded and compared with the DEC alphabet of ref/radix50.txt. pack_to_int and the .rad50 directive are "
    "abstractly interpreted on strings of *symbolic characters* (lengths 0..7 cover every padding class and group "
    "boundary): the result must be the normal form 1600*e(c1)+40*e(c2)+e(c3) per group, packed '<H', pads = code 0, with "
    "e(c) = TABLE.index(upper(c)). The <n> form is decided by predicate abstraction on n (accept exactly 0..39). For ^R the "
    "regex alphabet is folded from the parser module and compared with TABLE; truncation to 3, the error report and "
    "upper-casing are recognised on the def-use chain of pack_to_int's argument.")
ASSUMPTIONS = ["string length handling is uniform beyond 7 characters (loop body is length independent)"]
TRUSTED = ["ref/radix50.txt", "python ast", "re._parser", "sa.engine.interp"]
LEVEL_TEXT = "Normal-form equality of the packing arithmetic for symbolic characters (all 64000 triples at once), exhaustive alphabet comparison, complete interval decision for <n>."
LEVEL_NOTE = "trusted: DEC RADIX-50 alphabet in ref/; strings longer than 7 characters assumed to behave like shorter ones (same loop body)"
TECHNIQUE = "closed-term folding + algebraic normal forms over symbolic characters + predicate abstraction of the <n> bound"


def ref_alphabet():
    for line in (REF / "radix50.txt").read_text().splitlines():
        if line.startswith("alphabet"):
            return line.split('"')[1]
    raise Unknown("ref/radix50.txt has no alphabet line")


def rule_table(ck):
    I = eager_interp(ck.repo)
    T = I.explore(lambda: I.module_get("radix50", "TABLE"))[0].value
    alpha = ref_alphabet()
    ck.table = T
    for i, ch in enumerate(alpha):
        ck.instance(("alphabet", i), {"code": i, "char": ch} if i in (0, 1, 27, 29, 39) else None, fn="radix50::<module>")
    if T != alpha:
        ck.violation("radix50::<module>", "RADIX-50 alphabet differs from the DEC standard", construct="TABLE", expected=alpha, found=T)
    # encode_char(c) = TABLE.index(c)
    C = sym.var("c", "str")
    p = I.explore(lambda: I.call(I.module_get("radix50", "encode_char"), [C], {}))
    ck.instance("encode_char", {"encode_char(c)": repr(p[0].value)}, fn="radix50::encode_char")
    if len(p) != 1 or p[0].value != sym.op("index", T, C):
        ck.violation("radix50::encode_char", f"encode_char(c) is {p[0].value!r}, expected TABLE.index(c)", construct="encode_char body")


def rule_pack(ck):
    I = eager_interp(ck.repo, extra={"radix50::encode_char": lambda I_, fn, a, k: sym.op("e", a[0])})
    where = "radix50::pack_to_int"
    for s in ("", "P", "PQ", "PQR"):
        p = I.explore(lambda: I.call(I.module_get("radix50", "pack_to_int"), [s], {}))
        padded = s.ljust(3, " ")
        exp = sym.add(sym.add(sym.mul(sym.op("e", padded[0]), 1600), sym.mul(sym.op("e", padded[1]), 40)), sym.op("e", padded[2]))
        ck.instance(("pack", len(s)), {"chars": len(s), "value": repr(p[0].value)}, fn=where)
        if len(p) != 1 or p[0].kind != "return" or p[0].value != exp:
            ck.violation(where, f"pack_to_int of {len(s)} generic characters is {p[0].value!r}, expected (c1*40+c2)*40+c3 with space padding: {exp!r}",
                         construct="pack_to_int weights", expected=repr(exp), found=repr(p[0].value))


def rule_rad50(ck):
    repo = ck.repo
    T = getattr(ck, "table", None) or ref_alphabet()
    where = "metacommands::rad50"
    for n in range(0, 8):
        chars = [sym.var(f"c{i}", "str") for i in range(n)]
        I = eager_interp(repo, extra={"metacommand_impl::get_as_str": lambda I_, fn, a, k: chars})

        def thunk():
            sh = Shapes(I)
            q = I.instantiate(I.module_get("types", "QuotedString"), [None, None, '"', "zzz"], {})
            return I.call(metacommand_fn(I, ".rad50"), [STATE, q], {})
        p = I.explore(thunk)
        codes = [sym.op("index", T, sym.op("upper", c)) for c in chars]
        while len(codes) % 3:
            codes.append(0)
        exp = b""
        for i in range(0, len(codes), 3):
            a, b, c = codes[i:i + 3]
            exp = sym.cat(exp, sym.pack("<H", sym.add(sym.add(sym.mul(a, 1600), sym.mul(b, 40)), c)))
        ck.instance(("rad50", n), {"characters": n, "result": repr(p[0].value)[:200]} if n in (0, 4) else None, fn=where)
        if len(p) != 1 or p[0].kind != "return" or p[0].value != exp:
            ck.violation(where, f".rad50 of {n} generic characters gives {p[0].value!r}, expected {exp!r}", construct=f"rad50 packing", expected=repr(exp), found=repr(p[0].value))
            break
    # operands made of several pieces: /ab/<5>/cd/ is ONE character sequence a b 5 c d, padded once at its end
    for shape in (("q2", "n", "q2"), ("q1", "q1"), ("n", "n", "n", "n"), ("q1", "n"), ("q2", "q2", "q2")):
        I = eager_interp(repo, opaque_get_as_int=False)
        per_chunk = {}

        def gas(I_, fn_, a, k, per_chunk=per_chunk):
            return per_chunk[id(a[3])]
        I.summaries["metacommand_impl::get_as_str"] = gas
        codes = []

        def thunk3(shape=shape, per_chunk=per_chunk, codes=codes):
            del codes[:]
            per_chunk.clear()
            sh = Shapes(I)
            chunks = []
            for j, kind in enumerate(shape):
                if kind == "n":
                    chunks.append(I.instantiate(I.module_get("types", "AngleBracketedChar"), [None, None, sh.number(str(j + 1), j + 1)], {}))
                    codes.append(j + 1)
                else:
                    cs = [sym.var(f"c{j}_{i}", "str") for i in range(int(kind[1]))]
                    q = I.instantiate(I.module_get("types", "QuotedString"), [None, None, '"', "zz"], {})
                    per_chunk[id(q)] = cs
                    chunks.append(q)
                    codes.extend(sym.op("index", T, sym.op("upper", c)) for c in cs)
            sc = I.instantiate(I.module_get("types", "StringConcatenation"), [None, None, chunks], {})
            return I.call(metacommand_fn(I, ".rad50"), [STATE, sc], {})
        p = I.explore(thunk3)
        cd = list(codes)
        while len(cd) % 3:
            cd.append(0)
        exp = b""
        for i in range(0, len(cd), 3):
            a, b, c = cd[i:i + 3]
            exp = sym.cat(exp, sym.pack("<H", sym.add(sym.add(sym.mul(a, 1600), sym.mul(b, 40)), c)))
        ck.instance(("rad50-pieces", shape), {"pieces": list(shape), "result": repr(p[0].value)[:160]}, fn=where)
        if len(p) != 1 or p[0].kind != "return" or p[0].value != exp:
            ck.violation(where, f".rad50 of an operand made of the pieces {list(shape)} (q<k>: quoted string of k characters, n: <number>) gives {p[0].value!r}, expected {exp!r}: the pieces form one "
                                "character sequence, grouped in threes across piece boundaries and padded once at the end", construct="rad50 multi-piece operand", expected=repr(exp), found=repr(p[0].value))
            break
    # the partial operation TABLE.index(...) must be guarded by a reporting ValueError handler
    fn = repo.func(where)
    sites = [c for c in guards.calls_in(fn) if isinstance(c.func, ast.Attribute) and c.func.attr == "index"]
    for c in sites:
        ck.instance(("index-site", norm_text(c)), {"site": norm_text(c)}, fn=where)
        ok, missing = guards.covered(c, ["ValueError"])
        if not ok:
            ck.violation(c, "a character outside the RADIX-50 alphabet is not turned into an error diagnostic", construct=norm_text(c))
    if not sites:
        ck.unknown(".rad50 no longer looks characters up with .index(); the unknown-character path is not recognised")
    # <n> chunk: accept exactly 0..39
    I = eager_interp(repo, opaque_get_as_int=False)
    N = I.add_cellvar("n")

    def thunk2():
        sh = Shapes(I)
        ch = I.instantiate(I.module_get("types", "AngleBracketedChar"), [None, None, sh.xexpr(N, "n")], {})
        return I.call(metacommand_fn(I, ".rad50"), [STATE, ch], {})
    for p in I.explore(thunk2):
        cell = p.cells[N]
        ck.instance(("rad50-n", repr(cell)), {"<n> cell": repr(cell), "errors": [e[2] for e in p.reported()], "result": repr(p.value)}, fn=where)
        inside = cell.lo is not None and cell.hi is not None and 0 <= cell.lo and cell.hi <= 39
        outside = (cell.hi is not None and cell.hi < 0) or (cell.lo is not None and cell.lo > 39)
        if not inside and not outside:
            ck.violation(where, f"<n> bound: cell {cell} straddles the legal range 0..39", construct="rad50 <n> bound", expected="0..39", found=repr(cell))
        elif inside:
            if p.reported() or p.kind != "return" or p.value != sym.pack("<H", sym.mul(N, 1600)):
                ck.violation(where, f"<n> with n in {cell}: expected the word n*1600 without error, got {p.value!r} errors={[e[2] for e in p.reported()]}", construct="rad50 <n> value")
        elif not p.reported():
            ck.violation(where, f"<n> with n in {cell} (outside 0..39) is accepted silently", construct="rad50 <n> bound", expected="error", found="accepted")


def rule_literal(ck):
    repo = ck.repo
    T = getattr(ck, "table", None) or ref_alphabet()
    I = eager_interp(repo)
    where = "parser::radix50_literal"
    p = I.explore(lambda: I.module_get("parser", "radix50_chars"))
    rec = p[0].value
    if not isinstance(rec, Rec) or "fn" not in rec.fields:
        raise Unknown("parser.radix50_chars is not a Parser object")
    from ..rules.world import closure_pattern
    rx = closure_pattern(rec)
    if not isinstance(rx, re.Pattern):
        raise Unknown("radix50_chars does not close over a compiled regex")
    import re._parser as rp
    parsed = rp.parse(rx.pattern)
    ck.instance("regex", {"pattern": rx.pattern, "ignorecase": bool(rx.flags & re.I)}, fn="parser::<module>")
    ok = len(parsed) == 1 and str(parsed[0][0]) == "MAX_REPEAT" and parsed[0][1][0] == 1
    chars = set()
    if ok:
        inner = parsed[0][1][2]
        ok = len(inner) == 1 and str(inner[0][0]) == "IN"
        if ok:
            for kind, val in inner[0][1]:
                if str(kind) == "LITERAL":
                    chars.add(chr(val))
                elif str(kind) == "RANGE":
                    chars.update(chr(c) for c in range(val[0], val[1] + 1))
                else:
                    ok = False
    if not ok:
        raise Unknown(f"regex {rx.pattern!r} is not a simple one-or-more character class")
    if chars != set(T) - {" "}:
        ck.violation("parser::<module>", "characters accepted after ^R differ from the RADIX-50 alphabet", construct="radix50_chars", expected="".join(sorted(set(T) - {' '})), found="".join(sorted(chars)))
    if not rx.flags & re.I:
        ck.violation("parser::<module>", "^R characters are matched case-sensitively", construct="radix50_chars flags")
    # def-use chain of pack_to_int's argument
    fn = repo.func(where)
    call = [c for c in guards.calls_in(fn) if isinstance(c.func, ast.Attribute) and c.func.attr == "pack_to_int" or isinstance(c.func, ast.Name) and c.func.id == "pack_to_int"]
    if len(call) != 1 or not call[0].args or not isinstance(call[0].args[0], ast.Name):
        raise Unknown("radix50_literal does not call pack_to_int(<name>) exactly once")
    var = call[0].args[0].id
    cut = upper = False
    for s in fn.body:
        if s.lineno > call[0].lineno:
            break
        if isinstance(s, ast.If):
            t = s.test
            # len(var) > 3
            if isinstance(t, ast.Compare) and len(t.ops) == 1 and isinstance(t.left, ast.Call) and norm_text(t.left) == f"len({var})":
                thr = t.comparators[0]
                limit = None
                if isinstance(thr, ast.Constant):
                    limit = thr.value + (0 if isinstance(t.ops[0], ast.Gt) else -1 if isinstance(t.ops[0], ast.GtE) else None)
                slices = [a for a in ast.walk(s) if isinstance(a, ast.Assign) and norm_text(a.targets[0]) == var and isinstance(a.value, ast.Subscript)
                          and isinstance(a.value.slice, ast.Slice) and a.value.slice.lower is None and isinstance(a.value.slice.upper, ast.Constant)]
                if limit == 3 and slices and slices[0].value.slice.upper.value == 3 and guards.body_reports(s.body):
                    cut = True
        if isinstance(s, ast.Assign) and norm_text(s.targets[0]) == var and norm_text(s.value) == f"{var}.upper()":
            upper = True
    ck.instance("truncate", {"cut to 3 with error": cut}, fn=where)
    ck.instance("upper", {"upper-cased": upper}, fn=where)
    if not cut:
        ck.violation(where, "a ^R literal longer than 3 characters is not reported and cut to 3 before packing", construct="^R length guard")
    if not upper:
        ck.violation(where, "a ^R literal is not upper-cased before packing", construct="^R case folding")


def run(ck):
    ck.run_rule("C15.table", "alphabet == DEC RADIX-50; encode_char indexes it", 41, rule_table)
    from ..rules import escape as _esc
    ck.run_rule("G16", "'<n>' codes and strings that depend on later definitions are evaluated when known: no blanket handler swallows 'not yet'", 8, _esc.rule_G16)
    ck.run_rule("C15.pack", "pack_to_int = 1600*c1 + 40*c2 + c3 with space padding", 4, rule_pack)
    ck.run_rule("C15.rad50", ".rad50: weights, grouping, padding, case, unknown characters, <n> bound", 12, rule_rad50)
    from ..rules import route
    ck.run_rule("DIR.route", "'.rad50' as a statement (raw operand: pieces reach the handler unevaluated)", 2, route.rule_route, ("rad50",))
    ck.run_rule("C15.lit", "^R literal: alphabet regex, case, length guard", 3, rule_literal)
