"""C04 - branches and PC-relative operands hit their target or are rejected."""
from ..engine import sym
from ..engine.interp import Rec, Bound, PyFn
from ..engine.loader import Unknown
from ..engine.sym import is_sym
from ..rules.world import STATE, DOT, REL, Shapes, eager_interp
from . import c01
from . import c03
from ..rules import escape

EXPLANATION = (
    "R1: Instruction.compile_insn is abstractly executed for every folded table row; the rel_address handed to operand j "
    "must be the normal form '.'+2+len(extension words of operands before j). R2: the relative and relative-deferred "
    "arms of the addressing-mode decision list must produce ((X - rel_address - 2) mod 2^16) packed '<H' (decided on the "
    "canonical shapes, operand value symbolic). R3: OffsetOperandStub.encode is decided by predicate abstraction on the "
    "byte distance o = target - rel_address for every (width, signedness) instance of the folded table: the accept set "
    "must be exactly {even, -256..254} (branches) / {even, -126..0} (SOB), every other cell must reach an error "
    "diagnostic, and the field value on the accept set must equal o/2 (resp. -o/2) - decided by complete valuation of "
    "the finite accept set. R4: a bare number that is a valid local-label spelling is resolved as a label.")
ASSUMPTIONS = ["effective address on a CPU for operands that went through hoisting is not decided"]
TRUSTED = ["PDP-11 branch/SOB displacement definition", "sa.engine.interp"]
LEVEL_TEXT = "Complete for every integer distance (cells partition Z) and every table row; necessary conditions, not the run-time symbol graph."
LEVEL_NOTE = "trusted: abstract interpreter and cell refinement; assumed: operand shapes as delivered by the parser"
TECHNIQUE = "predicate abstraction (interval x parity cells) of the displacement guards + normal forms of rel_address and PC-relative words"


def rule_R1(ck):
    table = c01.fold_table(ck.repo)
    where = "insns::Instruction.compile_insn"
    for name, (pat, stubs, _) in sorted(table.items()):
        if not stubs:
            continue
        paths, rels = c01.run_compile_insn(ck.repo, name)
        if len(paths) != 1:
            raise Unknown(f"compile_insn of {name} forks")
        prev = b""
        for j, rel, dot in sorted(rels, key=lambda r: r[0]):
            exp = sym.add(sym.add(DOT, 2), sym.length(prev))
            ck.instance(("rel", name, j), {"mnemonic": name, "operand": j, "rel_address": repr(rel)} if name in ("mov", "sob", "br") else None, fn=where)
            if rel != exp:
                ck.violation(where, f"'{name}' operand {j}: rel_address is {rel!r}, the word being encoded lies at {exp!r}",
                             construct="rel_address", expected=repr(exp), found=repr(rel))
            if dot != DOT:
                ck.violation(where, f"'{name}' operand {j}: emit_address changed to {dot!r} for the operand", construct="emit_address for operand")
            prev = sym.cat(prev, sym.var(f"E{j}", "bytes"))
        if len(rels) != len(stubs):
            ck.violation(where, f"'{name}': {len(rels)} operand encodings for {len(stubs)} operands", construct="operand zip")


def rule_R2(ck):
    """relative / relative deferred arms (shared with C01.T2, restricted to the PC-relative shapes)"""
    repo = ck.repo
    XV = sym.var("X", "int")
    exp_ext = sym.op("sized", 2, sym.pack("<H", sym.mod(sym.sub(sym.sub(XV, REL), 2), 65536)))
    for stubcls in ("RegisterModeOperandStub", "FP11RMOperandStub"):
        for shape, mode in (("X", 0o67), ("@X", 0o77)):
            I = eager_interp(repo)

            def thunk():
                sh = Shapes(I)
                X = sh.xexpr(XV, "X")
                operand = c01.build_shape(sh, shape, None, X)
                stub = I.instantiate(I.module_get("insns", stubcls), ["d", [5, 4, 3, 2, 1, 0]], {})
                return I.call_method(stub, "encode", [operand, STATE])
            paths = I.explore(thunk)
            where = "insns::RegisterModeOperandStub.encode"
            ck.instance((stubcls, shape), {"stub": stubcls, "shape": shape, "result": repr(paths[0].value)}, fn=where)
            if len(paths) != 1 or paths[0].kind != "return":
                ck.violation(where, f"shape {shape}: no single encoding: {paths}", construct=f"relative {shape}")
                continue
            m, ext = paths[0].value
            if m != mode:
                ck.violation(where, f"shape {shape} gets mode {m!r}, expected {mode:o} (PC-relative)", construct=f"relative {shape} mode", expected=oct(mode), found=repr(m))
            if ext != exp_ext:
                ck.violation(where, f"shape {shape}: displacement word is {ext!r}; a PDP-11 adds it to the address after that word, so it must be {exp_ext!r}",
                             construct=f"relative {shape} word", expected=repr(exp_ext), found=repr(ext))


def offset_instances(table):
    inst = {}
    for name, (pat, stubs, _) in table.items():
        for cls, ch, idx, unsigned in stubs:
            if cls == "OffsetOperandStub":
                inst.setdefault((len(idx), bool(unsigned)), []).append(name)
    return inst


def rule_R3(ck):
    repo = ck.repo
    table = c01.fold_table(repo)
    inst = offset_instances(table)
    where = "insns::OffsetOperandStub.encode"
    if not inst:
        raise Unknown("no offset operands in the folded table")
    for (width, unsigned), users in sorted(inst.items()):
        if unsigned:
            lo, hi = -(2 ** (width + 1) - 2), 0
        else:
            lo, hi = -(2 ** width), 2 ** width - 2
        captured = []

        def resolve(I_, fn, args, kw):
            captured.append(args[0])
            return sym.add(REL, O)
        I = eager_interp(repo, extra={"types::Symbol.resolve": resolve,
                                     "types::Symbol.locate_definition": lambda I_, fn, a, k: sym.var("definition", "any")})
        O = I.add_cellvar("o")

        def thunk():
            sh = Shapes(I)
            st = I.instantiate(I.module_get("insns", "OffsetOperandStub"), ["o", list(range(width - 1, -1, -1)), unsigned], {})
            return I.call_method(st, "encode", [sh.symbol("target"), STATE])
        paths = I.explore(thunk)
        for p in paths:
            cell = p.cells[O]
            errs = [e[2] for e in p.reported()]
            ck.instance((width, unsigned, repr(cell)), {"field": f"{width} bits {'unsigned' if unsigned else 'signed'}", "distance cell": repr(cell), "errors": errs,
                                                        "value": repr(p.value[0]) if p.kind == "return" else repr(p.value), "users": sorted(users)[:3]}, fn=where)
            if p.kind != "return":
                ck.violation(where, f"{width}-bit displacement: distance {cell} raises {p.value!r}", construct=f"offset {width} {unsigned} raise")
                continue
            val, ext = p.value
            if ext != b"":
                ck.violation(where, "a branch displacement must not add operand words", construct="offset extension")
            if sym.contains(val, REL) or any(sym.contains(k, REL) for k, _ in p.decisions if is_sym(k)):
                ck.violation(where, "the displacement is not a function of (target - rel_address) alone", construct="offset difference form")
                continue
            inside = cell.lo is not None and cell.hi is not None and cell.lo >= lo and cell.hi <= hi
            outside = (cell.hi is not None and cell.hi < lo) or (cell.lo is not None and cell.lo > hi)
            if not inside and not outside:
                ck.violation(where, f"{width}-bit {'backward' if unsigned else 'signed'} displacement: a guard boundary lies inside {cell}; the reach is {lo}..{hi} bytes",
                             construct=f"offset {width} {unsigned} bounds", expected=f"{lo}..{hi}", found=repr(cell))
                continue
            legal = inside and cell.par == 0
            if inside and cell.par is None:
                ck.violation(where, f"distances {cell} are not separated by parity: an odd distance cannot be encoded", construct=f"offset {width} {unsigned} parity")
                continue
            if legal:
                if errs:
                    ck.violation(where, f"reachable even distances {cell} are rejected ({errs[0]})", construct=f"offset {width} {unsigned} bounds", expected=f"{lo}..{hi} accepted", found=f"{cell} rejected")
                    continue
                # complete valuation of the finite accept cell
                for o in cell.members():
                    got = sym.subst(val, {O: o})
                    want = (-o // 2) if unsigned else (o // 2)
                    if is_sym(got) or got != want:
                        ck.violation(where, f"distance {o}: field value {got!r}, expected {want}", construct=f"offset {width} {unsigned} value", expected=want, found=repr(got))
                        break
                    if not (-(2 ** (width - 1)) <= want < 2 ** (width - 1) if not unsigned else 0 <= want < 2 ** width):
                        ck.violation(where, f"distance {o}: field value {want} does not fit {width} bits", construct=f"offset {width} {unsigned} width")
                        break
            else:
                if not errs:
                    ck.violation(where, f"{'odd' if cell.par == 1 and inside else 'out-of-reach'} distances {cell} are accepted silently (the displacement would wrap or truncate)",
                                 construct=f"offset {width} {unsigned} {'parity' if cell.par == 1 and inside else 'bounds'}", expected="error", found="accepted")
                elif val is None or not (isinstance(val, int) or (is_sym(val) and sym.kind(val) in ("int", "bool", "any"))):
                    ck.violation(where, f"distances {cell} are refused ({errs[0]}), but the field then has the value {val!r}: the opcode is still put together (further diagnostics in the same run) "
                                        "and dies on a value that is not a number", construct=f"offset {width} {unsigned} value after the error")
        if not any(True for _ in paths):
            raise Unknown("no paths")


def rule_R4(ck):
    repo = ck.repo
    where = "insns::OffsetOperandStub.encode"
    captured = []

    def resolve(I_, fn, args, kw):
        captured.append(args[0])
        return REL
    I = eager_interp(repo, extra={"types::Symbol.resolve": resolve})

    def thunk():
        del captured[:]
        sh = Shapes(I)
        st = I.instantiate(I.module_get("insns", "OffsetOperandStub"), ["o", list(range(7, -1, -1)), False], {})
        return I.call_method(st, "encode", [sh.number("10", 8, True), STATE])
    paths = I.explore(thunk)
    ck.instance("bare-number", {"operand": "Number('10', valid label)", "resolved through": [repr(c) for c in captured][:1]}, fn=where)
    ok = len(paths) == 1 and paths[0].kind == "return" and captured and isinstance(captured[0], Rec) \
        and captured[0].fields.get("name") == "10" and captured[0].fields.get("is_necessarily_label") is True
    if not ok:
        ck.violation(where, "a bare numeric branch operand that spells a local label is not resolved as that label", construct="numeric operand as label")
    # compound operands: only the FIRST leaf may turn into a label, and only if no symbol or '.' stands before it.
    #   lab + 2  ->  the 2 stays the number 2;   . + 4 -> 4 stays;   1 + 2 -> label '1' plus the number 2;   2 + lab -> label '2' + lab
    def run_case(build):
        def res(I_, fn, args, kw):
            tok = args[0]
            return sym.var("sym:" + str(tok.fields.get("name")) + (":label" if tok.fields.get("is_necessarily_label") else ""), "int")
        I2 = eager_interp(repo, extra={"types::Symbol.resolve": res})

        def th():
            sh = Shapes(I2)
            st = I2.instantiate(I2.module_get("insns", "OffsetOperandStub"), ["o", list(range(7, -1, -1)), False], {})
            op = build(sh)
            op.fields["text"] = PyFn(lambda I_, a, k: "x+y", "text")
            st_ = {"insn": sh.mk(I2.module_get("types", "Instruction"), None, None, sh.symbol("br"), []), "emit_address": DOT, "rel_address": REL}
            I2.call_method(st, "encode", [op, st_])
            return I2.call_method(op, "resolve", [st_])
        ps = I2.explore(th)
        vals = {repr(p_.value) for p_ in ps if p_.kind == "return"}
        # the branch-range checks fork on the (symbolic) offset; the operand's value must be the same on every path
        return ps[0].value if ps and len(vals) == 1 and all(p_.kind == "return" for p_ in ps) else ps
    LAB, ONE, TWO, DOTV = sym.var("sym:lab", "int"), sym.var("sym:1:label", "int"), sym.var("sym:2:label", "int"), DOT
    ip = lambda sh: sh.mk(eager_interp(repo).module_get("types", "InstructionPointer"), None, None)
    for text, build, want in (
            ("lab + 2", lambda sh: sh.bin("add", sh.symbol("lab"), sh.number("2", 2, True)), sym.add(LAB, 2)),
            (". + 4", lambda sh: sh.bin("add", sh.mk(sh.types("InstructionPointer"), None, None), sh.number("4", 4, True)), sym.add(DOTV, 4)),
            ("1 + 2", lambda sh: sh.bin("add", sh.number("1", 1, True), sh.number("2", 2, True)), sym.add(ONE, 2)),
            ("2 + lab", lambda sh: sh.bin("add", sh.number("2", 2, True), sh.symbol("lab")), sym.add(TWO, LAB)),
            ("lab - 2 + 4", lambda sh: sh.bin("add", sh.bin("sub", sh.symbol("lab"), sh.number("2", 2, True)), sh.number("4", 4, True)), sym.add(LAB, 2))):
        got = run_case(build)
        ck.instance(("compound-operand", text), {"operand": text, "value after label fix-up": repr(got)}, fn=where)
        if got != want:
            ck.violation(where, f"the branch operand '{text}' is evaluated as {got!r}, expected {want!r}: in a compound operand only a leading bare number is a local label; "
                                "numbers after a symbol or '.' are numbers", construct=f"label fix-up in '{text}'", expected=repr(want), found=repr(got))


def run(ck):
    ck.run_rule("C04.R1", "rel_address = '.' + 2 + bytes of preceding operand words (all rows)", 150, rule_R1)
    ck.run_rule("C04.R2", "relative / relative-deferred displacement words", 4, rule_R2)
    ck.run_rule("C04.R3", "branch/SOB displacement: accept set, parity, field value (cells over all integers)", 8, rule_R3)
    ck.run_rule("C04.R4", "bare numeric operands are local labels; compound operands: only a leading number", 6, rule_R4)
    from . import c17 as _c17
    ck.run_rule("C17.span", "tokens span their own text and Token.text() returns it (the branch encoder looks for '(' and ':' in the operand as written)", 150, _c17.rule_spans)
    ck.run_rule("C03.R8", "a branch target that another file exports and this file defines further down is this file's own label (the export is not accepted before the own definitions are known)", 1, c03.rule_R8)
    ck.run_rule("G11.res", "branch offsets and immediates that depend on later labels are forced with wait() before their bits are placed in the opcode word", 2, escape.rule_G11_results)
    ck.run_rule("C03.R7", "address arithmetic behind PC-relative targets (LinearPolynomial algebra)", 18, c03.rule_R7)
    from ..rules import thunks
    ck.run_rule("G1", "operand thunks read their own state: captured by value, never updated in place", 20, thunks.rule_G1)
    from . import c16, c02
    ck.run_rule("C16.R2", "a branch inside a repeated body is assembled at its own copy's address (each copy starts where the previous one ended)", 4, c16.rule_R2)
    ck.run_rule("C02.R2", "the address a statement is given is the number of bytes before it (accumulator pairing)", 5, c02.rule_R2)
