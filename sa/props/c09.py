"""C09 - relocation law: only absolute address words move with the base."""
import ast

from ..engine import sym
from ..engine.loader import Unknown, norm_text, walk_local
from ..engine.sym import is_sym
from ..rules.world import STATE, DOT, REL, Shapes, eager_interp
from . import c01, c02, c03, c04

EXPLANATION = (
    "R1 (G7): every read of the location counter (state['emit_address'] / state['rel_address']) is classified by its "
    "expression context into the roles {PC-relative difference, value of '.', parity/alignment, bookkeeping}; a read in "
    "no known role is UNKNOWN. R2: the PC-relative encoders are differences in which the target has coefficient +1 and "
    "rel_address coefficient -1 (normal forms from the abstract execution of the encoders; branch guards and values "
    "depend on target - rel_address only). R3: the opcode word and every absolute-kind operand word (immediate, absolute, "
    "index) contain neither '.' nor rel_address. R4: the base enters addresses only as the start of the first file with "
    "coefficient 1, and the LinearPolynomial algebra keeps it linear so that it cancels in differences (C03.R7).")
ASSUMPTIONS = ["that a given user expression cancels the base is a run-time fact of that expression"]
TRUSTED = ["sa.engine.interp"]
LEVEL_TEXT = "Roles and coefficients are properties of the code's expressions; they hold for every program and base."
LEVEL_NOTE = "necessary conditions for the relocation law; run-time expressions are covered through the algebra laws only"
TECHNIQUE = "taint-style role classification of location-counter reads + normal forms of the encoders (coefficients of target and rel_address)"


def classify(n):
    """n: Subscript node state['emit_address'|'rel_address'] -> role or None"""
    p = n._parent
    # transparent wrappers
    while isinstance(p, ast.Call) and norm_text(p.func) == "wait" and p.args and p.args[0] is n:
        n, p = p, p._parent
    if isinstance(p, ast.UnaryOp) and isinstance(p.op, ast.USub):
        n, p = p, p._parent
        while isinstance(p, ast.Call) and norm_text(p.func) == "wait":
            n, p = p, p._parent
    if isinstance(p, ast.BinOp) and isinstance(p.op, ast.Mod) and p.left is n:
        return "parity/alignment"
    # rel_address + k  /  rel_address - k (k literal) inside the subtrahend of a difference: target - (rel + 2)
    q, m = p, n
    while isinstance(q, ast.BinOp) and isinstance(q.op, (ast.Add, ast.Sub)) and isinstance(q.right if q.left is m else q.left, ast.Constant):
        m, q = q, q._parent
    if isinstance(q, ast.BinOp) and isinstance(q.op, ast.Sub) and q.right is m and m is not n:
        return "pc-relative difference"
    if isinstance(p, ast.BinOp) and isinstance(p.op, ast.Sub) and p.right is n:
        return "pc-relative difference"
    if isinstance(p, ast.BinOp) and isinstance(p.op, ast.Sub) and p.left is n:
        return None
    if isinstance(p, ast.Return):
        return "value of '.'"
    if isinstance(p, ast.Assign) and len(p.targets) == 1 and isinstance(p.targets[0], ast.Name):
        return "bookkeeping (start address)"
    if isinstance(p, ast.Call) and n in p.args:
        return "bookkeeping (passed on)"
    if isinstance(p, ast.keyword) and p.value is n and isinstance(getattr(p, "_parent", None), ast.Call):
        return "bookkeeping (passed on)"
    if isinstance(p, ast.BinOp) and isinstance(p.op, ast.Add):
        # state['emit_address'] + 2 + len(...) as the value of the 'rel_address' key
        q = p
        while isinstance(q._parent, ast.BinOp) and isinstance(q._parent.op, ast.Add):
            q = q._parent
        d = q._parent
        if isinstance(d, ast.Dict):
            for k, v in zip(d.keys, d.values):
                if v is q and isinstance(k, ast.Constant) and k.value == "rel_address":
                    return "bookkeeping (rel_address)"
        if isinstance(d, ast.keyword) and d.arg == "rel_address":
            return "bookkeeping (rel_address)"
        if isinstance(d, ast.Assign) and len(d.targets) == 1 and isinstance(d.targets[0], ast.Name):
            return "bookkeeping (address arithmetic kept in a local)"
    return None


def rule_R1(ck):
    repo = ck.repo
    n_reads = 0
    for q, fn in repo.all_functions():
        for n in walk_local(fn):
            if isinstance(n, ast.Subscript) and isinstance(n.ctx, ast.Load) and isinstance(n.slice, ast.Constant) and n.slice.value in ("emit_address", "rel_address") \
                    and norm_text(n.value) == "state":
                role = classify(n)
                n_reads += 1
                ck.instance(("read", q, n.lineno, n.col_offset), {"function": q, "read": norm_text(n), "role": role}, fn=q)
                if role is None:
                    ck.unknown(f"{q}:{n.lineno}: location-counter read {norm_text(n._parent)[:80]!r} is in no known role")
    if n_reads < 10:
        ck.unknown(f"only {n_reads} location-counter reads found (13 confirmed by hand)")


def rule_R23(ck):
    repo = ck.repo
    ref = c01.load_modes_ref()
    XV = sym.var("X", "int")
    where = "insns::RegisterModeOperandStub.encode"
    for shape, mode, ext, note in ref:
        if shape == "acN":
            continue
        I = eager_interp(repo)

        def thunk():
            sh = Shapes(I)
            operand = c01.build_shape(sh, shape, lambda: sh.symbol("r1"), sh.xexpr(XV, "X"))
            stub = I.instantiate(I.module_get("insns", "RegisterModeOperandStub"), ["d", [5, 4, 3, 2, 1, 0]], {})
            return I.call_method(stub, "encode", [operand, STATE])
        for p in I.explore(thunk):
            if p.kind != "return":
                continue
            m, e = p.value
            relative = ext == "X-rel-2"
            ck.instance(("word", shape), {"shape": shape, "kind": "pc-relative" if relative else "absolute/none", "word": repr(e)[:120]}, fn=where)
            if sym.contains(m, DOT) or sym.contains(m, REL) or (is_sym(m) and "emit_address" in repr(m)):
                ck.violation(where, f"the mode/register field of shape {shape} depends on the location counter", construct=f"mode field {shape}")
            if not relative:
                if "emit_address" in repr(e) or "rel_address" in repr(e):
                    ck.violation(where, f"the operand word of the absolute-kind shape {shape} reads the location counter: {e!r}; it would change with the link base by something other than the base difference",
                                 construct=f"absolute word {shape}")
            else:
                # coefficient check inside mod(..., 65536)
                ok = False
                if is_sym(e) and e[:2] == ("op", "sized") and is_sym(e[3]) and e[3][:3] == ("op", "pack", "<H"):
                    w = e[3][3]
                    if is_sym(w) and w[:2] == ("op", "mod") and w[3] == 65536 and is_sym(w[2]) and w[2][0] == "lin":
                        coeffs = dict(w[2][1])
                        ok = coeffs.get(XV) == 1 and coeffs.get(REL) == -1 and len(coeffs) == 2
                if not ok:
                    ck.violation(where, f"the PC-relative word of shape {shape} is {e!r}: target must enter with coefficient +1 and rel_address with -1 so that the base cancels", construct=f"relative word {shape}")
    # opcode word: independent of the location counter (all rows)
    table = c01.fold_table(repo)
    for name in sorted(table):
        paths, rels = c01.run_compile_insn(repo, name)
        for p in paths:
            if p.kind != "return":
                continue
            head = c01.flatten_cat(p.value)[0]
            ck.instance(("opcode", name), None, fn="insns::Instruction.compile_insn")
            if "emit_address" in repr(head) or "rel_address" in repr(head):
                ck.violation("insns::Instruction.compile_insn", f"the opcode word of '{name}' depends on the location counter: {head!r}", construct="opcode word reads address")


def run(ck):
    ck.run_rule("C09.R1", "roles of location-counter reads (G7)", 10, rule_R1)
    ck.run_rule("C09.R23", "PC-relative words are target - rel_address; absolute words and opcode words ignore the address", 260, rule_R23)
    ck.run_rule("C04.R3", "branch/SOB displacement depends on target - rel_address only", 8, c04.rule_R3)
    ck.run_rule("C04.R1", "rel_address = '.' + 2 + preceding operand words", 150, c04.rule_R1)
    ck.run_rule("C02.R6", "the base enters as the start of the first file; continuation across files", 3, c02.rule_R6)
    ck.run_rule("C02.R7", "the base enters as the start of the first linked file; later files start at base + lengths before them", 3, c02.rule_R7)
    ck.run_rule("C03.R7", "LinearPolynomial algebra keeps the base linear (cancellation)", 18, c03.rule_R7)
    from . import c01
    ck.run_rule("C01.T5", "index words of 'a-b(r)' operands are the expression as written (a difference of labels stays base-free)", 8, c01.rule_T5)
    from ..rules import treeimm
    ck.run_rule("G4.re", "a tree compiled at a second base yields the second base's values (no value of the first compilation survives on a node)", 15, treeimm.rule_reresolve)
    from ..rules import thunks
    ck.run_rule("G1", "PC-relative thunks read the rel_address of their own operand (captured by value, state never updated in place)", 20, thunks.rule_G1)
