"""C14 - the BK charset: bijection, ASCII and KOI8-R agreement, refusal of foreign characters."""
import ast
import itertools

from ..engine import sym
from ..engine.interp import Interp, Rec, Raised, Unsupported, ExcVal
from ..engine.loader import Unknown, norm_text
from ..engine.sym import is_sym
from ..rules import guards
from ..rules.world import eager_interp

EXPLANATION = (
    "The literal DECODING_TABLE and the comprehension ENCODING_TABLE are folded from the source (nothing imported) and the "
    "laws are checked exhaustively over all 256 bytes and every key: decode-then-encode is the identity on bytes, "
    "ASCII agreement below 0x7F, KOI8-R agreement from 0xC0 (stdlib codec as independent oracle), no foreign keys. "
    "encode/decode are abstractly interpreted on a symbolic string (they must index the tables) and, for the error "
    "position, on all strings of length <= 5 over the two-class alphabet {encodable, not encodable}. Every "
    ".encode(charset) on program text must sit under a handler that reports (rule P2).")
ASSUMPTIONS = ["stdlib koi8_r codec is correct", "error-position rule is bounded to length <= 5 over a 2-class abstraction of characters"]
TRUSTED = ["python ast", "stdlib koi8_r codec", "sa.engine.interp"]
LEVEL_TEXT = "Exhaustive over the finite table (all 256 bytes, all keys); structural for the codec functions; who-must-guard rule for encode sites."
LEVEL_NOTE = "trusted: stdlib koi8_r; the table laws are complete (finite domain), the error-position law is bounded"
TECHNIQUE = "closed-term folding of the codec tables + exhaustive law check; abstract interpretation of encode/decode; guarded-call-site rule"


def fold_tables(repo):
    I = eager_interp(repo)
    paths = I.explore(lambda: (I.module_get("bk_encoding", "DECODING_TABLE"), I.module_get("bk_encoding", "ENCODING_TABLE")))
    if len(paths) != 1 or paths[0].kind != "return":
        raise Unknown(f"bk_encoding tables do not fold: {paths}")
    return I, paths[0].value


def rule_table(ck):
    I, (DEC, ENC) = fold_tables(ck.repo)
    where = "bk_encoding::<module>"
    if not isinstance(DEC, list) or not isinstance(ENC, dict):
        raise Unknown("tables are not a list and a dict")
    if len(DEC) != 256:
        ck.violation(where, f"DECODING_TABLE has {len(DEC)} entries, a byte charset needs 256", construct="DECODING_TABLE length")
        return
    for b in range(256):
        ent = DEC[b]
        ck.instance(("byte", b), {"byte": b, "chars": ent} if b in (0x24, 0x7f, 0xa0, 0xc0, 0xff) else None, fn=where)
        if not isinstance(ent, str) or len(ent) < 1:
            ck.violation(where, f"byte {b:#04x} decodes to {ent!r}", construct=f"DECODING_TABLE[{b}]")
            continue
        first = ent[0]
        if ENC.get(first) != b:
            ck.violation(where, f"byte {b:#04x} decodes to {first!r} which encodes back to {ENC.get(first)!r}: not a bijection",
                         construct=f"DECODING_TABLE[{b}] roundtrip", expected=b, found=ENC.get(first))
        if b <= 0x7e and first != chr(b):
            ck.violation(where, f"byte {b:#04x} decodes to {first!r}, ASCII says {chr(b)!r}", construct=f"DECODING_TABLE[{b}] ascii", expected=chr(b), found=first)
        if b >= 0xc0:
            koi = bytes([b]).decode("koi8_r")
            if first != koi:
                ck.violation(where, f"byte {b:#04x} decodes to {first!r}, KOI8-R says {koi!r}", construct=f"DECODING_TABLE[{b}] koi8", expected=koi, found=first)
    for ch, code in ENC.items():
        ck.instance(("key", ch), None, fn=where)
        if not (isinstance(code, int) and 0 <= code < 256 and isinstance(ch, str) and len(ch) == 1 and ch in DEC[code]):
            ck.violation(where, f"character {ch!r} encodes to {code!r} but byte {code!r} does not decode to it", construct=f"ENCODING_TABLE[{ch!r}]")
    # every character listed anywhere in DEC is a key (so the comprehension covers alternates) and maps to its own row
    # unless a later row overrides it (then the law above already fired for the earlier row's first character)
    seen = {}
    for b in range(256):
        for ch in DEC[b]:
            if ch in seen and seen[ch] != b:
                ck.violation(where, f"character {ch!r} is listed for bytes {seen[ch]:#04x} and {b:#04x}", construct=f"duplicate {ch!r}")
            seen[ch] = b
    if set(ENC) != set(seen):
        ck.violation(where, "ENCODING_TABLE keys differ from the characters of DECODING_TABLE", construct="ENCODING_TABLE keys")


def rule_functions(ck):
    repo = ck.repo
    I, (DEC, ENC) = fold_tables(repo)
    ST = sym.var("string", "str")
    # decode: "".join(DEC[b][0] for b in string), len(string)
    D = sym.var("data", "bytes")
    exp = (sym.op("joinmap", "", sym.op("item", sym.op("item", sym.op("const", id(DEC)), sym.op("elem", D)), 0), D), sym.op("len", D))
    try:
        p = I.explore(lambda: I.call(I.module_get("bk_encoding", "decode"), [D], {}))
        shape_ok = len(p) == 1 and p[0].kind == "return" and p[0].value == exp
        shown = repr(p[0].value)
    except Unsupported as ex:
        shape_ok, shown = False, f"(no closed form: {ex})"
    ck.instance("decode", {"decode(data)": shown}, fn="bk_encoding::decode")
    if not shape_ok:
        # not the comprehension idiom: decide by complete valuation - every byte value once, in three arrangements
        for arrangement, data in (("ascending", bytes(range(256))), ("descending", bytes(range(255, -1, -1))), ("each byte twice", bytes(b for b in range(256) for _ in (0, 1)))):
            ps = I.explore(lambda data=data: I.call(I.module_get("bk_encoding", "decode"), [data], {}))
            want = ("".join(DEC[b][0] for b in data), len(data))
            ck.instance(("decode-valuation", arrangement), None, fn="bk_encoding::decode")
            if len(ps) != 1 or ps[0].kind != "return" or not isinstance(ps[0].value, (tuple, list)) or tuple(ps[0].value) != want:
                ck.violation("bk_encoding::decode", f"decode() of all 256 byte values ({arrangement}) is not ''.join(DECODING_TABLE[b][0] for b in data), len(data): {shown}", construct="decode body")
                break
    # encode on a fully encodable symbolic string
    exp = (sym.op("bytesof", sym.op("map", sym.op("item", sym.op("const", id(ENC)), sym.op("elem", ST)), ST)), sym.op("len", ST))
    try:
        p = I.explore(lambda: I.call(I.module_get("bk_encoding", "encode"), [ST], {}))
        shape_ok = len(p) == 1 and p[0].kind == "return" and p[0].value == exp
        shown = repr(p[0].value)
    except Unsupported as ex:
        shape_ok, shown = False, f"(no closed form: {ex})"
    ck.instance("encode", {"encode(string)": shown}, fn="bk_encoding::encode")
    if not shape_ok:
        keys = sorted(ENC)
        for arrangement, text in (("ascending", "".join(keys)), ("descending", "".join(reversed(keys))), ("each character twice", "".join(c + c for c in keys))):
            ps = I.explore(lambda text=text: I.call(I.module_get("bk_encoding", "encode"), [text], {}))
            want = (bytes(ENC[c] for c in text), len(text))
            ck.instance(("encode-valuation", arrangement), None, fn="bk_encoding::encode")
            got = ps[0].value if len(ps) == 1 and ps[0].kind == "return" else None
            if got is None or (bytes(got[0]) if isinstance(got[0], (bytes, bytearray)) else got[0], got[1]) != want:
                ck.violation("bk_encoding::encode", f"encode() of every character of the table ({arrangement}) is not bytes(ENCODING_TABLE[c] for c in string), len(string): {shown}", construct="encode body")
                break
    # refusal, by complete valuation over the Basic Latin .. Cyrillic blocks plus samples: every character that is not a key of the
    # table is refused when it stands alone, and when it follows an encodable character
    foreign = [chr(c) for c in list(range(0, 0x530)) + [0x2116, 0x2500, 0x25A0, 0x20AC, 0xFF21, 0x1F600] if chr(c) not in ENC]
    for ch in foreign:
        for text in (ch, "a" + ch):
            ps = I.explore(lambda text=text: I.call(I.module_get("bk_encoding", "encode"), [text], {}))
            if not (len(ps) == 1 and ps[0].kind == "raise" and ps[0].value.name == "UnicodeEncodeError"):
                ck.violation("bk_encoding::encode", f"the character U+{ord(ch):04X} is not in the table, yet encode({text!r}) gives {ps[0].value if ps else None!r} instead of raising UnicodeEncodeError: "
                                                    "it is assembled as some byte without a diagnostic", construct="encode accepts a foreign character")
                break
        else:
            continue
        break
    ck.instance("refusal-valuation", {"characters outside the table tried": len(foreign)}, fn="bk_encoding::encode")
    # error position on the 2-class abstraction: 'a' encodable, U+65E5 not encodable (checked against the folded table)
    good, bad = "a", "日"
    if good not in ENC or bad in ENC:
        raise Unknown("class representatives no longer separate encodable from foreign characters")
    n = 0
    for length in range(1, 6):
        for pattern in itertools.product((good, bad), repeat=length):
            s = "".join(pattern)
            if bad not in s:
                continue
            n += 1
            ps = I.explore(lambda: I.call(I.module_get("bk_encoding", "encode"), [s], {}))
            first, last = s.index(bad), s.rindex(bad)
            okp = len(ps) == 1 and ps[0].kind == "raise" and ps[0].value.name == "UnicodeEncodeError"
            if okp:
                a = ps[0].value.args
                okp = len(a) == 5 and a[0] == "bk" and a[1] == s and a[2] == first and a[3] == last + 1
            ck.instance(("encode-error", s.replace(bad, "?")), None, fn="bk_encoding::encode")
            if not okp:
                ck.violation("bk_encoding::encode", f"string pattern {s.replace(bad, '?')!r} ('?' = foreign character): expected UnicodeEncodeError('bk', s, {first}, {last + 1}, ...), got {ps}",
                             construct="encode error position", expected=f"start={first} end={last + 1}", found=repr(ps[0].value.args[2:4]) if ps and ps[0].kind == "raise" and len(ps[0].value.args) >= 4 else repr(ps))
                break
    # registration
    I2 = Interp(repo, summaries=I.summaries)
    I2.persist_modules = False
    ps = I2.explore(lambda: I2.call(I2.module_get("bk_encoding", "_search"), ["bk"], {}))
    eff = [e for e in ps[0].effects if e[0] == "ext"]
    reg = [e for e in eff if e[1] == "codecs.register"]
    info = [e for e in eff if e[1] == "codecs.CodecInfo"]
    ck.instance("registration", {"effects": [e[1] for e in eff]}, fn="bk_encoding::_search")
    if not reg or getattr(reg[0][2][0], "name", None) != "_search":
        ck.violation("bk_encoding::register", "the codec search function is not registered at import", construct="codecs.register")
    ok = info and [getattr(x, "name", None) for x in info[0][2][:2]] == ["encode", "decode"]
    if not ok:
        ck.violation("bk_encoding::_search", "_search('bk') does not return CodecInfo(encode, decode)", construct="CodecInfo")
    ps = I2.explore(lambda: I2.call(I2.module_get("bk_encoding", "_search"), ["utf-8"], {}))
    if ps[0].value is not None:
        ck.violation("bk_encoding::_search", "_search answers for names other than 'bk'", construct="_search other")
    # _cli imports the module (registration is an import side effect)
    cli = repo.module("_cli")
    imported = any(isinstance(s, ast.ImportFrom) and s.level == 1 and s.module is None and any(a.name == "bk_encoding" for a in s.names)
                   for s in cli.tree.body) or any(isinstance(s, ast.ImportFrom) and s.module == "bk_encoding" for s in cli.tree.body)
    ck.instance("cli-import", None, fn="_cli::<module>")
    if not imported:
        ck.violation("_cli::<module>", "the CLI does not import bk_encoding, so the default 'bk' charset is never registered", construct="import bk_encoding")


def rule_P2(ck):
    """every str.encode(<run charset>) on program text is under a handler that reports (possibly one call up)"""
    repo = ck.repo
    for q, fn in repo.all_functions():
        if q.startswith("bk_encoding::") or q.startswith("devices::"):
            continue
        for c in guards.calls_in(fn):
            f = c.func
            if not (isinstance(f, ast.Attribute) and f.attr == "encode" and c.args):
                continue
            if isinstance(c.args[0], ast.Constant) or c.keywords or len(c.args) > 2:
                continue
            if len(c.args) == 2 and not (isinstance(c.args[1], ast.Constant) and isinstance(c.args[1].value, str)):
                continue   # (operand, state): an operand-stub encode(), not str.encode
            ck.instance((q, norm_text(c)), {"site": q, "call": norm_text(c)}, fn=q)
            ok, missing = guards.covered(c, ["UnicodeEncodeError"])
            if ok:
                continue
            # one level up: all callers of the enclosing (module-level) function guard the call
            callers = guards.callers_of(repo, fn) if isinstance(fn, ast.FunctionDef) else []
            if callers and all(guards.covered(cs, ["UnicodeEncodeError"])[0] for _, cs in callers):
                continue
            ck.violation(c, "text from the program is encoded with the run's charset outside any handler that reports UnicodeEncodeError: "
                            "an unencodable character escapes as an internal error", construct=norm_text(c))


def foreign_samples(enc):
    """characters OUTSIDE the table that a well-meant normalisation would turn into characters inside it, plus plain foreigners.
    Computed here from the folded table with the checker's own unicodedata (nothing of the repository runs)."""
    import unicodedata
    inside = set(enc)
    out = {}
    for cp in list(range(0x80, 0x3000)) + list(range(0xFF00, 0xFFF0)):
        ch = chr(cp)
        if ch in inside:
            continue
        for name, f in (("NFC", lambda c: unicodedata.normalize("NFC", c)), ("NFKC", lambda c: unicodedata.normalize("NFKC", c)), ("NFD", lambda c: unicodedata.normalize("NFD", c)),
                        ("NFKD", lambda c: unicodedata.normalize("NFKD", c)), ("lower", str.lower), ("upper", str.upper), ("casefold", str.casefold)):
            t = f(ch)
            if t != ch and t and all(c in inside for c in t) and name not in out:
                out[name] = ch
    # combining sequences that compose into a table character
    for base in inside:
        for comb in ("\u0306", "\u0308"):
            c = unicodedata.normalize("NFC", base + comb)
            if len(c) == 1 and c in inside and "NFC-seq" not in out:
                out["NFC-seq"] = base + comb
    out["latin-1"] = "\u00e9"
    out["astral"] = "\U0001F600"
    return out


def rule_flow(ck):
    """The characters of a string or character literal reach the codec as written: only then does 'every character outside the
    table is refused' (C14.fn) mean what the property says. Each literal parser is run (abstractly, real combinators) on
    literals holding a foreign character; the token must carry exactly the source characters."""
    from .c05 import run_parser
    repo = ck.repo
    _I, (dec, enc) = fold_tables(repo)
    if not isinstance(enc, dict):
        raise Unknown("ENCODING_TABLE does not fold to a dict")
    samples = foreign_samples(enc)
    if len(samples) < 6:
        raise Unknown(f"only {len(samples)} foreign sample classes could be derived from the table")
    I = eager_interp(repo)
    inside = "\u0416"   # a Cyrillic letter of the table: must pass through as well
    if inside not in enc:
        raise Unknown("U+0416 is not in the folded table")
    for kind, ch in sorted(samples.items()) + [("inside", inside)]:
        for pname, text, field, want in (("quoted_string", f'"a{ch}b"', "string", f"a{ch}b"), ("quoted_string", f"/{ch}/", "string", ch),
                                         ("single_quoted_literal", f"'{ch[0]}", "string", ch[0]), ("double_quoted_literal", f'"{ch[0]}z', "string", ch[0] + "z")):
            if not repo.has_func(f"parser::{pname}"):
                raise Unknown(f"anchor vanished: parser::{pname}")
            r, pos, errs, raised = run_parser(I, pname, text)
            got = r.fields.get(field) if isinstance(r, Rec) else None
            ck.instance(("literal", pname, kind, text), {"parser": pname, "class": kind, "source": text.encode("unicode_escape").decode(), "token text": None if got is None else got.encode("unicode_escape").decode()}, fn=f"parser::{pname}")
            if raised or got != want:
                ck.violation(f"parser::{pname}", f"the literal {text.encode('unicode_escape').decode()} is parsed into text {None if got is None else got.encode('unicode_escape').decode()!r} "
                                                 f"(raised: {raised}), not into the characters written ({kind}): a character outside the BK table is rewritten into one inside it and is "
                                                 "assembled silently instead of being refused", construct=f"{pname} rewrites characters")
    # parse(filename, text): the text the literal parsers read is the text of the file - control and separator characters included
    probe = 'x\x0by\x0cz\x1c\x1d\x1e\x85\u2028\u2029\r\nq\rw\n'
    seen_text = []

    def ctx_init(I_, fn_, a, k):
        seen_text.append(a[2] if len(a) > 2 else k.get("code"))
        return NotImplemented
    I.summaries = dict(I.summaries)
    I.summaries["context::Context.__init__"] = ctx_init
    I.summaries["parser::code"] = lambda I_, fn_, a, k: sym.var("BODY", "obj")
    try:
        pp = I.explore(lambda: I.call(I.module_get("parser", "parse"), ["a.mac", probe], {}))
    finally:
        I.summaries.pop("context::Context.__init__", None)
        I.summaries.pop("parser::code", None)
    ck.instance(("parse", "text pass-through"), {"text handed to the parser's context": None if not seen_text or not isinstance(seen_text[-1], str) else seen_text[-1].encode("unicode_escape").decode()}, fn="parser::parse")
    if len(pp) != 1 or pp[0].kind != "return":
        ck.incomplete("parser::parse", "parse() of a text with control and separator characters", pp)
    elif not seen_text or seen_text[-1] != probe:
        got_ = seen_text[-1] if seen_text else None
        ck.violation("parser::parse", f"parse() hands the parser {None if not isinstance(got_, str) else got_.encode('unicode_escape').decode()!r} for the source {probe.encode('unicode_escape').decode()!r}: "
                                      "characters of the file are rewritten before any literal is read (a vertical tab or form feed inside a string becomes a line feed; a character outside the table is assembled silently)",
                     construct="parse rewrites the source text")
    # the token hands the same text on
    for cls in ("QuotedString",):
        fn = repo.func(f"types::{cls}.resolve")
        rets = [n for n in ast.walk(fn) if isinstance(n, ast.Return)]
        ck.instance(("resolve", cls), {"returns": [norm_text(r.value) for r in rets]}, fn=f"types::{cls}.resolve")
        if len(rets) != 1 or norm_text(rets[0].value) != "self.string":
            # decide by abstract execution instead of by shape
            V = sym.var("TEXT", "str")

            def thunk():
                tok = I.instantiate(I.module_get("types", cls), [None, None, '"', V], {})
                return I.call_method(tok, "resolve", [{}])
            ps = I.explore(thunk)
            if len(ps) != 1 or ps[0].kind != "return" or ps[0].value != V:
                ck.violation(f"types::{cls}.resolve", f"{cls}.resolve returns {ps[0].value!r} for the text TEXT: the literal's characters are transformed on the way to the codec", construct=f"{cls}.resolve transforms")


def run(ck):
    ck.run_rule("C14.flow", "string and character literals carry the characters written (no normalisation or case mapping before the codec)", 30, rule_flow)
    ck.run_rule("C14.table", "256-entry table: bijection, ASCII, KOI8-R, no foreign keys (exhaustive)", 400, rule_table)
    ck.run_rule("C14.fn", "encode/decode index the tables; error position; registration", 30, rule_functions)
    ck.run_rule("P2", "every .encode(charset) on program text is guarded by a reporting handler", 3, rule_P2)
    from ..rules import deliver
    ck.run_rule("R.deliver", "an emitted 'invalid-character' error reaches the handler at once and fails the run (it is never held back or withdrawn)", 6, deliver.rule_deliver)
