"""C11 - symbol scoping and linking."""
import ast
import re

from ..engine import sym
from ..engine.interp import Unsupported, Rec, Raised, ExcVal, PyFn, ClassVal
from ..engine.loader import Unknown, norm_text, walk_local
from ..engine.sym import is_sym
from ..rules import guards
from ..rules.world import STATE, Shapes, eager_interp, emit_report_summary, metacommand, metacommand_fn
from . import c03

EXPLANATION = (
    "R1: writer/reader agreement of symbol-table keys: compile_label / compile_assignment / declare_external_symbol are "
    "abstractly executed with symbolic prefixes and names; the keys they store are compared with the candidate keys "
    "Symbol._resolve looks up (local prefix + name, file prefix + name, then the export map's target key). R1k: the key "
    "grammar is injective: scope and file prefixes are <literal><counter><non-digit separator>, so no two "
    "(scope, name) pairs collide. R3: compile_block takes a fresh local prefix at entry and after every ordinary label; "
    "compile_file takes a fresh file prefix per compilation. R4: duplicate tests dominate the stores and end in a report "
    "(second definition is an error, the first binding stays), case-insensitively. R5: exports: '::'/'==' declare the name; "
    "'.extern all' declares the names so far and leaves a usable location token for later definitions; a local label "
    "cannot be exported. R6 = C03.R8: an exported binding is not accepted before the file's own definitions are known.")
ASSUMPTIONS = ["visibility outcomes for concrete multi-file programs are not computed"]
TRUSTED = ["sa.engine.interp", "sa.engine.flow"]
LEVEL_TEXT = "Key forms, freshness and duplicate discipline are facts of the code for every name and scope count."
LEVEL_NOTE = "necessary conditions; run-time binding outcomes follow from them but are not enumerated"
TECHNIQUE = "abstract interpretation of the symbol-table writers and readers (key normal forms), prefix-grammar injectivity, must-dataflow for lookup priority"


def _table(t):
    """the plain mapping behind a symbol table (a CaseInsensitiveDict record, or a plain dict if the code uses one)"""
    return t.fields["container"] if isinstance(t, Rec) else t


def lazy(repo):
    I = eager_interp(repo)
    I.summaries = {"reports::emit_report": emit_report_summary}
    return I


LP, IP, NAME = sym.var("LOCAL_PREFIX", "str"), sym.var("FILE_PREFIX", "str"), sym.var("NAME", "str")


def _need_prefix(state):
    if isinstance(state, dict) and "local_symbol_prefix" not in state:
        from ..report import Defect
        raise Defect("compiler::Compiler.compile_block", "compile_block hands compile_label a state without 'local_symbol_prefix': the label (and every reference compiled with that state) dies with KeyError, "
                                                          "or is filed under the enclosing scope's prefix", "statement state lacks the scope prefix")


def mk_state(comp, extern_all=None, insn=None):
    return {"local_symbol_prefix": LP, "internal_symbol_prefix": IP, "compiler": comp, "internal_symbols_list": [], "extern_all": extern_all,
            "filename": "a.mac", "insn": insn}


def rule_R1(ck):
    repo = ck.repo
    I = lazy(repo)
    I.summaries["containers::CaseInsensitiveDict.__contains__"] = lambda I_, fn, a, k: False    # the name is new
    writers = {}
    for kind, local in (("label-local", True), ("label", False)):
        def thunk():
            sh = Shapes(I)
            comp = I.instantiate(I.module_get("compiler", "Compiler"), [], {})
            lab = sh.mk(I.module_get("types", "Label"), None, None, "1x" if local else "x", False)
            lab.fields["name"] = NAME
            I.call_method(comp, "compile_label", [lab, sym.var("ADDR", "int"), mk_state(comp)])
            return list(_table(comp.fields["symbols"]).items())
        ps = [p for p in I.explore(thunk) if p.kind == "return" and p.value]
        keys = {k for p in ps for k, v in p.value}
        writers[kind] = keys
        want = sym.op("lower", sym.cat(LP if local else IP, NAME))
        ck.instance(("writer", kind), {"writer": f"compile_label ({'local' if local else 'ordinary'})", "key": [repr(k) for k in keys]}, fn="compiler::Compiler.compile_label")
        if keys != {want}:
            ck.violation("compiler::Compiler.compile_label", f"a {'local' if local else 'ordinary'} label is stored under {[repr(k) for k in keys]}, expected {want!r} ({'scope' if local else 'file'} prefix + name)",
                         construct=f"label key {'local' if local else 'ordinary'}", expected=repr(want), found=str([repr(k) for k in keys]))

    def thunk_a():
        sh = Shapes(I)
        comp = I.instantiate(I.module_get("compiler", "Compiler"), [], {})
        tgt = sh.symbol("x")
        tgt.fields["name"] = NAME
        asg = sh.mk(I.module_get("types", "Assignment"), None, None, tgt, sh.xexpr(sym.var("V", "int"), "V"), False)
        I.call_method(comp, "compile_assignment", [asg, mk_state(comp)])
        return list(_table(comp.fields["symbols"]).items())
    ps = [p for p in I.explore(thunk_a) if p.kind == "return" and p.value]
    keys = {k for p in ps for k, v in p.value}
    want = sym.op("lower", sym.cat(IP, NAME))
    ck.instance(("writer", "assignment"), {"writer": "compile_assignment", "key": [repr(k) for k in keys]}, fn="compiler::Compiler.compile_assignment")
    # a plain 'x = V' (not 'x == V', no '.extern') stays private to its file: nothing is written to the export map
    def thunk_ap():
        sh = Shapes(I)
        comp = I.instantiate(I.module_get("compiler", "Compiler"), [], {})
        tgt = sh.symbol("x")
        asg = sh.mk(I.module_get("types", "Assignment"), None, None, tgt, sh.xexpr(sym.var("V", "int"), "V"), False)
        I.call_method(comp, "compile_assignment", [asg, mk_state(comp)])
        lab = sh.mk(I.module_get("types", "Label"), None, None, "plain", False)
        I.call_method(comp, "compile_label", [lab, sym.var("ADDR", "int"), mk_state(comp)])
        return sorted(str(k) for k in _table(comp.fields["extern_symbols_mapping"]))
    pa = I.explore(thunk_ap)
    ck.instance(("writer", "private definitions"), {"exported after 'x = V' and 'plain:'": repr(pa[0].value) if pa and pa[0].kind == "return" else repr(pa)}, fn="compiler::Compiler.compile_assignment")
    if len(pa) != 1 or pa[0].kind != "return":
        ck.incomplete("compiler::Compiler.compile_assignment", "'x = V' and 'plain:' in a file without '.extern'", pa)
    elif pa[0].value:
        ck.violation("compiler::Compiler.compile_assignment", f"'x = V' and 'plain:' (no '==', no '::', no '.extern') export {pa[0].value}: a plain definition is private to its file - "
                                                              "another file's 'x' must not bind to it, and two files may both define 'x'", construct="plain definitions are exported")
    if keys != {want}:
        ck.violation("compiler::Compiler.compile_assignment", f"a constant is stored under {[repr(k) for k in keys]}, expected {want!r}", construct="assignment key", expected=repr(want))

    # export map: name -> (location, file prefix + name)
    def thunk_e():
        comp = I.instantiate(I.module_get("compiler", "Compiler"), [], {})
        I.call_method(comp, "declare_external_symbol", [sym.var("LOC", "obj"), NAME, mk_state(comp)])
        return list(_table(comp.fields["extern_symbols_mapping"]).items())
    ps = [p for p in I.explore(thunk_e) if p.kind == "return" and p.value]
    ent = {(k, v[1][1]) for p in ps for k, v in p.value}
    want = (sym.op("lower", NAME), sym.cat(IP, NAME))
    ck.instance(("writer", "export"), {"writer": "declare_external_symbol", "entry": [repr(e) for e in ent]}, fn="compiler::Compiler.declare_external_symbol")
    if ent != {want}:
        ck.violation("compiler::Compiler.declare_external_symbol", f"an exported name is recorded as {[repr(e) for e in ent]}, expected name -> file prefix + name ({want!r})", construct="export key")

    # reader: Symbol._resolve candidates, in order
    looked = []

    def contains(I_, fn, a, k):
        looked.append(("in", a[1]))
        return False

    def get(I_, fn, a, k):
        looked.append(("get", a[1]))
        return None
    I2 = lazy(repo)
    I2.summaries["containers::CaseInsensitiveDict.__contains__"] = contains
    I2.summaries["containers::CaseInsensitiveDict.get"] = get

    def thunk_r():
        del looked[:]
        sh = Shapes(I2)
        comp = I2.instantiate(I2.module_get("compiler", "Compiler"), [], {})
        s = sh.symbol("x")
        s.fields["name"] = NAME
        I2.call_method(s, "_resolve", [mk_state(comp)])
        return list(looked)
    ps = I2.explore(thunk_r)
    rets = [p for p in ps if p.kind == "return"]
    seq = rets[0].value if len(rets) == 1 else None
    ck.instance(("reader", "Symbol._resolve"), {"lookups in order": [f"{k} {v!r}" for k, v in seq] if seq else repr(ps)}, fn="types::Symbol._resolve")
    if not seq:
        return ck.incomplete("types::Symbol._resolve", "Symbol._resolve on a defined name", ps)
    cands = [v for k, v in seq if k == "in"]
    if set(cands) != {sym.cat(LP, NAME), sym.cat(IP, NAME)}:
        ck.violation("types::Symbol._resolve", f"a reference looks up {[repr(c) for c in cands]}; definitions are stored under scope prefix + name and file prefix + name", construct="resolve candidates",
                     expected=str([repr(sym.cat(LP, NAME)), repr(sym.cat(IP, NAME))]), found=str([repr(c) for c in cands]))
    gets = [v for k, v in seq if k == "get"]
    if not gets or gets[0] != NAME:
        ck.violation("types::Symbol._resolve", f"the export map is consulted with {[repr(g) for g in gets]}, it is keyed by the bare name", construct="resolve export key")
    if seq and [k for k, v in seq][:2] != ["in", "in"]:
        ck.violation("types::Symbol._resolve", "the export map is consulted before the scope-keyed candidates", construct="resolve order")
    # the undefined report names nothing else: covered by C03.R1
    rule_undefined_value(ck)


def rule_undefined_value(ck):
    """a name nobody defines: one error report, and the reference still has a usable integer value and no definition site - the
    statements around it go on being assembled (more diagnostics in one run) instead of dying on a None"""
    repo = ck.repo
    I2 = lazy(repo)
    I2.summaries["containers::CaseInsensitiveDict.__contains__"] = lambda I_, fn, a, k: False
    I2.summaries["containers::CaseInsensitiveDict.get"] = lambda I_, fn, a, k: (k.get("default") if len(a) < 3 else a[2])

    def thunk_u():
        sh = Shapes(I2)
        comp = I2.instantiate(I2.module_get("compiler", "Compiler"), [], {})
        s = sh.symbol("nobody")
        st = mk_state(comp)
        return I2.call_method(s, "resolve", [st]), I2.call_method(s, "locate_definition", [st])
    ps = I2.explore(thunk_u)
    where = "types::Symbol._resolve"
    ck.instance(("reader", "undefined name"), {"resolve(), locate_definition() of a name nobody defines": repr(ps[0].value) if ps else None,
                                               "reports": [e[2] for p in ps for e in p.reported()]}, fn=where)
    if len(ps) != 1 or ps[0].kind != "return":
        return ck.incomplete(where, "resolve() / locate_definition() of a name nobody defines", ps)
    # the export map names the symbol but the table has no such entry (a '.extern x' without any definition of x)
    I3 = lazy(repo)
    I3.summaries["containers::CaseInsensitiveDict.__contains__"] = lambda I_, fn, a, k: False
    I3.summaries["containers::CaseInsensitiveDict.get"] = lambda I_, fn, a, k: ((sym.var("LOC", "obj"), ".internal9.nobody") if a[1] == "nobody" and isinstance(a[0], Rec) and a[0] is getattr(I_, "_extmap", None)
                                                                                else (k.get("default") if len(a) < 3 else a[2]))

    def thunk_e():
        sh = Shapes(I3)
        comp = I3.instantiate(I3.module_get("compiler", "Compiler"), [], {})
        I3._extmap = comp.fields["extern_symbols_mapping"]
        s = sh.symbol("nobody")
        st = mk_state(comp)
        return I3.call_method(s, "resolve", [st]), I3.call_method(s, "locate_definition", [st])
    pe = I3.explore(thunk_e)
    ck.instance(("reader", "declared but undefined"), {"resolve(), locate_definition() of a name that is only declared '.extern'": repr(pe[0].value) if pe else None, "reports": [e[2] for p in pe for e in p.reported()]}, fn=where)
    if len(pe) != 1 or pe[0].kind != "return":
        ck.incomplete(where, "resolve() / locate_definition() of a name that is declared '.extern' but defined nowhere", pe)
    elif isinstance(pe[0].value[0], bool) or not isinstance(pe[0].value[0], int) or "undefined-symbol" not in [e[2] for e in pe[0].reported()]:
        ck.violation(where, f"a name that is declared '.extern' but defined nowhere evaluates to {pe[0].value[0]!r} with the diagnostics {[e[2] for e in pe[0].reported()]}; expected the 'undefined-symbol' error and an integer",
                     construct="declared but undefined symbol")
    val, loc = ps[0].value
    ids = [e[2] for e in ps[0].reported()]
    if "undefined-symbol" not in ids:
        ck.violation(where, f"a name nobody defines is not reported as 'undefined-symbol' (reports: {ids})", construct="undefined symbol report")
    if isinstance(val, bool) or not isinstance(val, int):
        ck.violation(where, f"after the 'undefined-symbol' report the reference evaluates to {val!r}, not to an integer: the arithmetic and the encoders around it die with an internal exception instead of going on", construct="undefined symbol value")
    if loc is not None:
        ck.violation(where, f"a name nobody defines has the definition site {loc!r}", construct="undefined symbol definition site")


def rule_R1k(ck):
    """prefix grammar: <literal><counter><separator starting with a non-digit>, distinct literals for the two families"""
    repo = ck.repo
    I = lazy(repo)
    got = {}
    for n in (1, 11):
        seen = []

        def cl(I_, fn, a, k):
            _need_prefix(a[3])
            seen.append(a[3]["local_symbol_prefix"] if isinstance(a[3], dict) else ("not a state mapping", type(a[3]).__name__))
            return None

        def cb(I_, fn, a, k):
            seen.append(a[1]["internal_symbol_prefix"] if isinstance(a[1], dict) else ("not a state mapping", type(a[1]).__name__))
            return b""
        I.summaries["compiler::Compiler.compile_label"] = cl

        def thunk():
            del seen[:]
            sh = Shapes(I)
            comp = I.instantiate(I.module_get("compiler", "Compiler"), [], {})
            comp.fields["next_local_symbol_prefix"] = n
            comp.fields["next_internal_symbol_prefix"] = n
            lab = sh.mk(I.module_get("types", "Label"), None, None, "1", False)
            block = sh.mk(I.module_get("types", "CodeBlock"), None, None, [lab])
            I.call_method(comp, "compile_block", [{"context": "file"}, block, 0])
            local = seen[0]
            del seen[:]
            I.summaries["compiler::Compiler.compile_block"] = cb
            try:
                f = Rec(ClassVal("FileStub"))
                f.fields.update(filename="a.mac", body=block)
                I.call_method(comp, "compile_file", [f, 0, {}])
            finally:
                del I.summaries["compiler::Compiler.compile_block"]
            return local, seen[0]
        ps = I.explore(thunk)
        if len(ps) != 1 or ps[0].kind != "return":
            return ck.incomplete("compiler::Compiler.compile_file", "per-file prefixes handed to compile_block", ps)
        got[n] = ps[0].value
    for idx, fam, where in ((0, "scope (local label)", "compiler::Compiler.compile_block"), (1, "file", "compiler::Compiler.compile_file")):
        a, b = got[1][idx], got[11][idx]
        ck.instance(("prefix", fam), {"family": fam, "counter 1": a, "counter 11": b}, fn=where)
        if not (isinstance(a, str) and isinstance(b, str)):
            ck.violation(where, f"{fam} prefix is not a string: {a!r}", construct=f"{fam} prefix")
            continue
        m1, m2 = re.fullmatch(r"(\D*)1(\D.*)", a, re.S), re.fullmatch(r"(\D*)11(\D.*)", b, re.S)
        if not (m1 and m2 and m1.groups() == m2.groups()):
            ck.violation(where, f"{fam} prefixes are {a!r} (counter 1) and {b!r} (counter 11): the counter is not followed by a non-digit separator, so prefix+name is ambiguous "
                                f"(e.g. {a + '1x'!r} == {b + 'x'!r}) and names of different scopes collide", construct=f"{fam} prefix grammar", expected="<literal><counter><non-digit separator>", found=f"{a!r}, {b!r}")
    l1, f1 = got[1][0], got[1][1]
    if isinstance(l1, str) and isinstance(f1, str):
        ck.instance(("prefix", "families"), {"local": l1, "file": f1}, fn="compiler::Compiler.compile_file")
        la, fa = re.match(r"\D*", l1).group(), re.match(r"\D*", f1).group()
        if la == fa or la.startswith(fa) or fa.startswith(la):
            ck.violation("compiler::Compiler.compile_file", f"scope keys ({l1!r}) and file keys ({f1!r}) are not distinguishable", construct="prefix families")
        # the listing reader relies on this exact prefix (C19): a symbol name can never start with it
        if not l1.startswith(".") or not f1.startswith("."):
            ck.violation("compiler::Compiler.compile_file", "internal prefixes must start with '.' followed by a letter: no user symbol can start that way... (user names cannot begin with '.')", construct="prefix leading dot")


def rule_R3(ck):
    repo = ck.repo
    I = lazy(repo)
    seen = []

    def cl(I_, fn, a, k):
        _need_prefix(a[3])
        seen.append((a[1].fields["name"], a[3]["local_symbol_prefix"]))
        return None
    I.summaries["compiler::Compiler.compile_label"] = cl

    def thunk():
        del seen[:]
        sh = Shapes(I)
        comp = I.instantiate(I.module_get("compiler", "Compiler"), [], {})
        L = I.module_get("types", "Label")
        labs = [sh.mk(L, None, None, nm, False) for nm in ("a", "1", "b", "1")]
        block = sh.mk(I.module_get("types", "CodeBlock"), None, None, labs)
        I.call_method(comp, "compile_block", [{"context": "file"}, block, 0])
        first = list(seen)
        del seen[:]
        I.call_method(comp, "compile_block", [{"context": "file"}, sh.mk(I.module_get("types", "CodeBlock"), None, None, [sh.mk(L, None, None, "1", False)]), 0])
        return first, list(seen)
    ps = I.explore(thunk)
    where = "compiler::Compiler.compile_block"
    if len(ps) != 1 or ps[0].kind != "return":
        return ck.incomplete(where, "compile_block on labels", ps)
    first, second = ps[0].value
    ck.instance("scopes", {"labels a, 1, b, 1 get scope prefixes": [p for _, p in first], "next block": [p for _, p in second]}, fn=where)
    pa, p1, pb, p1b = [p for _, p in first]
    if not (p1 == pb and pa != p1 and pb != p1b and pa != p1b):
        ck.violation(where, f"scope prefixes for the label sequence a:, 1:, b:, 1: are {pa!r}, {p1!r}, {pb!r}, {p1b!r}: every ordinary label must open a new scope for the local labels after it "
                            "(the two '1:' must be in different scopes, each in the scope opened by the label before it)", construct="scope bump after ordinary label")
    if second and second[0][1] in (pa, p1, p1b):
        ck.violation(where, "a new block re-uses a scope prefix of an earlier block", construct="scope prefix per block")
    # per-file prefix
    I2 = lazy(repo)
    pref = []
    I2.summaries["compiler::Compiler.compile_block"] = lambda I_, fn, a, k: pref.append((a[1]["internal_symbol_prefix"], a[1]["filename"])) or b""

    def thunk2():
        del pref[:]
        comp = I2.instantiate(I2.module_get("compiler", "Compiler"), [], {})
        # linked files go through compile_file, included ones through compile_include: every route needs a fresh prefix
        for nm, how in (("a.mac", "file"), ("b.mac", "file"), ("a.mac", "file"), ("i.mac", "include"), ("j.mac", "include"), ("c.mac", "file"), ("i.mac", "include")):
            f = Rec(ClassVal("FileStub"))
            f.fields.update(filename=nm, body=None)
            if how == "file":
                I2.call_method(comp, "compile_file", [f, 0, {}])
            else:
                I2.call_method(comp, "compile_include", [f, 0])
        m = comp.fields["internal_prefix_to_state"]
        return list(pref), {k: v["filename"] for k, v in m.items()}
    ps = I2.explore(thunk2)
    ck.instance("file-prefixes", {"three compilations": repr(ps[0].value)[:200]}, fn="compiler::Compiler.compile_file")
    if len(ps) != 1 or ps[0].kind != "return":
        return ck.incomplete("compiler::Compiler.compile_file", "compile_file on three files", ps)
    prefs, mapping = ps[0].value
    if len(prefs) != 7:
        raise Unknown(f"compile_file / compile_include: {len(prefs)} blocks compiled for 7 files")
    if len({p for p, _ in prefs}) != 7:
        ck.violation("compiler::Compiler.compile_file", f"file prefixes of seven compilations (linked: a b a, included: i j, linked: c, included: i) are {[p for p, _ in prefs]}: each compiled file "
                                                        "(also a second inclusion of the same file, and the file compiled after an include) needs its own private namespace", construct="file prefix per compilation")
    for p, fname in prefs:
        m = re.search(r"(\d+)", p) if isinstance(p, str) else None
        if not m or mapping.get(int(m.group(1))) != fname:
            ck.violation("compiler::Compiler.compile_file", f"prefix {p!r} of file {fname!r} is not mapped back to that file ({mapping})", construct="internal_prefix_to_state")


def rule_R4(ck):
    repo = ck.repo
    I = lazy(repo)

    def run(kind):
        def thunk():
            sh = Shapes(I)
            comp = I.instantiate(I.module_get("compiler", "Compiler"), [], {})
            st = {"local_symbol_prefix": ".local1.", "internal_symbol_prefix": ".internal1.", "compiler": comp, "internal_symbols_list": [], "extern_all": None, "filename": "a.mac"}
            out = []
            for nm in ("foo", "FOO"):
                n0 = len([e for e in I.effects if e[0] == "report" and e[1] == "error"])
                if kind == "label":
                    lab = sh.mk(I.module_get("types", "Label"), None, None, nm, False)
                    I.call_method(comp, "compile_label", [lab, sym.var(f"ADDR_{nm}", "int"), st])
                elif kind == "local":
                    lab = sh.mk(I.module_get("types", "Label"), None, None, "1" + nm, False)
                    I.call_method(comp, "compile_label", [lab, sym.var(f"ADDR_{nm}", "int"), st])
                elif kind == "assignment":
                    asg = sh.mk(I.module_get("types", "Assignment"), None, None, sh.symbol(nm), sh.xexpr(sym.var(f"V_{nm}", "int"), "V"), False)
                    I.call_method(comp, "compile_assignment", [asg, st])
                else:
                    I.call_method(comp, "declare_external_symbol", [sh.symbol(nm), nm, st])
                errs = [e[2] for e in I.effects if e[0] == "report" and e[1] == "error"][n0:]
                out.append(errs)
            table = _table(comp.fields["extern_symbols_mapping" if kind == "export" else "symbols"])
            return out, {k: v[0] for k, v in table.items()}
        return I.explore(thunk)
    for kind, where in (("label", "compiler::Compiler.compile_label"), ("local", "compiler::Compiler.compile_label"), ("assignment", "compiler::Compiler.compile_assignment"),
                        ("export", "compiler::Compiler.declare_external_symbol")):
        ps = run(kind)
        ck.instance(("duplicate", kind), {"definer": kind, "errors of (first, second) definition": repr(ps[0].value[0]) if ps[0].kind == "return" else repr(ps[0].value),
                                          "stored spellings": repr(ps[0].value[1]) if ps[0].kind == "return" else None}, fn=where)
        if len(ps) != 1 or ps[0].kind != "return":
            ck.violation(where, f"defining '{kind}' foo and then FOO does not complete: {ps}", construct=f"duplicate {kind}")
            continue
        errs, table = ps[0].value
        if errs[0]:
            ck.violation(where, f"the first definition is reported as {errs[0]}", construct=f"duplicate {kind} first")
        if "duplicate-symbol" not in errs[1]:
            ck.violation(where, f"a second definition of the same name (differing in case only) is not reported as 'duplicate-symbol'", construct=f"duplicate {kind} report")
        if len(table) != 1 or list(table.values())[0].lower().lstrip("1") != "foo" and "foo" not in list(table.values())[0].lower():
            ck.violation(where, f"after a duplicate definition the table holds {table}", construct=f"duplicate {kind} table")
        elif "FOO" in list(table.values())[0]:
            ck.violation(where, "a duplicate definition replaces the first binding", construct=f"duplicate {kind} overwrite")


def rule_R5(ck):
    repo = ck.repo
    I = lazy(repo)
    # '::' / '==' declare the exported name with the defining token as location
    for kind in ("label", "assignment"):
        decl = []
        I.summaries["compiler::Compiler.declare_external_symbol"] = lambda I_, fn, a, k: decl.append(a[1:]) or None

        def thunk():
            del decl[:]
            sh = Shapes(I)
            comp = I.instantiate(I.module_get("compiler", "Compiler"), [], {})
            st = {"local_symbol_prefix": ".local1.", "internal_symbol_prefix": ".internal1.", "compiler": comp, "internal_symbols_list": [], "extern_all": None}
            if kind == "label":
                tok = sh.mk(I.module_get("types", "Label"), None, None, "foo", True)
                I.call_method(comp, "compile_label", [tok, 0, st])
            else:
                tok = sh.mk(I.module_get("types", "Assignment"), None, None, sh.symbol("foo"), sh.xexpr(1, "1"), True)
                I.call_method(comp, "compile_assignment", [tok, st])
            return tok, list(decl), st
        ps = I.explore(thunk)
        where = f"compiler::Compiler.compile_{kind}"
        ok = len(ps) == 1 and ps[0].kind == "return" and len(ps[0].value[1]) == 1 and ps[0].value[1][0][0] is ps[0].value[0] and ps[0].value[1][0][1] == "foo"
        ck.instance(("export", kind), {"exported definition declares": repr(ps[0].value[1])[:120] if ps[0].kind == "return" else repr(ps[0])}, fn=where)
        if not ok:
            ck.violation(where, f"an exported {kind} ('::' / '==') is not declared external under its own name", construct=f"export {kind}")
        if ok and "foo" not in ps[0].value[2]["internal_symbols_list"]:
            ck.violation(where, f"an ordinary {kind} is not remembered for a later '.extern all'", construct=f"internal_symbols_list {kind}")
    del I.summaries["compiler::Compiler.declare_external_symbol"]

    # '.extern all' then a later definition of a name another file already exported: must be a diagnostic, not a crash
    def thunk2():
        sh = Shapes(I)
        comp = I.instantiate(I.module_get("compiler", "Compiler"), [], {})
        other = {"local_symbol_prefix": ".local9.", "internal_symbol_prefix": ".internal9.", "compiler": comp, "internal_symbols_list": [], "extern_all": None}
        I.call_method(comp, "declare_external_symbol", [sh.symbol("x"), "x", other])
        st = {"local_symbol_prefix": ".local1.", "internal_symbol_prefix": ".internal1.", "compiler": comp, "internal_symbols_list": ["early"], "extern_all": None,
              "insn": sh.symbol(".extern")}
        I.call(metacommand_fn(I, ".extern"), [st, sh.symbol("all")], {})
        flag = st["extern_all"]
        early = _table(comp.fields["extern_symbols_mapping"]).get("early")
        lab = sh.mk(I.module_get("types", "Label"), None, None, "x", False)
        I.call_method(comp, "compile_label", [lab, 0, st])
        lab2 = sh.mk(I.module_get("types", "Label"), None, None, "late", False)
        I.call_method(comp, "compile_label", [lab2, 0, st])
        return flag, early, _table(comp.fields["extern_symbols_mapping"]).get("late")
    ps = I.explore(thunk2)
    where = "metacommands::extern"
    ck.instance(("extern-all",), {"outcome": ps[0].kind, "value": repr(ps[0].value)[:160]}, fn=where)
    if len(ps) != 1 or ps[0].kind != "return":
        ck.violation(where, f"'.extern all' followed by a definition whose name another file already exported ends in {ps[0].value!r} {getattr(ps[0].value, 'args', '')} instead of a 'duplicate-symbol' diagnostic: "
                            "the flag left in state['extern_all'] is later used as the location of the report", construct="extern_all flag as location")
    else:
        flag, early, late = ps[0].value
        if early is None:
            ck.violation(where, "'.extern all' does not export the names defined so far", construct="extern all early names")
        if late is None:
            ck.violation(where, "names defined after '.extern all' are not exported", construct="extern all later names")
        if "duplicate-symbol" not in [e[2] for e in ps[0].reported()]:
            ck.violation(where, "a name exported by two files is not reported as a duplicate", construct="extern duplicate")
    # '.extern name1, name2' exports exactly the names given (before or after their definition), nothing else
    def thunk_named():
        sh = Shapes(I)
        comp = I.instantiate(I.module_get("compiler", "Compiler"), [], {})
        st = {"local_symbol_prefix": ".local1.", "internal_symbol_prefix": ".internal1.", "compiler": comp, "internal_symbols_list": ["foo", "bar", "baz"], "extern_all": None, "insn": sh.symbol(".extern")}
        I.call(metacommand_fn(I, ".extern"), [st, sh.symbol("foo"), sh.symbol("Later")], {})
        t = _table(comp.fields["extern_symbols_mapping"])
        return {k: (v[1][1] if isinstance(v, tuple) and isinstance(v[1], tuple) else v) for k, v in t.items()}, st["extern_all"]
    ps = I.explore(thunk_named)
    ck.instance(("extern-named",), {"'.extern foo, Later' exports": repr(ps[0].value)[:160]}, fn="metacommands::extern")
    if len(ps) != 1 or ps[0].kind != "return" or ps[0].value != ({"foo": ".internal1.foo", "later": ".internal1.Later"}, None):
        ck.violation("metacommands::extern", f"'.extern foo, Later' in a file that defines foo, bar, baz leaves the export map / the export-all flag as {ps[0].value!r}; expected foo and Later mapped to this file's "
                                             "private names and the flag untouched", construct="extern by name")
    # the other order: this file defined 'x' BEFORE its '.extern all', another file has exported an 'x' already
    def thunk2b():
        sh = Shapes(I)
        comp = I.instantiate(I.module_get("compiler", "Compiler"), [], {})
        other = {"local_symbol_prefix": ".local9.", "internal_symbol_prefix": ".internal9.", "compiler": comp, "internal_symbols_list": [], "extern_all": None}
        I.call_method(comp, "declare_external_symbol", [sh.symbol("x"), "x", other])
        st = {"local_symbol_prefix": ".local1.", "internal_symbol_prefix": ".internal1.", "compiler": comp, "internal_symbols_list": [], "extern_all": None,
              "insn": sh.symbol(".extern")}
        lab = sh.mk(I.module_get("types", "Label"), None, None, "x", False)
        I.call_method(comp, "compile_label", [lab, 0, st])
        lab2 = sh.mk(I.module_get("types", "Label"), None, None, "own", False)
        I.call_method(comp, "compile_label", [lab2, 0, st])
        n0 = len([e for e in I.effects if e[0] == "report" and e[2] == "duplicate-symbol"])
        I.call(metacommand_fn(I, ".extern"), [st, sh.symbol("all")], {})
        n1 = len([e for e in I.effects if e[0] == "report" and e[2] == "duplicate-symbol"])
        t = _table(comp.fields["extern_symbols_mapping"])
        return n1 - n0, t.get("x"), t.get("own")
    ps = I.explore(thunk2b)
    ck.instance(("extern-all-dup",), {"outcome": ps[0].kind, "value": repr(ps[0].value)[:160]}, fn="metacommands::extern")
    if len(ps) != 1 or ps[0].kind != "return":
        ck.violation("metacommands::extern", f"a definition of 'x', then '.extern all', when another file exported 'x' already: ends in {ps[0].value!r}", construct="extern all after own definition")
    else:
        dups, x, own = ps[0].value
        if dups < 1:
            ck.violation("metacommands::extern", "file B defines 'x' and then says '.extern all' while file A has already exported an 'x': no 'duplicate-symbol' error - a third file's reference "
                                                 "silently binds to A's definition", construct="extern all duplicate not reported")
        if own is None:
            ck.violation("metacommands::extern", "'.extern all' does not export the names the file defined before it", construct="extern all early names")
        if x is None or (isinstance(x, tuple) and isinstance(x[-1], tuple) and x[-1][-1] != ".internal9.x"):
            ck.violation("metacommands::extern", f"after the duplicate the exported 'x' is {x!r}; the first export (file A's) must stay", construct="extern duplicate keeps first")
    # the whole route: the '.extern all' STATEMENT, compiled by compile_block like any other, switches exporting on for the
    # statements after it (definition order must not matter: C03)
    def thunk3():
        sh = Shapes(I)
        I.module_get("metacommands", "extern")      # the package imports every module: the directive registry is complete
        comp = I.instantiate(I.module_get("compiler", "Compiler"), [], {})
        T = lambda n: I.module_get("types", n)
        stmts = [sh.mk(T("Label"), None, None, "early", False),
                 sh.mk(T("Instruction"), None, None, sh.symbol(".extern"), [sh.symbol("all")]),
                 sh.mk(T("Label"), None, None, "late", False),
                 sh.mk(T("Label"), None, None, "1", False),
                 sh.mk(T("Assignment"), None, None, sh.symbol("latec"), sh.xexpr(5, "5"), False)]
        block = sh.mk(T("CodeBlock"), None, None, stmts)
        f = Rec(ClassVal("FileStub"))
        f.fields.update(filename="a.mac", body=block)
        I.call_method(comp, "compile_file", [f, 0o1000, {"promise": None, "set_where": None}])
        t = _table(comp.fields["extern_symbols_mapping"])
        return sorted(k for k in t if isinstance(k, str))
    try:
        ps = I.explore(thunk3)
    except Unsupported as ex:
        raise Unknown(f"compile_file on [early:, .extern all, late:, latec = 5]: {ex}") from None
    where = "metacommands::extern"
    ck.instance(("extern-all-route",), {"exported after compiling [early:, .extern all, late:, latec = 5]": repr(ps[0].value)[:160]}, fn=where)
    if len(ps) != 1 or ps[0].kind != "return":
        return ck.incomplete(where, "compile_file on [early:, .extern all, late:, latec = 5]", ps)
    # '.extern all' concerns the file it is written in: an included file's '.extern all' does not export what the includer defines
    # after the '.include', and the includer's '.extern all' still holds after an included file has been compiled
    for who in ("included", "includer"):
        def thunk_inc(who=who):
            T = lambda n_: I.module_get("types", n_)
            sh = Shapes(I)
            comp = I.instantiate(I.module_get("compiler", "Compiler"), [], {})
            ext = lambda: sh.mk(T("Instruction"), None, None, sh.symbol(".extern"), [sh.symbol("all")])
            inner = [sh.mk(T("Label"), None, None, "incl", False)]
            if who == "included":
                inner.insert(0, ext())
            inc_file = Rec(ClassVal("FileStub"))
            inc_file.fields.update(filename="inc.mac", body=sh.mk(T("CodeBlock"), None, None, inner))
            I.summaries["parser::parse"] = lambda I_, fn_, a, k: inc_file
            I.summaries["devices::resolve_relative_path"] = lambda I_, fn_, a, k: "inc.mac"
            q_ = sh.mk(T("QuotedString"), None, None, '"', "inc.mac")
            outer = [sh.mk(T("Label"), None, None, "early", False)]
            if who == "includer":
                outer.append(ext())
            outer += [sh.mk(T("Instruction"), None, None, sh.symbol(".include"), [q_]), sh.mk(T("Label"), None, None, "after", False)]
            f = Rec(ClassVal("FileStub"))
            f.fields.update(filename="a.mac", body=sh.mk(T("CodeBlock"), None, None, outer))
            try:
                I.call_method(comp, "compile_file", [f, 0o1000, {"promise": None, "set_where": None}])
            finally:
                I.summaries.pop("parser::parse", None)
                I.summaries.pop("devices::resolve_relative_path", None)
            return sorted(k for k in _table(comp.fields["extern_symbols_mapping"]) if isinstance(k, str))
        try:
            pi = I.explore(thunk_inc)
        except Unsupported as ex:
            ck.unknown(f"'.extern all' across an include ({who}): {ex}")
            continue
        want = ["incl"] if who == "included" else ["after", "early"]
        ck.instance(("extern-all-include", who), {"'.extern all' written in the": who + " file", "exported": repr(pi[0].value) if pi and pi[0].kind == "return" else repr(pi)}, fn=where)
        if len(pi) != 1 or pi[0].kind != "return":
            ck.incomplete(where, f"a file that includes another, '.extern all' in the {who} file", pi)
        elif pi[0].value != want:
            ck.violation(where, f"'early: / {'.extern all / ' if who == 'includer' else ''}.include \"inc.mac\" / after:' with inc.mac = '{'.extern all / ' if who == 'included' else ''}incl:' exports {pi[0].value}, expected {want}: "
                                "'.extern all' concerns the definitions of the file it is written in, before and after it, and no other file's", construct="extern all across an include")
    if "1" in ps[0].value:
        ck.violation("compiler::Compiler.compile_label", f"a file 'early: / .extern all / late: / 1: / latec = 5' exports {ps[0].value}: the local label '1' belongs to the scope between two ordinary labels "
                                                          "and is never visible to other files, '.extern all' or not", construct="extern all exports a local label")
    missing = [n for n in ("early", "late", "latec") if n not in ps[0].value]
    if missing:
        ck.violation(where, f"a file 'early: / .extern all / late: / latec = 5' exports {ps[0].value}; {missing} missing: '.extern all' must export the names defined before it AND switch exporting on for every "
                            "definition after it in the same file (moving a definition across the directive must not change what other files can see)", construct="extern all reaches later statements")
    # parser: a local label cannot be exported ('1::' is refused and read as '1:'), ordinary labels carry their export flag
    from .c05 import run_parser
    I4 = lazy(repo)
    for text, want_name, want_extern, want_error in (("x::", "x", True, False), ("x:", "x", False, False), ("1:", "1", False, False), ("1::", "1", False, True), ("10$::", "10$", False, True), ("abc1::", "abc1", True, False)):
        r, pos, errs, raised = run_parser(I4, "label", text)
        got = (r.fields.get("name"), r.fields.get("is_extern")) if isinstance(r, Rec) else None
        ck.instance(("label-syntax", text), {"text": text, "label": repr(got), "errors": errs}, fn="parser::label")
        if raised or got != (want_name, want_extern) or bool(errs) != want_error:
            ck.violation("parser::label", f"the label '{text}' parses to (name, exported) = {got!r} with errors {errs} (raised {raised}); expected {(want_name, want_extern)!r} and "
                                          f"{'an error: a local label cannot be exported' if want_error else 'no error'}", construct="label export syntax")


def rule_R5x(ck):
    """references to local labels inside expressions: '10$' and '10$:' name the local label 10$, '1:' the local label 1, a bare '1'
    is a number (the local-label parser must decline it)"""
    from .c05 import run_parser
    repo = ck.repo
    I = lazy(repo)
    try:
        pre = I.explore(lambda: I.module_get("parser", "local_symbol_expression"))
    except Unsupported as ex:
        raise Unknown(f"the parser module does not fold: {ex}") from None
    if len(pre) != 1 or pre[0].kind != "return":
        raise Unknown(f"the parser module does not fold: {pre}")
    for text, want in (("10$", ("10$", False)), ("10$:", ("10$", True)), ("1:", ("1", True)), ("7", None), ("12", None)):
        try:
            r, pos, errs, raised = run_parser(I, "local_symbol_expression", text)
        except Unknown as ex:
            if "Unsupported" in str(ex) or "external call" in str(ex) or "not modelled" in str(ex):
                raise
            r, pos, errs, raised = None, 0, [], "no parse"
        got = (r.fields.get("name"), r.fields.get("is_necessarily_label")) if isinstance(r, Rec) else None
        ck.instance(("local-reference", text), {"text": text, "parsed as": repr(got), "declined": raised}, fn="parser::local_symbol_expression")
        if got != want or (want is not None and (raised or errs)):
            ck.violation("parser::local_symbol_expression", f"in an expression '{text}' is read as {got!r} (declined: {raised}); expected {want!r}" + (" - a bare number is a number, not a reference to a local label" if want is None else ""),
                         construct="local label reference syntax")


def rule_R6x(ck):
    """End to end on two files (real compile_label / declare_external_symbol / Symbol._resolve, abstractly executed):
    a reference in file B to a name file A exported resolves to A's definition; B's own definition takes precedence; a name
    A did NOT export is undefined in B; the order of the two files does not matter for the outcome."""
    repo = ck.repo
    I = lazy(repo)
    where = "types::Symbol._resolve"
    AX, AY, BX = sym.var("A.x", "int"), sym.var("A.y", "int"), sym.var("B.x", "int")

    def st(comp, n):
        return {"local_symbol_prefix": f".local{n}.", "internal_symbol_prefix": f".internal{n}.", "compiler": comp, "internal_symbols_list": [], "extern_all": None, "filename": f"f{n}.mac",
                "insn": None, "context": "file"}

    def scenario(b_defines_x, a_first):
        def thunk():
            sh = Shapes(I)
            comp = I.instantiate(I.module_get("compiler", "Compiler"), [], {})
            L = I.module_get("types", "Label")
            sa, sb = st(comp, 1), st(comp, 2)

            def file_a():
                I.call_method(comp, "compile_label", [sh.mk(L, None, None, "x", True), AX, sa])      # x::   exported
                I.call_method(comp, "compile_label", [sh.mk(L, None, None, "y", False), AY, sa])     # y:    private

            def file_b():
                if b_defines_x:
                    I.call_method(comp, "compile_label", [sh.mk(L, None, None, "x", False), BX, sb])
            (file_a, file_b)[0 if a_first else 1]()
            (file_a, file_b)[1 if a_first else 0]()
            out = {}
            for nm in ("x", "X", "y"):
                n0 = len([e for e in I.effects if e[0] == "report"])
                try:
                    v = I.call_method(sh.symbol(nm), "resolve", [sb])
                except Raised as ex:
                    v = "raised " + ex.exc.name
                out[nm] = (v, [e[2] for e in I.effects if e[0] == "report"][n0:])
            return out
        return I.explore(thunk)
    for b_defines_x in (False, True):
        for a_first in (True, False):
            ps = scenario(b_defines_x, a_first)
            tag = f"B {'defines its own x' if b_defines_x else 'has no x'}, {'A first' if a_first else 'B first'}"
            ck.instance(("cross-file", b_defines_x, a_first), {"scenario": tag, "x, X, y as seen from B": repr(ps[0].value)[:200] if ps else None}, fn=where)
            if len(ps) != 1 or ps[0].kind != "return":
                ck.violation(where, f"two files ({tag}): resolution does not complete on one path: {ps}", construct="cross-file resolution")
                continue
            out = ps[0].value
            want_x = BX if b_defines_x else AX
            for nm in ("x", "X"):
                v, errs = out[nm]
                if v != want_x or errs:
                    ck.violation(where, f"two files ({tag}): file A has 'x::' (exported) and 'y:' (private); in file B the reference '{nm}' evaluates to {v!r} with diagnostics {errs}, expected {want_x!r} "
                                        f"({'the file\'s own definition takes precedence' if b_defines_x else 'the exported definition of the other file'})", construct="cross-file resolution of an exported name")
            v, errs = out["y"]
            if "undefined-symbol" not in errs:
                ck.violation(where, f"two files ({tag}): 'y:' is private to file A, yet a reference to y in file B evaluates to {v!r} with diagnostics {errs}; expected 'undefined-symbol'", construct="private name visible in another file")


def run(ck):
    ck.run_rule("C11.R5x", "references to local labels in expressions: 10$, 10$:, 1: - and a bare number is a number", 5, rule_R5x)
    ck.run_rule("C11.R6x", "two files end to end: exported names cross files in either order, own definitions win, private names stay private", 4, rule_R6x)
    ck.run_rule("C11.R1", "writer/reader agreement of symbol-table keys; candidate order", 5, rule_R1)
    ck.run_rule("C11.R1k", "prefix grammar is injective (counter followed by a non-digit separator)", 3, rule_R1k)
    ck.run_rule("C11.R3", "fresh scope prefix per block and after each ordinary label; fresh file prefix per compilation", 2, rule_R3)
    ck.run_rule("C11.R4", "duplicate definitions are errors, case-insensitively, and keep the first binding", 4, rule_R4)
    ck.run_rule("C11.R5", "exports: '::'/'==', '.extern all', local labels", 4, rule_R5)
    ck.run_rule("C03.R8", "an exported binding is not accepted before the file's own definitions are known", 1, c03.rule_R8)
    ck.run_rule("C03.R1", "undefined symbols are reported only after deferring", 3, c03.rule_R1)
