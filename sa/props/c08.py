"""C08 - every input ends in a result or a reported error (the exception-escape half)."""
import ast

from ..engine import sym
from ..engine.loader import Unknown, norm_text
from ..engine.sym import is_sym
from ..rules import escape, partial, guards
from ..rules.directives import run_directive, unwrap
from ..rules.world import STATE, DOT, Shapes, eager_interp, metacommand
from . import c14, c15, c13, c01, c11
from . import c03
from . import c06

EXPLANATION = (
    "Decided: which exceptions can escape to the catch-all of main_cli from explicit raise/assert sites and from an "
    "enumerated set of partial operations. G2: every raise/assert reachable from the entry points (name-based call graph) "
    "must be discharged: RecoverableError is reported first on every path (must-dataflow) or is parser backtracking; "
    "control exceptions are contained; everything else must match a frozen, reasoned discharge table, several of whose "
    "entries are re-checked mechanically (D3: settle dominated by a settled-test, lookahead implies maybe, parser "
    "functions return on every path, table subscripts dominated by membership tests; D5: abstract methods overridden; "
    "D1t: type arguments of deferred constructors are classes). G3: optional parser results are None-tested. G10: "
    "dispatches ending in assert/raise cover the classes their producers build. G11: possibly-deferred values are only "
    "used with operations deferreds support. P1 division, P2 encode, P5 int(text, base), P6 struct slot ranges, P10 open, "
    "P11 chr, P12 unbounded multipliers. G12: no int-valued thunk forces its operand (recursion per link of a definition chain). G13: every while loop matches a termination template whose side conditions are read from the loop. G14: recursion through '.include' carries a depth guard. R.deliver: diagnostics reach the handler at once. NOT decided: termination of the lazy evaluation as a whole (cyclic definitions such as 'a = a' make wait() spin), running time, "
    "recursion depth, memory, implicit exceptions outside the enumerated kinds.")
ASSUMPTIONS = ["termination is decided only loop by loop (G13) and for the two recursions G12/G14; a = a is not decided", "implicit exceptions outside the enumerated partial operations are not decided", "the call graph is name based (over-approximate)"]
TRUSTED = ["the reasoned discharge table in sa/rules/escape.py", "python ast", "sa.engine.flow"]
LEVEL_TEXT = "An exception class that cannot escape cannot escape for any source text; the enumerated partial operations are checked at every call site."
LEVEL_NOTE = "half of the property only: termination and un-enumerated implicit exceptions are outside static reach and are not claimed"
TECHNIQUE = "exception-escape discipline over the call graph with must-dataflow discharge rules; guarded-call-site rules for partial operations; dispatch exhaustiveness"


def rule_P6(ck):
    """struct.pack slot ranges, on the normal forms produced by the abstract execution of the producers"""
    repo = ck.repo
    packs = []
    where = {}

    def note(expr, origin, cells=None):
        out = []
        partial.collect_packs(expr, out)
        for p in out:
            packs.append((p, origin, cells or {}))
    # directives
    for name, n in ((".byte", 1), (".word", 1), (".dword", 1)):
        paths, I = run_directive(repo, name, n)
        for p in paths:
            if p.kind == "return" and not p.reported():
                note(p.value, f"directive {name}")
    # .rad50: characters and <n>
    chars = [sym.var(f"c{i}", "str") for i in range(3)]
    I = eager_interp(repo, extra={"metacommand_impl::get_as_str": lambda I_, fn, a, k: chars})
    from ..rules.world import metacommand_fn

    def th():
        q = I.instantiate(I.module_get("types", "QuotedString"), [None, None, '"', "zzz"], {})
        return I.call(metacommand_fn(I, ".rad50"), [STATE, q], {})
    for p in I.explore(th):
        if p.kind == "return":
            note(p.value, "directive .rad50 (characters)")
    I = eager_interp(repo, opaque_get_as_int=False)
    N = I.add_cellvar("n")

    def th2():
        sh = Shapes(I)
        chs = [I.instantiate(I.module_get("types", "AngleBracketedChar"), [None, None, sh.xexpr(N, "n")], {})]
        c = I.instantiate(I.module_get("types", "StringConcatenation"), [None, None, chs + [I.instantiate(I.module_get("types", "QuotedString"), [None, None, '"', "99"], {})]], {})
        return I.call(metacommand_fn(I, ".rad50"), [STATE, c], {})
    try:
        for p in I.explore(th2):
            if p.kind == "return" and not p.reported():
                note(p.value, "directive .rad50 (<n> code)", dict(p.cells))
    except Exception as ex:   # the <n> form is also decided by C15
        ck.note(f".rad50 <n> packs not collected: {ex}")
    # instruction words
    for name in ("mov", "br", "emt"):
        paths, _ = c01.run_compile_insn(repo, name)
        for p in paths:
            if p.kind == "return":
                note(p.value, f"instruction {name}")
    XV = sym.var("X", "int")
    for shape in ("X(R)", "#X", "@#X", "X", "@X"):
        I3 = eager_interp(repo)

        def thunk():
            sh = Shapes(I3)
            operand = c01.build_shape(sh, shape, lambda: sh.symbol("r2"), sh.xexpr(XV, "X"))
            stub = I3.instantiate(I3.module_get("insns", "RegisterModeOperandStub"), ["d", [5, 4, 3, 2, 1, 0]], {})
            return I3.call_method(stub, "encode", [operand, STATE])
        for p in I3.explore(thunk):
            if p.kind == "return":
                note(p.value, f"operand {shape}")
    # containers
    Ic = eager_interp(repo)
    reg = Ic.explore(lambda: Ic.module_get("formats", "file_formats"))[0].value
    for nm in ("bin",):
        for p in Ic.explore(lambda: Ic.call(reg[nm], [c13.BASE, c13.CODE], {})):
            note(p.value, f"format {nm}")
    for p in Ic.explore(lambda: Ic.call(Ic.module_get("bk_wav", "make_wav_file"), [sym.var("data", "bytes"), 21428], {})):
        note(p.value, "make_wav_file")
    seen = set()
    for pk, origin, cells in packs:
        fmt = pk[2]
        args = pk[3:]
        codes = [ch for ch in fmt if ch.isalpha()]
        # expand counts like 16s / 4s: only single-letter codes matter for ints
        import re
        items = re.findall(r"(\d*)([a-zA-Z])", fmt)
        flat = []
        for cnt, ch in items:
            if ch == "s":
                flat.append("s")
            else:
                flat += [ch] * (int(cnt) if cnt else 1)
        for ch, a in zip(flat, args):
            if ch not in partial.SLOT:
                continue
            key = (origin, fmt, repr(a))
            if key in seen:
                continue
            seen.add(key)
            lo, hi = partial.SLOT[ch]
            b = partial.bound(a, cells)
            ck.instance(("slot", origin, fmt, repr(a)[:60]), {"origin": origin, "format": fmt, "slot": ch, "argument": repr(a)[:80], "bound": b}, fn=origin)
            if b is None:
                txt = repr(a)
                if txt in ("len(code)", "base", "(len(data)+36)", "len(data)"):
                    if ch == "H" and txt == "len(code)":
                        ck.violation("formats::bin_" if origin.startswith("format") else "bk_wav::encode_as_wav", f"{origin}: len(code) goes into a 16-bit slot of {fmt!r} without a bound: an image of 64 KiB or more raises struct.error (internal error)",
                                     construct="len(code) into a 16-bit slot")
                    continue
                ck.violation(origin, f"{origin}: argument {txt[:80]} of struct.pack({fmt!r}) has no bound for its '{ch}' slot ({lo}..{hi}): struct.error escapes as an internal error", construct=f"unbounded pack argument {txt[:60]}")
            elif b[0] < lo or b[1] > hi:
                ck.violation(origin, f"{origin}: argument {repr(a)[:80]} of struct.pack({fmt!r}) ranges over {b[0]}..{b[1]}, its '{ch}' slot holds {lo}..{hi}: struct.error escapes as an internal error",
                             construct=f"pack argument exceeds slot: {repr(a)[:60]}", expected=f"{lo}..{hi}", found=f"{b[0]}..{b[1]}")
    if len(seen) < 10:
        ck.unknown(f"only {len(seen)} struct.pack slots collected (17 confirmed by hand)")


def rule_control(ck):
    """D6: control exceptions are contained"""
    repo = ck.repo
    sites = escape.raise_sites(repo)
    nr = [q for q, fn, n, exc, g in sites if exc == "NotReadyError"]
    ck.instance("NotReadyError", {"raisers": nr}, fn="deferred::not_ready")
    if not nr or any(not (q_.split("::")[0] == "deferred" and q_.split("::")[1].split(".")[-1] == "not_ready") for q_ in nr):
        ck.violation("deferred::not_ready", f"NotReadyError is raised by {nr}; it may only be raised by not_ready() in try mode", construct="NotReadyError raisers")
    # (that it raises exactly in try mode is decided by abstract execution in C03.R3)
    # zero-operand metacommands are the only callers of stop_iteration
    I = eager_interp(repo)
    table = I.explore(lambda: (I.module_env("metacommands"), I.module_get("metacommand_impl", "metacommands"))[1])[0].value
    for name, cmd in sorted(table.items()):
        fn = cmd.fields["fn"]
        if any(isinstance(c, ast.Call) and isinstance(c.func, ast.Attribute) and c.func.attr == "stop_iteration" for c in ast.walk(fn.node)):
            ck.instance(("stopper", name), {"directive": name, "operands": cmd.fields["max_operands"]}, fn=f"metacommands::{fn.name}")
            if cmd.fields["max_operands"] != 0:
                ck.violation(f"metacommands::{fn.name}", f"'{name}' can stop the file but takes operands: its thunk may stay unevaluated and raise CompilerStopIteration later, outside compile_block's handler", construct=f"stopper with operands {name}")


TRICKY = ["", "\n", ";", "\"", "'", "mov", "mov ,", "(", ")", "<", ">", "^", "^x", "^/", ".", "..", "1:", "1::", "a=", "=1", ".ascii", '.ascii "', ".ascii /x", "{", "}", ".repeat 2 {", ".repeat {", "}}",
          "mov #", "mov @", "mov -(", "mov (r0", "mov (r0)+ +", "x = 1 +", "x = * 2", "x = 1 2", "x == ", "a: b: c:", "\t", "\x00", "\u00e9", "mov r0, r1, r2, r3", ".word ,", ".word 1,", "1, 2,", "'a'", '"ab"',
          "^rabcd", "0x", "0b2", "089", "10.", "1.5", ".end junk ((", "end", "insert_file", "make_raw <", ".include", ".byte <", "a = b = c", "mov #<1", "mov #^/1", "lab : nop", "nop ; c\x0b\x0c", "nop\r\nnop\r\n",
          "mov #2 *   , r0", ".word 1,, 2", "\tclr\t@#\t]", ". = ", ". = . +", "%", "mov %, r0", "clr @", "x = ^c", "x = ~", "x = -", "x = 1 _", "x = 'ab'c", ".rad50", ".rad50 /", "^r", "br 1$:", "1$", "$", "_", "a.b.c = 1",
          ".repeat 2 { .repeat 2 { nop } }", ".repeat 2 { nop", "nop }", "mov (r0)+, (r1)+ \t ", "x = 1 ; \"unterminated in a comment", ".ascii \"a\\\"b\"", ".ascii \"a\\", ".ascii \"a\\x4", "<<", ">>", "x = 1 >> > 2"]


def rule_parse_total(ck):
    """The statement parser, executed (abstractly) on a corpus of degenerate and malformed texts: it ends - within the step budget - in a
    parse tree, or in a failure that was preceded by an error diagnostic; never in another exception, never in silence."""
    from .c05 import run_parser
    from ..rules.world import eager_interp, emit_report_summary
    repo = ck.repo
    I = eager_interp(repo)
    I.summaries = {"reports::emit_report": emit_report_summary}
    I.explore(lambda: I.module_get("metacommands", "end"))
    where = "parser::code"
    loops = 0
    for text in TRICKY:
        if loops >= 3:
            # a parser that does not end on three texts is reported; running the rest of the corpus into the same budget adds nothing
            ck.instance(("parse-total", "remaining texts skipped"), {"after": "three texts on which the parser does not end"}, fn=where)
            for k_ in range(200):
                ck.instance(("parse-total", "skipped", k_), None, fn=where)
            break
        for variant in (text, text + "\n"):
            try:
                r, pos, errs, raised = run_parser(I, "code", variant)
            except Unknown as ex:
                ck.unknown(f"{variant!r}: {ex}")
                continue
            ck.instance(("parse-total", variant), {"text": variant, "outcome": "tree" if raised is None else raised, "errors": errs} if len(variant) % 5 == 0 else None, fn=where)
            if raised is None:
                continue
            if raised.startswith("NonTermination"):
                loops += 1
                ck.violation(where, f"parsing {variant!r} does not end: {raised}", construct="parser does not terminate")
            elif raised != "UnrecoverableError" or not errs:
                ck.violation(where, f"parsing {variant!r} ends in {raised} with the error diagnostics {errs}: a failure must be an UnrecoverableError that follows an error diagnostic "
                                    "(anything else is the 'unexpected internal compiler error' path, or a failure without a reason)", construct="parser failure without diagnostic")


def run(ck):
    ck.run_rule("C08.parse", "the statement parser on 220 degenerate and malformed texts: a tree, or a diagnosed failure - and it ends", 180, rule_parse_total)
    ck.run_rule("G0", "every module of the package imports without raising", 12, escape.rule_G0)
    ck.run_rule("G2", "explicit raise/assert sites are discharged (reported first, contained, or in the reasoned table)", 80, escape.rule_G2)
    ck.run_rule("G2.cycle", "DeferredCycle is caught and reported where values are awaited", 2, escape.rule_cycle)
    ck.run_rule("G2.typearg", "type arguments of deferred constructors are classes (D1t)", 30, escape.rule_typearg)
    ck.run_rule("G2.abstract", "abstract methods are overridden by every concrete class (D5)", 20, escape.rule_abstract)
    ck.run_rule("G2.D3", "local obligations: settle/settled, lookahead/maybe, parsers return, table subscripts", 30, escape.rule_D3)
    ck.run_rule("G2.D6", "control exceptions are contained", 2, rule_control)
    ck.run_rule("C03.R3", "not_ready() raises exactly in try mode; try scopes suppress exactly NotReadyError and restore their depth", 10, c03.rule_R3)
    ck.run_rule("G3", "optional parser results are None-tested before use", 10, escape.rule_G3)
    ck.run_rule("G10", "dispatch exhaustiveness", 4, escape.rule_G10)
    ck.run_rule("G11", "possibly-deferred values are only used the way deferreds can be used", 5, escape.rule_G11)
    ck.run_rule("G12", "evaluation depth does not grow with the length of a definition chain (RecursionError is an internal crash)", 6, escape.rule_G12)
    from ..rules import loops
    ck.run_rule("G13", "every while loop has a variant (template with side conditions read from the loop)", 15, loops.rule_G13)
    ck.run_rule("G14", "recursion through '.include' is bounded by a depth guard", 1, loops.rule_G14)
    from . import c07
    ck.run_rule("C07.R9b", "printing a diagnostic never raises: both handlers on every span position of small files", 1, c07.rule_R9b)
    ck.run_rule("G13n", "no primitive parser matches the empty string (a parser that matched has consumed input)", 40, loops.rule_G13n)
    from ..rules import route
    ck.run_rule("DIR.route", "a statement that is neither an instruction, a directive nor a constant is an error, never dropped silently; a refused RADIX-50 character still leaves a well-formed word", 5, route.rule_route, ("fallback", "rad50", "data"))
    from . import c16
    ck.run_rule("C16.R3", "'.once' cuts inclusion cycles: the counter is advanced before the body is compiled", 3, c16.rule_R3)
    from ..rules import deliver
    ck.run_rule("R.deliver", "a failure always comes with its diagnostic: reports are delivered at once, never withdrawn", 6, deliver.rule_deliver)
    ck.run_rule("P1", "divisions by program values are guarded", 3, partial.rule_P1)
    ck.run_rule("P2", "every .encode(charset) on program text is guarded by a reporting handler", 3, c14.rule_P2)
    ck.run_rule("P5", "int(text, base) conversions in number() are guarded", 4, partial.rule_P5)
    ck.run_rule("P6", "struct.pack arguments fit their slots", 10, rule_P6)
    ck.run_rule("P10", "open() of program-given paths: OSError and ValueError are reported", 3, partial.rule_P10)
    ck.run_rule("P11", "chr() of operand values: ValueError and OverflowError are reported", 1, partial.rule_P11)
    ck.run_rule("P12", "multipliers / ranges / exponents taken from operands are bounded", 2, partial.rule_P12)
    ck.run_rule("C06.R1c", "declared operands reach get_as_int / get_as_str as (state, what, statement token, operand token): a symbol operand does not die on a permuted call", 4, c06.rule_cook_contract)
    from ..rules import route as _route
    ck.run_rule("BLK.route", "implicit word lists, constants and labels compiled as statements of a block: values, byte order, the label's address", 1, _route.rule_block_route)
    from . import c17 as _c17
    ck.run_rule("C17.span", "tokens span their own text and Token.text() returns it (the branch encoder looks for '(' and ':' in the operand as written)", 150, _c17.rule_spans)
    from . import c18 as _c18
    ck.run_rule("G5.bal", "cycle detection bookkeeping (Awaiting) stays balanced when a cycle is found: DeferredCycle, not an AssertionError, reaches its handler", 18, _c18.rule_balance)
    from ..rules import escape as _esc
    ck.run_rule("G16", "no blanket handler inside the package: failures are reported or travel to the last-resort handler, never swallowed", 8, _esc.rule_G16)
    from . import c05 as _c05
    ck.run_rule("C05.R2", "division by zero and negative shift counts are reported and still leave a number (the statement around them is assembled on)", 28, _c05.rule_R2)
    ck.run_rule("C01.T5", "index operands with nested and stacked operators around the register part are rebuilt without dying ('mov @-a(r1), r0')", 10, c01.rule_T5)
    ck.run_rule("C03.R1u", "a name nobody defines: one error, then an integer value and no definition site (no None reaches arithmetic)", 1, c11.rule_undefined_value)
    ck.run_rule("C11.R5", "'.extern all' leaves a usable location (P7)", 4, c11.rule_R5)
    ck.run_rule("C03.R6", "operators applied to not-yet-known operands defer and later evaluate without raising", 9, c03.rule_R6)
