"""C06 - data directives store exactly the stated value or refuse."""
import ast
import pathlib

from ..engine import sym
from ..engine.interp import PyFn, Rec, Cell, Unsupported
from ..engine.loader import Unknown, norm_text
from ..engine.sym import is_sym
from ..rules import guards
from ..rules.directives import run_directive, unwrap, G
from ..rules.world import STATE, DOT, Shapes, eager_interp, metacommand

EXPLANATION = (
    "R0: the directive registry is folded from the @metacommand decorators and must contain every data directive. "
    "R1: get_as_int is decided by predicate abstraction for every (width, signedness, default) combination that occurs at "
    "a call site or is generated from an operand annotation: accept set (-2^n, 2^n) (non-negative if unsigned), value "
    "v mod 2^n, every other cell reaches an error diagnostic. R2/R3: each directive is abstractly executed through "
    "Metacommand.compile_insn with 0..3 symbolic operands; the bytes produced must be the reference normal form "
    "(operand typing, packing format, byte order, zero fill). R4: fill directives by parity cell of '.'. R5: word data "
    "at an odd '.' reaches an error in .word/.dword/implicit lists. R6: string chunks are encoded with the run charset, "
    "<n> is one byte 0..255, and the escape decision list of string_escape equals the reference table.")
ASSUMPTIONS = ["codecs other than 'bk' are the standard library's", "operand counts beyond 3 behave like 3 (the packing loop is uniform)"]
TRUSTED = ["ref/directives.txt", "sa.engine.interp"]
LEVEL_TEXT = "Guards decided for every integer (cells partition Z); packing normal forms hold for every operand value."
LEVEL_NOTE = "trusted: abstract interpreter; operand counts > 3 assumed uniform"
TECHNIQUE = "predicate abstraction of get_as_int + abstract interpretation of each directive to a byte-string normal form"

NEEDED = [".byte", ".word", ".dword", ".ascii", ".asciz", ".blkb", ".blkw", ".even", ".odd", ".align", ".rad50", ".repeat",
          ".include", ".once", ".end", "insert_file", "make_bin", "make_raw", "make_wav", "make_turbo_wav", ".link", ".extern", ".db", ".dw"]


def rule_R0(ck):
    I = eager_interp(ck.repo)

    def thunk():
        I.module_env("metacommands")
        return I.module_get("metacommand_impl", "metacommands")
    table = I.explore(thunk)[0].value
    ck.registry = {k: v.fields["fn"].name for k, v in table.items()}
    for name in NEEDED:
        ck.instance(("directive", name), {"directive": name, "function": ck.registry.get(name)}, fn="metacommands::<module>")
        if name not in table:
            ck.violation("metacommands::<module>", f"directive {name} is no longer registered", construct=f"directive {name}")
    expect_fn = {".byte": "byte", ".db": "byte", ".word": "word", ".dw": "word", ".dword": "dword", ".ascii": "ascii_", ".asciz": "asciz",
                 ".blkb": "blkb", ".blkw": "blkw", ".even": "even", ".odd": "odd", ".align": "align"}
    for name, fn in expect_fn.items():
        if name in ck.registry and ck.registry[name] != fn:
            ck.note(f"{name} is implemented by {ck.registry[name]}")
    # builtin_commands contains both instructions and directives
    bc = I.explore(lambda: I.module_get("builtins", "builtin_commands"))[0].value
    cont = bc.fields["container"]
    ck.instance("builtin_commands", {"entries": len(cont)}, fn="builtins::<module>")
    for name in NEEDED + ["mov", "br", "sob"]:
        if name.lower() not in cont:
            ck.violation("builtins::<module>", f"'{name}' is not among the commands the compiler dispatches on", construct=f"builtin {name}")


def int_call_sites(repo):
    """(bitness, unsigned, default) literal combinations at get_as_int call sites"""
    combos = {}
    for q, fn in repo.all_functions():
        for c in guards.calls_in(fn):
            f = c.func
            if (isinstance(f, ast.Name) and f.id == "get_as_int") or (isinstance(f, ast.Attribute) and f.attr == "get_as_int"):
                kw = {k.arg: k.value for k in c.keywords}
                try:
                    b = ast.literal_eval(kw["bitness"])
                    u = ast.literal_eval(kw["unsigned"])
                    d = ast.literal_eval(kw["default"]) if "default" in kw else None
                except (KeyError, ValueError):
                    continue   # the generic call in Metacommand.compile_insn.fn: covered by the annotation instances
                combos.setdefault((b, u, d), []).append(q)
    return combos


def rule_R1(ck):
    repo = ck.repo
    combos = int_call_sites(repo)
    for hint, (b, u) in {"int8": (8, False), "int16": (16, False), "int32": (32, False), "uint16": (16, True), "uint": (None, True),
                         "uint8": (8, True), "uint32": (32, True)}.items():
        combos.setdefault((b, u, None), []).append(f"annotation {hint}")
    where = "metacommand_impl::get_as_int"
    for (bits, unsigned, default), users in sorted(combos.items(), key=lambda kv: str(kv[0])):
        I = eager_interp(repo, opaque_get_as_int=False)
        V = I.add_cellvar("v")

        def thunk():
            sh = Shapes(I)
            tok = sh.xexpr(V, "v")
            return I.call(I.module_get("metacommand_impl", "get_as_int"), [STATE, "value", tok, tok], {"bitness": bits, "unsigned": unsigned, "default": default})
        lo = 0 if unsigned else (None if bits is None else -(2 ** bits) + 1)
        hi = None if bits is None else 2 ** bits - 1
        for p in I.explore(thunk):
            cell = p.cells[V]
            errs = [e[2] for e in p.reported()]
            ck.instance((bits, unsigned, default, repr(cell)), {"bitness": bits, "unsigned": unsigned, "default": default, "cell": repr(cell),
                                                               "outcome": f"{p.kind} {p.value!r}", "errors": errs, "used by": sorted(set(users))[:3]}, fn=where)
            inside = (lo is None or (cell.lo is not None and cell.lo >= lo)) and (hi is None or (cell.hi is not None and cell.hi <= hi))
            outside = (lo is not None and cell.hi is not None and cell.hi < lo) or (hi is not None and cell.lo is not None and cell.lo > hi)
            tag = f"get_as_int bitness={bits} unsigned={unsigned}"
            if not inside and not outside:
                ck.violation(where, f"{tag}: a guard boundary lies inside {cell}; the accepted range must be {lo}..{hi}", construct=f"{tag} bounds", expected=f"{lo}..{hi}", found=repr(cell))
            elif inside:
                want = V if bits is None else sym.mod(V, 2 ** bits)
                if errs or p.kind != "return":
                    ck.violation(where, f"{tag}: legal values {cell} are refused", construct=f"{tag} bounds", expected=f"{lo}..{hi} accepted", found=f"{cell} refused")
                elif p.value != want and not (cell.lo is not None and cell.lo >= 0 and p.value == V):
                    ck.violation(where, f"{tag}: value in {cell} is returned as {p.value!r}, expected {want!r}", construct=f"{tag} value", expected=repr(want), found=repr(p.value))
            else:
                if not errs:
                    ck.violation(where, f"{tag}: values {cell} outside {lo}..{hi} are accepted without an error (silent truncation)", construct=f"{tag} bounds", expected="error", found="accepted")
                elif p.kind == "return" and (default is None or p.value != default):
                    ck.violation(where, f"{tag}: after the error the value {p.value!r} is returned" + (f" instead of the default {default!r}" if default is not None else "; without a default the operand must be abandoned (RecoverableError): None reaches struct.pack / arithmetic"),
                                 construct=f"{tag} default")
                elif p.kind == "raise" and (default is not None or p.value.name != "RecoverableError"):
                    ck.violation(where, f"{tag}: refused values must raise RecoverableError (no default) or return the default; got {p.value!r}", construct=f"{tag} refusal")
    # an operand whose value is still a deferred object (a promise that is settled by now, a thunk) is evaluated, not refused
    I = eager_interp(repo, opaque_get_as_int=False)
    I.summaries = {"reports::emit_report": I.summaries["reports::emit_report"]}

    def thunk_d():
        sh = Shapes(I)
        bt = I.builtin_types["int"]
        pr = I.instantiate(I.module_get("deferred", "Promise"), [bt, "p"], {})
        I.call_method(pr, "settle", [5])
        th = I.instantiate(I.module_get("deferred", "Deferred"), [bt, PyFn(lambda I_, a, k: 200)], {})
        out = []
        for v in (pr, th):
            tok = sh.xexpr(v, "v")
            out.append(I.call(I.module_get("metacommand_impl", "get_as_int"), [{"emit_address": 0}, "value", tok, tok], {"bitness": 8, "unsigned": False}))
        return out
    ps = I.explore(thunk_d)
    ck.instance("deferred-operand", {"get_as_int of a settled promise (5) and a thunk (200), 8 bits": repr(ps[0].value) if ps else None}, fn=where)
    if len(ps) != 1 or ps[0].kind != "return" or ps[0].value != [5, 200] or ps[0].reported():
        ck.violation(where, f"get_as_int on operands whose values are deferred objects (a promise settled to 5, a thunk giving 200; 8 bits) gives {ps[0].value if ps else None!r} with diagnostics "
                            f"{[e[2] for p_ in ps for e in p_.reported()]}; expected [5, 200]: a forward reference must be evaluated before its type and range are judged", construct="get_as_int does not wait")
    # a value that is not an integer is an error
    I = eager_interp(repo, opaque_get_as_int=False)

    def thunk2():
        sh = Shapes(I)
        tok = sh.xexpr("text", "s")
        return I.call(I.module_get("metacommand_impl", "get_as_int"), [STATE, "value", tok, tok], {"bitness": 8, "unsigned": False})
    ps = I.explore(thunk2)
    ck.instance("non-int", None, fn=where)
    if not all(p.reported() and p.kind == "raise" for p in ps):
        ck.violation(where, "a string where a number is expected is not refused with an error", construct="get_as_int type guard")


def expect_data(name, xs):
    X = [sym.var(f"X{j}", "int") for j in range(xs)]
    if name in (".byte", ".db"):
        if not xs:
            return b"\x00"
        out = b""
        for x in X:
            out = sym.cat(out, sym.pack("<B", G(x, 8, False)))
        return out
    if name in (".word", ".dw", "(list)"):
        if not xs:
            return b"\x00\x00"
        out = b""
        for x in X:
            out = sym.cat(out, sym.pack("<H", G(x, 16, False)))
        return out
    if name == ".dword":
        if not xs:
            return b"\x00\x00\x00\x00"
        out = b""
        for x in X:
            g = G(x, 32, False)
            out = sym.cat(out, sym.cat(sym.pack("<H", sym.shr(g, 16)), sym.pack("<H", sym.band(g, 0xffff))))
        return out
    raise Unknown(name)


def rule_R23(ck):
    repo = ck.repo
    for name in (".byte", ".db", ".word", ".dw", ".dword"):
        for n in range(0, 4):
            paths, I = run_directive(repo, name, n)
            where = f"metacommands::{ck.registry.get(name, name) if hasattr(ck, 'registry') else name}"
            for p in paths:
                dot = p.cells[DOT]
                odd = dot.par == 1
                errs = [e[2] for e in p.reported()]
                ck.instance((name, n, dot.par), {"directive": name, "operands": n, "'.' parity": dot.par, "result": repr(p.value)[:160], "errors": errs} if n in (0, 2) else None, fn=where)
                if p.kind != "return":
                    ck.violation(where, f"{name} with {n} operands raises {p.value!r}", construct=f"{name} raise")
                    continue
                size, val = unwrap(p.value)
                word_sized = name not in (".byte", ".db")
                if word_sized and odd:
                    if "odd-address" not in errs:
                        ck.violation(where, f"{name} at an odd address is not reported as an error", construct=f"{name} odd address", rule="C06.R5")
                    continue
                if word_sized and dot.par is None:
                    ck.violation(where, f"{name} does not distinguish odd from even addresses", construct=f"{name} odd address", rule="C06.R5")
                    continue
                if errs:
                    ck.violation(where, f"{name} with {n} well-formed operands at an even address reports {errs}", construct=f"{name} spurious error")
                    continue
                want = expect_data(name, n)
                if val != want:
                    ck.violation(where, f"{name} with {n} operands produces {val!r}, expected {want!r}", construct=f"{name} packing", expected=repr(want), found=repr(val))
    # implicit word list: Compiler.compile_word_list
    for n in range(1, 4):
        I = eager_interp(repo)
        I.add_cell(DOT)

        def thunk():
            sh = Shapes(I)
            comp = I.instantiate(I.module_get("compiler", "Compiler"), [], {})
            words = [sh.xexpr(sym.var(f"X{j}", "int"), f"X{j}") for j in range(n)]
            insn = I.instantiate(I.module_get("types", "WordList"), [None, None, words], {})
            return I.call_method(comp, "compile_word_list", [insn, words, STATE])
        where = "compiler::Compiler.compile_word_list"
        for p in I.explore(thunk):
            dot = p.cells[DOT]
            errs = [e[2] for e in p.reported()]
            ck.instance(("(list)", n, dot.par), {"implicit list": n, "'.' parity": dot.par, "result": repr(p.value)[:160]} if n == 2 else None, fn=where)
            if p.kind != "return":
                ck.violation(where, f"implicit word list raises {p.value!r}", construct="word list raise")
                continue
            size, val = unwrap(p.value)
            if dot.par == 1:
                if "odd-address" not in errs:
                    ck.violation(where, "an implicit word list at an odd address is not reported as an error", construct="word list odd address", rule="C06.R5")
                continue
            if dot.par is None:
                ck.violation(where, "implicit word lists do not distinguish odd from even addresses", construct="word list odd address", rule="C06.R5")
                continue
            want = expect_data("(list)", n)
            if val != want or errs:
                ck.violation(where, f"implicit word list of {n} produces {val!r} (errors {errs}), expected {want!r} like .word", construct="word list packing", expected=repr(want), found=repr(val))


def rule_R4(ck):
    repo = ck.repo
    X0 = sym.var("X0", "int")
    for name, unit in ((".blkb", b"\x00"), (".blkw", b"\x00\x00")):
        paths, I = run_directive(repo, name, 1, dot_cell=False)
        where = f"metacommands::{name[1:]}"
        ck.instance((name,), {"directive": name, "result": repr(paths[0].value)}, fn=where)
        want = sym.rep(unit, G(X0, 16, True))
        size, val = unwrap(paths[0].value)
        if len(paths) != 1 or paths[0].kind != "return" or val != want:
            ck.violation(where, f"{name} n produces {val!r}, expected {len(unit)}*n zero bytes with n an unsigned 16-bit count: {want!r}", construct=f"{name} fill", expected=repr(want), found=repr(val))
    for name, when in ((".even", 1), (".odd", 0)):
        paths, I = run_directive(repo, name, 0)
        where = f"metacommands::{name[1:]}"
        for p in paths:
            par = p.cells[DOT].par
            size, val = unwrap(p.value)
            ck.instance((name, par), {"directive": name, "'.' parity": par, "result": repr(val)}, fn=where)
            want = b"\x00" if par == when else b""
            if par is None or p.kind != "return" or val != want or p.reported():
                ck.violation(where, f"{name} at {'an odd' if par == 1 else 'an even' if par == 0 else 'any'} address emits {val!r}, expected {want!r}", construct=f"{name} fill", expected=repr(want), found=repr(val))
    paths, I = run_directive(repo, ".align", 1, dot_cell=False)
    where = "metacommands::align"
    rets = [p for p in paths if p.kind == "return" and not p.reported()]
    ck.instance((".align",), {"directive": ".align", "result": [repr(p.value) for p in rets]}, fn=where)
    want = sym.rep(b"\x00", sym.mod(sym.neg(DOT), G(X0, None, True)))
    if not rets or any(unwrap(p.value)[1] != want for p in rets):
        ck.violation(where, f".align n emits {[repr(unwrap(p.value)[1]) for p in rets]}, expected (-'.') mod n zero bytes: {want!r}", construct=".align fill", expected=repr(want))


def rule_R6(ck):
    repo = ck.repo
    CH = sym.op("item", sym.op("attr", STATE["compiler"] if False else sym.op("item", STATE, "compiler"), "output_charset"))  if False else sym.op("attr", sym.op("item", STATE, "compiler"), "output_charset")
    STR = sym.var("STR", "str")
    for name, tail in ((".ascii", b""), (".asciz", b"\x00")):
        def build(sh, I):
            q = I.instantiate(I.module_get("types", "QuotedString"), [None, None, '"', "zz"], {})
            q.fields["ctx_start"] = sym.var("q.ctx_start", "obj")
            return [q]
        paths, I = run_directive(repo, name, build=build, dot_cell=False, extra={"metacommand_impl::get_as_str": lambda I_, fn, a, k: STR})
        where = "metacommands::ascii_impl"
        size, val = unwrap(paths[0].value)
        want = sym.cat(sym.op("encode", STR, CH), tail)
        ck.instance((name, "string"), {"directive": name, "result": repr(val)}, fn=where)
        if len(paths) != 1 or paths[0].kind != "return" or val != want:
            ck.violation(where, f"{name} \"s\" produces {val!r}, expected the string encoded with the run's output charset{' plus one zero byte' if tail else ''}: {want!r}",
                         construct=f"{name} encoding", expected=repr(want), found=repr(val))
        # <n> chunk
        N = sym.var("n", "int")

        def build2(sh, I):
            return [I.instantiate(I.module_get("types", "AngleBracketedChar"), [None, None, sh.xexpr(N, "n")], {})]
        paths, I = run_directive(repo, name, build=build2, dot_cell=False)
        size, val = unwrap(paths[0].value)
        want = sym.cat(sym.op("byte", G(N, 8, True, 0)), tail)
        ck.instance((name, "<n>"), {"directive": name, "result": repr(val)}, fn=where)
        if len(paths) != 1 or paths[0].kind != "return" or val != want:
            ck.violation(where, f"{name} <n> produces {val!r}, expected one byte n (0..255){' plus a zero byte' if tail else ''}: {want!r}", construct=f"{name} <n>", expected=repr(want), found=repr(val))
        # mixed: string <n> string keeps order
        def build3(sh, I):
            q1 = I.instantiate(I.module_get("types", "QuotedString"), [None, None, '"', "a"], {})
            q2 = I.instantiate(I.module_get("types", "QuotedString"), [None, None, '"', "b"], {})
            a = I.instantiate(I.module_get("types", "AngleBracketedChar"), [None, None, sh.xexpr(N, "n")], {})
            return [I.instantiate(I.module_get("types", "StringConcatenation"), [None, None, [q1, a, q2]], {})]
        S1, S2 = sym.var("S1", "str"), sym.var("S2", "str")
        seq = iter(())
        calls = []

        def gas(I_, fn, a, k):
            tok = a[3]
            s = tok.fields.get("string")
            return {"a": S1, "b": S2}.get(s, STR)
        paths, I = run_directive(repo, name, build=build3, dot_cell=False, extra={"metacommand_impl::get_as_str": gas})
        size, val = unwrap(paths[0].value)
        want = sym.cat(sym.cat(sym.cat(sym.op("encode", S1, CH), sym.op("byte", G(N, 8, True, 0))), sym.op("encode", S2, CH)), tail)
        ck.instance((name, "mixed"), None, fn=where)
        if len(paths) != 1 or val != want:
            ck.violation(where, f"{name} \"a\"<n>\"b\" produces {val!r}, expected the chunks in order: {want!r}", construct=f"{name} chunk order", expected=repr(want), found=repr(val))


REF_ESCAPES = {"n": "\n", "r": "\r", "t": "\t", "\\": "\\", '"': '"', "'": "'", "/": "/", "\n": ""}


def rule_escapes(ck):
    """string_escape decided by complete valuation over the escape letter: every ASCII character (and one non-ASCII one)
    after the backslash, run through the real combinators inside the interpreter"""
    from .c05 import run_parser
    repo = ck.repo
    where = "parser::string_escape"
    I = eager_interp(repo)
    n = 0
    for code in list(range(128)) + [0xE9]:
        ch = chr(code)
        text = "\\" + ch + "41 rest"
        r, pos, errs, raised = run_parser(I, "string_escape", text)
        n += 1
        low = ch.lower()
        if low in REF_ESCAPES:
            want, want_pos, want_err = REF_ESCAPES[low], 2, False
        elif low == "x":
            want, want_pos, want_err = "A", 4, False
        else:
            want, want_pos, want_err = "", 2, True
        ck.instance(("escape", code), {"escape": "\\" + ch, "gives": repr(r), "errors": errs} if ch in "nNtx\\q" else None, fn=where)
        if raised:
            ck.violation(where, f"escape '\\{ch!r}' raises {raised}", construct="escape raises")
            continue
        if r != want or bool(errs) != want_err:
            ck.violation(where, f"escape backslash + {ch!r} gives {r!r} (errors {errs}); documented: {want!r}{' with an error' if want_err else ''} (letters in either case)",
                         construct=f"escape {low!r}", expected=repr(want), found=repr(r))
        elif pos != want_pos:
            ck.violation(where, f"escape backslash + {ch!r} consumes {pos} characters, expected {want_pos}", construct=f"escape extent {low!r}")
    # a bad hex escape and a lone backslash at the end are errors, not crashes
    for text in ("\\xZZ", "\\x4", "\\"):
        r, pos, errs, raised = run_parser(I, "string_escape", text)
        ck.instance(("escape-bad", text), {"text": text, "result": repr(r), "errors": errs, "raised": raised}, fn=where)
        if raised not in (None, "UnrecoverableError") or not errs:
            ck.violation(where, f"malformed escape {text!r}: result {r!r}, errors {errs}, raised {raised}; expected an error diagnostic", construct="malformed escape")



def rule_cook_contract(ck):
    """Metacommand.compile_insn hands every declared operand to get_as_int / get_as_str as (state, what-for text, the statement's
    token, the operand's token): the state is what a symbol operand is resolved in, the tokens are what a type-mismatch
    diagnostic underlines. A literal operand hides a permutation (its value needs no state); a symbol operand dies on it."""
    repo = ck.repo
    where = "metacommand_impl::Metacommand.compile_insn"
    n = 0
    for name, kind in ((".blkb", "int"), (".even", "int"), ("make_raw", "str"), (".include", "str"), (".rad50", "str"), (".ascii", "str")):
        seen = []

        def rec(which):
            def f(I_, fn, a, k):
                names = ["state", "what", "token", "arg_token"]
                b = dict(zip(names, a))
                b.update({k_: v for k_, v in k.items() if k_ in names})
                seen.append((which, b))
                return sym.var("STR", "str") if which == "get_as_str" else sym.var("INT", "int")
            return f
        ops = []

        def build(sh, I):
            del ops[:]
            del seen[:]
            if kind == "int":
                ops.append(sh.xexpr(sym.var("X0", "int"), "X0"))
            else:
                q = I.instantiate(I.module_get("types", "QuotedString"), [None, None, '"', "zz"], {})
                q.fields["ctx_start"] = sym.var("q.ctx_start", "obj")
                ops.append(q)
            return list(ops)
        try:
            paths, I = run_directive(repo, name, build=build, dot_cell=False, extra={"metacommand_impl::get_as_str": rec("get_as_str"), "metacommand_impl::get_as_int": rec("get_as_int"),
                                                                                   "devices::resolve_relative_path": lambda I_, fn, a, k: sym.var("PATH", "str"),
                                                                                   "parser::parse": lambda I_, fn, a, k: sym.var("AST", "obj"),
                                                                                   "compiler::Compiler.compile_include": lambda I_, fn, a, k: b""})
        except (Unknown, Unsupported):
            continue
        calls = list(seen)
        if not calls:
            continue
        n += 1
        which, b = calls[0]
        ck.instance(("cook", name), {"directive": name, "cooked by": which, "what": b.get("what") if isinstance(b.get("what"), str) else repr(b.get("what"))}, fn=where)
        tok = b.get("token")
        ok = b.get("state") == STATE and (isinstance(b.get("what"), str) or (is_sym(b.get("what")) and sym.kind(b.get("what")) == "str")) and ops and b.get("arg_token") is ops[0] \
            and (tok == sym.op("item", STATE, "insn") or (isinstance(tok, Rec) and tok.cls.name == "Instruction"))
        if not ok:
            ck.violation(where, f"'{name}' hands its operand to {which}(state={_short(b.get('state'))}, what={_short(b.get('what'))}, token={_short(b.get('token'))}, arg_token={_short(b.get('arg_token'))}); "
                                "expected (the statement's state, a text naming the operand, the statement's token, the operand's token): a symbol operand is resolved in that state, "
                                "and a wrong operand type is reported on those tokens", construct=f"operand cooking contract ({which})")
    if n < 4:
        ck.unknown(f"only {n} directives reach get_as_int / get_as_str with a declared operand")


def _short(v):
    if isinstance(v, Rec):
        return f"<{v.cls.name}>"
    return repr(v)[:40]


def run(ck):
    ck.run_rule("C06.R0", "directive registry contains the data directives", 24, rule_R0)
    ck.run_rule("C06.R1", "get_as_int: accept interval and reduction per (width, signedness, default)", 20, rule_R1)
    ck.run_rule("C06.R1c", "declared operands reach get_as_int / get_as_str as (state, what, statement token, operand token)", 4, rule_cook_contract)
    from ..rules import route as _route
    ck.run_rule("BLK.route", "implicit word lists, constants and labels compiled as statements of a block: values, byte order, the label's address", 1, _route.rule_block_route)
    from . import c03 as _c03
    ck.run_rule("C03.R7", "data operands built from constants defined by forward reference: the polynomial arithmetic behind them", 18, _c03.rule_R7)
    ck.run_rule("C06.R23", ".byte/.word/.dword/implicit list: typing, packing, byte order, odd-address guard", 30, rule_R23)
    ck.run_rule("C06.R4", ".blkb/.blkw/.even/.odd/.align fill", 7, rule_R4)
    ck.run_rule("C06.R6", ".ascii/.asciz: charset, <n> bytes, chunk order", 6, rule_R6)
    ck.run_rule("C06.R6e", "string escapes: complete valuation over the ASCII escape letters", 129, rule_escapes)
    from ..rules import route
    ck.run_rule("DIR.route", "data and string directives as statements: operands cooked by annotation, real string pieces ('<n>' characters)", 7, route.rule_route, ("strings", "data"))
    from . import c16
    ck.run_rule("C16.R2", "alignment fill and word data inside a repeated body are computed at each copy's own address", 4, c16.rule_R2)
    from ..rules import partial
    ck.run_rule("P1", "'.align 0' and other divisions by program values are guarded", 3, partial.rule_P1)
    from . import c02
    ck.run_rule("C02.R1", "announced size == produced length (the fill of .even/.odd/.align is computed from addresses built on these sizes)", 40, c02.rule_R1)
    from . import c14
    ck.run_rule("C14.fn", "an unencodable character is refused by the codec (no fast path around the table)", 30, c14.rule_functions)
