"""C01 - machine-code fidelity: opcode table, synonyms, addressing-mode decision list, bit substitution,
value ranges vs field widths."""
import pathlib

from ..engine import sym
from ..engine.interp import Rec, Raised, PyFn, Bound, Closure, Unsupported
from ..engine.loader import Unknown
from ..engine.sym import is_sym
from ..rules import world
from ..rules.world import STATE, DOT, REL, Shapes, eager_interp

REF = pathlib.Path(__file__).resolve().parent.parent.parent / "ref"

EXPLANATION = (
    "Static decision of the input-independent part of instruction encoding. T1: insns.init() is folded over the literal "
    "instruction_opcodes table by an abstract interpreter (nothing is imported); every resulting row (fixed bits, operand "
    "order, kinds, field positions) is compared with the hand-written ISA reference ref/pdp11_isa.txt. S: synonyms have "
    "identical derived layouts. T2: RegisterModeOperandStub/FP11RMOperandStub.encode are abstractly executed on the 16 "
    "canonical operand shapes with the operand value kept symbolic; mode numbers and extension words are compared with "
    "ref/modes.txt. T3: Instruction.compile_insn is abstractly executed on every folded row with symbolic operand values: "
    "every instruction bit must be the template bit or bit k of the right operand, packed little-endian, followed by the "
    "operand words in order. T4: the interval of every inline value fits its field width.")
ASSUMPTIONS = ["the parser produces the operand shapes assumed by T2 (not decided)", "hoisting of a+b(r) is not decided here (C16 checks that it does not mutate the tree)"]
TRUSTED = ["ref/pdp11_isa.txt (221 independent rows, 31 frozen)", "ref/modes.txt", "python ast", "sa.engine.interp"]
LEVEL_TEXT = ("Necessary conditions of the property decided for all inputs: table rows, decision-list arms and bit positions are "
              "input independent, so checking every folded row and every arm covers every operand value and link base. "
              "Not a proof of the whole behaviour: the parser and hoisting are outside.")
LEVEL_NOTE = "trusted: the ISA reference under ref/, the abstract interpreter; assumed: parser yields the canonical operand shapes"
TECHNIQUE = "closed-term folding of the opcode table + abstract interpretation of the encoders on symbolic operands, compared with a hand-written ISA reference"

KIND = {"RegisterOperandStub": "reg", "RegisterModeOperandStub": "rm", "FP11RMOperandStub": "frm", "FP11AccumulatorOperandStub": "ac"}
WIDTH = {"reg": 3, "rm": 6, "frm": 6, "ac": 2}


def load_isa_ref():
    ref = {}
    for line in (REF / "pdp11_isa.txt").read_text().splitlines():
        line = line.split("#")[0].strip()
        if not line:
            continue
        parts = line.split()
        name, base, src = parts[0], int(parts[1], 8), parts[2]
        ops = [p for p in parts[3:] if not p.startswith("=")]
        syn = [p[1:] for p in parts[3:] if p.startswith("=")]
        ref[name] = (base, src, ops, syn)
    return ref


def fold_table(repo):
    """-> {mnemonic: (pattern, [(cls, pattern_char, bit_indexes, unsigned|None)])} by folding insns.init()"""
    I = eager_interp(repo)
    paths = I.explore(lambda: I.module_get("insns", "instructions"))
    if len(paths) != 1 or paths[0].kind != "return":
        raise Unknown(f"folding insns module did not give a single result: {paths}")
    rec = paths[0].value
    if not isinstance(rec, Rec) or "container" not in rec.fields:
        raise Unknown("insns.instructions is not the expected case-insensitive container")
    table = {}
    for key, (name, insn) in rec.fields["container"].items():
        missing_i = [f_ for f_ in ("operands", "opcode_pattern") if f_ not in insn.fields]
        if missing_i:
            from ..report import Defect
            raise Defect("insns::Instruction.__init__", f"the Instruction object of '{name}' has no attribute {missing_i}: compile_insn reads self.operands and self.opcode_pattern, so every instruction dies with AttributeError",
                         "instruction object attributes")
        stubs = []
        for st in insn.fields["operands"]:
            missing = [f_ for f_ in ("pattern_char", "bit_indexes") if f_ not in st.fields]
            if missing:
                from ..report import Defect
                raise Defect(f"insns::{st.cls.name}.__init__", f"the {st.cls.name} operand of '{name}' has no attribute {missing}: Instruction.compile_insn reads stub.pattern_char and stub.bit_indexes "
                                                               "for every operand, so every instruction with such an operand dies with AttributeError", "operand stub attributes")
            stubs.append((st.cls.name, st.fields["pattern_char"], list(st.fields["bit_indexes"]), st.fields.get("unsigned")))
        table[name] = (insn.fields["opcode_pattern"], stubs, insn.fields.get("name"))
    return table


def derive_layout(name, pat, stubs):
    """-> (base, [opspec], problems)"""
    problems = []
    if len(pat) != 16:
        problems.append(f"pattern has {len(pat)} bits")
        return None, None, problems
    base = int("".join(c if c in "01" else "0" for c in pat), 2)
    ops = []
    used = set()
    for cls, ch, idx, unsigned in stubs:
        pos = [i for i, c in enumerate(pat) if c == ch]
        try:
            bits = [15 - pos[j] for j in idx]      # value bit k -> instruction bit
        except IndexError:
            problems.append(f"stub {cls}({ch!r}) indexes beyond the {len(pos)} pattern positions")
            continue
        if set(bits) & used:
            problems.append(f"field {ch!r} overlaps another operand")
        used |= set(bits)
        lsb = bits[0] if bits else None
        if bits != list(range(lsb, lsb + len(bits))):
            problems.append(f"value bits of {cls}({ch!r}) map to instruction bits {bits}, not an ascending run")
        if cls in KIND:
            k = KIND[cls]
            if len(bits) != WIDTH[k]:
                problems.append(f"{cls} has {len(bits)} bits, expected {WIDTH[k]}")
            ops.append(f"{k}@{lsb}")
        elif cls == "OffsetOperandStub":
            ops.append(("off6u" if unsigned else "off8") if (lsb == 0 and len(bits) == (6 if unsigned else 8)) else f"off{len(bits)}{'u' if unsigned else ''}@{lsb}")
        elif cls == "ImmediateOperandStub":
            ops.append(f"imm{len(bits)}{'u' if unsigned else 's'}" + ("" if lsb == 0 else f"@{lsb}"))
        else:
            problems.append(f"unknown stub class {cls}")
    fieldbits = {15 - i for i, c in enumerate(pat) if c not in "01"}
    if fieldbits != used:
        problems.append(f"non-fixed bits {sorted(fieldbits)} are not exactly covered by the operands ({sorted(used)})")
    return base, ops, problems


def rule_T1(ck):
    table = fold_table(ck.repo)
    ref = load_isa_ref()
    ck.table = table
    where = "architecture::instruction_opcodes"
    for name in sorted(set(table) - set(ref)):
        ck.unknown(f"mnemonic '{name}' has no row in ref/pdp11_isa.txt (cannot be judged)")
    for name in sorted(set(ref) - set(table)):
        ck.violation(where, f"mnemonic '{name}' of the ISA reference is not accepted by the assembler any more", construct=f"row {name}")
    for name, (pat, stubs, iname) in sorted(table.items()):
        if name not in ref:
            continue
        base, ops, problems = derive_layout(name, pat, stubs)
        rb, src, rops, syn = ref[name]
        ck.instance(("T1", name), {"mnemonic": name, "pattern": pat, "derived": [oct(base) if base is not None else None, ops], "reference": [oct(rb), rops], "source": src}, fn="insns::init")
        for p in problems:
            ck.violation(where, f"'{name}': {p}", construct=f"row {name}")
        if problems:
            continue
        if base != rb or ops != rops:
            ck.violation(where, f"'{name}' encodes as base {base:06o} operands {ops}; the PDP-11 encoding is base {rb:06o} operands {rops}",
                         construct=f"row {name}", expected=f"{rb:06o} {rops}", found=f"{base:06o} {ops}")
        if iname != name:
            ck.violation("insns::init", f"instruction registered under '{name}' is named '{iname}'", construct=f"row {name}")


def rule_S(ck):
    table = getattr(ck, "table", None) or fold_table(ck.repo)
    ref = load_isa_ref()
    for name, (rb, src, rops, syn) in sorted(ref.items()):
        for target in syn:
            if name not in table or target not in table:
                ck.unknown(f"synonym pair {name}={target}: a member is missing from the folded table")
                continue
            a = derive_layout(name, *table[name][:2])[:2]
            b = derive_layout(target, *table[target][:2])[:2]
            ck.instance(("S", name, target), {"synonym": name, "of": target, "layout": [oct(a[0]), a[1]]})
            if a != b:
                ck.violation("architecture::instruction_opcodes", f"synonym '{name}' does not encode like '{target}'",
                             construct=f"row {name}", expected=f"{b[0]:06o} {b[1]}", found=f"{a[0]:06o} {a[1]}")


# --------------------------------------------------------------------------- T2
def load_modes_ref():
    import re
    rows = []
    for line in (REF / "modes.txt").read_text().splitlines():
        if not line.strip() or (line.startswith("#") and not line.startswith("#X")):
            continue
        parts = line.split()
        if len(parts) < 3 or not re.fullmatch(r"[0-7][0-7RN]", parts[1]):
            continue
        rows.append((parts[0], parts[1], parts[2], " ".join(parts[3:])))
    return rows


def build_shape(sh, shape, reg, X):
    """shape text of ref/modes.txt -> token record. reg: thunk building a register token; X: value token"""
    R = reg
    if shape == "R":
        return R()
    if shape == "(R)":
        return sh.paren(R())
    if shape == "@R":
        return sh.un("deferred", R())
    if shape == "(R)+":
        return sh.un("postadd", sh.paren(R()))
    if shape == "@(R)+":
        return sh.un("deferred", sh.un("postadd", sh.paren(R())))
    if shape == "-(R)":
        return sh.un("neg", sh.paren(R()))
    if shape == "@-(R)":
        return sh.un("deferred", sh.un("neg", sh.paren(R())))
    if shape == "X(R)":
        return sh.bin("call", X, R())
    if shape == "@X(R)":
        # as delivered by the parser: '@' binds weaker than the call, hoisting is not involved
        return sh.bin("call", sh.un("deferred", X), R())
    if shape == "@(R)":
        return sh.un("deferred", sh.paren(R()))
    if shape == "#X":
        return sh.un("immediate", X)
    if shape == "@#X":
        return sh.un("deferred", sh.un("immediate", X))
    if shape == "X":
        return X
    if shape == "@X":
        return sh.un("deferred", X)
    if shape == "acN":
        return sh.symbol("ac3")
    raise Unknown(f"reference shape {shape} not understood")


def rule_T2(ck):
    repo = ck.repo
    ref = load_modes_ref()
    if len(ref) < 15:
        raise Unknown("ref/modes.txt has fewer than 15 rows")
    XV = sym.var("X", "int")
    RV = sym.op("get_as_int", sym.var("N", "int"), 3, True, None)
    for stubcls, shapes in (("RegisterModeOperandStub", [r for r in ref if r[0] != "acN"]), ("FP11RMOperandStub", ref)):
        for shape, mode, ext, note in shapes:
            for regform in ("named", "percent"):
                if shape in ("#X", "@#X", "X", "@X", "acN") and regform == "percent":
                    continue
                I = eager_interp(repo)

                def thunk():
                    sh = Shapes(I)
                    X = sh.xexpr(XV, "X")
                    if regform == "named":
                        reg = lambda: sh.symbol("r3")
                    else:
                        reg = lambda: sh.un("register", sh.xexpr(sym.var("N", "int"), "N"))
                    operand = build_shape(sh, shape, reg, X)
                    cls = I.module_get("insns", stubcls)
                    stub = I.instantiate(cls, ["d", [5, 4, 3, 2, 1, 0]], {})
                    return I.call_method(stub, "encode", [operand, STATE])
                paths = I.explore(thunk)
                key = (stubcls, shape, regform)
                where = f"insns::{stubcls}.encode" if repo.has_func(f"insns::{stubcls}.encode") else "insns::RegisterModeOperandStub.encode"
                rets = [p for p in paths if p.kind == "return"]
                sample = {"stub": stubcls, "shape": shape, "register": regform, "expected_mode": mode, "expected_ext": ext,
                          "found": [repr(p.value) for p in rets][:2]}
                ck.instance(key, sample, fn=where)
                if len(rets) != 1 or len(paths) != 1:
                    if stubcls == "FP11RMOperandStub" and shape == "R":
                        # warning/error choice on the register number: both paths must agree on the encoding
                        vals = {repr(p.value) for p in rets}
                        if len(vals) == 1 and len(rets) == len(paths):
                            rets = rets[:1]
                        else:
                            ck.violation(where, f"operand shape {shape} ({regform} register): encoder does not return one encoding: {paths}", construct=f"shape {shape} {regform}")
                            continue
                    else:
                        ck.violation(where, f"operand shape {shape} ({regform} register) does not encode to exactly one result: {[repr(p) for p in paths]}", construct=f"shape {shape} {regform}")
                        continue
                val = rets[0].value
                if not (isinstance(val, tuple) and len(val) == 2):
                    ck.violation(where, f"encode() returned {val!r}, expected (inline value, extension bytes)", construct=f"shape {shape} {regform}")
                    continue
                got_mode, got_ext = val
                # expected mode
                regval = 3 if regform == "named" else RV
                if mode[1] == "R":
                    exp_mode = sym.bor(int(mode[0]) * 8, regval) if mode[0] != "0" else regval
                elif mode[1] == "N":
                    exp_mode = 3
                else:
                    exp_mode = int(mode, 8)
                if got_mode != exp_mode:
                    ck.violation(where, f"operand shape {shape} ({regform} register) gets mode field {sym.show(got_mode)}, PDP-11 mode is {sym.show(exp_mode)} ({mode})",
                                 construct=f"shape {shape} {regform}", expected=sym.show(exp_mode), found=sym.show(got_mode))
                # expected extension
                if ext == "none":
                    exp_ext = b""
                elif ext == "zero":
                    exp_ext = b"\x00\x00"
                elif ext == "X":
                    exp_ext = sym.op("sized", 2, sym.pack("<H", sym.op("get_as_int", XV, 16, False, None)))
                elif ext == "X-rel-2":
                    exp_ext = sym.op("sized", 2, sym.pack("<H", sym.mod(sym.sub(sym.sub(XV, REL), 2), 65536)))
                else:
                    raise Unknown(f"reference extension kind {ext}")
                if got_ext != exp_ext:
                    ck.violation(where, f"operand shape {shape} ({regform} register): extension word is {sym.show(got_ext)}, expected {sym.show(exp_ext)}",
                                 construct=f"shape {shape} {regform} ext", expected=sym.show(exp_ext), found=sym.show(got_ext))
                # warnings required by the reference
                warned = {e[2] for e in rets[0].effects if e[0] == "report" and e[1] == "warning"}
                errors = [e for e in rets[0].effects if e[0] == "report" and e[1] in ("error", "critical")]
                if "legacy-deferred" in note and "legacy-deferred" not in warned:
                    ck.note(f"{stubcls} shape {shape}: no 'legacy-deferred' warning (cosmetic)")
                if errors and not (stubcls == "FP11RMOperandStub" and shape == "R"):
                    ck.violation(where, f"legal operand shape {shape} is reported as an error ({errors[0][2]})", construct=f"shape {shape} {regform} error")


def rule_T2_registers(ck):
    """REGISTER_NAMES table: r0..r7 -> 0..7, sp -> 6, pc -> 7; lookup is on the lowered name"""
    I = eager_interp(ck.repo)
    paths = I.explore(lambda: I.module_get("insns", "REGISTER_NAMES"))
    names = paths[0].value
    expected = {**{f"r{i}": i for i in range(8)}, "sp": 6, "pc": 7}
    ck.instance("REGISTER_NAMES", {"table": names}, fn="insns::<module>")
    if names != expected:
        ck.violation("insns::<module>", "register name table differs from the PDP-11 register numbering", construct="REGISTER_NAMES",
                     expected=expected, found=names)
    # every spelling reaches the same number through try_as_register, upper case included
    for spelled, number in sorted({**expected, "R5": 5, "SP": 6, "Pc": 7}.items()):
        I = eager_interp(ck.repo)

        def thunk():
            sh = Shapes(I)
            return I.call(I.module_get("insns", "try_as_register"), [sh.symbol(spelled), STATE], {})
        ps = I.explore(thunk)
        ck.instance(("reg", spelled), None, fn="insns::try_as_register")
        if len(ps) != 1 or ps[0].kind != "return" or ps[0].value != number:
            ck.violation("insns::try_as_register", f"register spelling '{spelled}' does not resolve to {number}: {ps}", construct=f"register {spelled.lower()}")
    # a symbol that is necessarily a label, or any other name, is not a register
    for spelled, label in (("r3", True), ("foo", False), ("r8", False)):
        I = eager_interp(ck.repo)

        def thunk():
            sh = Shapes(I)
            return I.call(I.module_get("insns", "try_as_register"), [sh.symbol(spelled, label), STATE], {})
        ps = I.explore(thunk)
        ck.instance(("nonreg", spelled, label), None)
        if len(ps) != 1 or ps[0].value is not None:
            ck.violation("insns::try_as_register", f"'{spelled}' (label={label}) is taken for a register", construct=f"non-register {spelled} {label}")


# --------------------------------------------------------------------------- T3 (+ C04.R1 data)
def run_compile_insn(repo, name):
    """Abstractly execute Instruction.compile_insn for one folded row with symbolic inline values V<j> and
    extension words E<j>. -> (path, rel_addresses)"""
    I = eager_interp(repo)
    rels = []

    def hook(I_, f, args, kwargs, node):
        if isinstance(f, Bound) and isinstance(f.selfobj, Rec) and f.selfobj.cls.name.endswith("OperandStub") \
                and getattr(f.fn, "name", "") == "encode":
            operand, state = args[0], args[1]
            j = operand.fields["index"]
            rels.append((j, I_.getitem(state, "rel_address"), I_.getitem(state, "emit_address")))
            return (sym.var(f"V{j}", "int"), sym.var(f"E{j}", "bytes"))
        return NotImplemented
    I.call_hook = hook

    def thunk():
        del rels[:]
        sh = Shapes(I)
        insns = I.module_get("insns", "instructions")
        insn_def = I.call_method(insns, "__getitem__", [name])
        n = len(insn_def.fields["operands"])
        operands = []
        for j in range(n):
            x = sh.xexpr(sym.var(f"X{j}", "int"), f"X{j}")
            x.fields["index"] = j
            operands.append(x)
        insn_tok = I.instantiate(I.module_get("types", "Instruction"), [None, None, sh.symbol(name), operands], {})
        return I.call_method(insn_def, "compile_insn", [STATE, insn_tok])
    paths = I.explore(thunk)
    return paths, list(rels)


def flatten_cat(x):
    if is_sym(x) and x[0] == "op" and x[1] == "cat":
        return list(x[2:])
    return [x]


def rule_T3(ck):
    table = getattr(ck, "table", None) or fold_table(ck.repo)
    where = "insns::Instruction.compile_insn"
    ck.repo.func(where)
    # one row per distinct (pattern-with-fixed-bits-erased, stub layout) is enough for the substitution code,
    # but all rows are checked: it is cheap and leaves nothing to representativeness.
    for name, (pat, stubs, _) in sorted(table.items()):
        paths, rels = run_compile_insn(ck.repo, name)
        ck.instance(("T3", name), {"mnemonic": name, "result": repr(paths[0].value) if paths else None} if name in ("mov", "sob", "ldf", "emt") else None, fn=where)
        if len(paths) != 1 or paths[0].kind != "return":
            ck.violation(where, f"'{name}': compile_insn with the right operand count does not return one result: {paths}", construct=f"compile {name}")
            continue
        parts = flatten_cat(paths[0].value)
        head = parts[0]
        # head must be sized(2, pack("<H", int(<16 chars>, 2)))
        if is_sym(head) and head[:2] == ("op", "sized") and head[2] == 2 and isinstance(head[3], bytes) and not stubs:
            import struct
            want = struct.pack("<H", int(pat, 2))
            if head[3] != want:
                ck.violation(where, f"'{name}': opcode word bytes are {head[3]!r}, expected {want!r} (little-endian template)", construct="opcode pack format",
                             expected=want, found=head[3])
            if parts[1:]:
                ck.violation(where, f"'{name}': unexpected bytes after the opcode word", construct="operand word order")
            continue
        ok = is_sym(head) and head[:2] == ("op", "sized") and head[2] == 2 and is_sym(head[3]) and head[3][:3] == ("op", "pack", "<H")
        if not ok:
            if is_sym(head) and head[:2] == ("op", "sized") and is_sym(head[3]) and head[3][:2] == ("op", "pack") and head[3][2] != "<H":
                ck.violation(where, f"opcode word is packed with format {head[3][2]!r}, PDP-11 words are little-endian '<H'", construct="opcode pack format",
                             expected="<H", found=head[3][2])
            else:
                ck.violation(where, f"'{name}': first chunk is not a 2-byte little-endian opcode word: {sym.show(head)}", construct=f"opcode chunk {name}")
            continue
        word = head[3][3]
        if not (is_sym(word) and word[:2] == ("op", "int") and word[3] == 2):
            if len(stubs) == 0 and not is_sym(word):
                bits = format(word, "016b")
                pieces = list(bits)
            else:
                ck.violation(where, f"'{name}': opcode word is not the base-2 reading of the substituted pattern: {sym.show(word)}", construct=f"opcode word {name}")
                continue
        else:
            pieces = []
            for p in flatten_cat(word[2]):
                if is_sym(p):
                    pieces.append(p)
                else:
                    pieces.extend(list(p))
        if len(pieces) != 16:
            ck.violation(where, f"'{name}': substituted pattern has {len(pieces)} positions", construct=f"opcode word {name}")
            continue
        # expected: per position
        expected = list(pat)
        for j, (cls, ch, idx, unsigned) in enumerate(stubs):
            pos = [i for i, c in enumerate(pat) if c == ch]
            for k, index in enumerate(idx):
                expected[pos[index]] = sym.op("str", sym.op("bit", sym.var(f"V{j}", "int"), k))
        bad = [(15 - i, sym.show(pieces[i]) if is_sym(pieces[i]) else pieces[i], sym.show(expected[i]) if is_sym(expected[i]) else expected[i])
               for i in range(16) if pieces[i] != expected[i]]
        if bad:
            b = bad[0]
            ck.violation(where, f"'{name}': instruction bit {b[0]} is {b[1]}, must be {b[2]} (bit k of operand value j goes to the position the table assigns)",
                         construct="bit substitution", expected=b[2], found=b[1])
        exts = parts[1:]
        exp_exts = [sym.var(f"E{j}", "bytes") for j in range(len(stubs))]
        if exts != exp_exts:
            ck.violation(where, f"'{name}': operand words follow the opcode as {[sym.show(e) for e in exts]}, expected operand order {[sym.show(e) for e in exp_exts]}",
                         construct="operand word order")
        # wrong operand count must be rejected with an error
    # operand-count guard (one representative with 2 operands)
    for name, n_given in (("mov", 1), ("mov", 3), ("nop", 1)):
        if name not in table:
            continue
        I = eager_interp(ck.repo)

        def thunk():
            sh = Shapes(I)
            insn_def = I.call_method(I.module_get("insns", "instructions"), "__getitem__", [name])
            ops = [sh.xexpr(sym.var(f"X{j}", "int"), f"X{j}") for j in range(n_given)]
            tok = I.instantiate(I.module_get("types", "Instruction"), [None, None, sh.symbol(name), ops], {})
            return I.call_method(insn_def, "compile_insn", [STATE, tok])
        ps = I.explore(thunk)
        ck.instance(("T3-count", name, n_given), None, fn=where)
        for p in ps:
            if not p.reported():
                ck.violation(where, f"'{name}' with {n_given} operands is not rejected with an error", construct="operand count guard")


# --------------------------------------------------------------------------- T4
def accumulator_range(ck):
    """Range of try_accumulator_from_symbol's non-None result, from its guards (idiom: lexicographic sandwich
    lo <= name <= hi with len(name) == len(lo) == len(hi) and a common prefix; result int(name[-1]))."""
    I = eager_interp(ck.repo)
    NAME = sym.var("NAME", "str")

    def thunk():
        sh = Shapes(I)
        s = sh.symbol("x")
        s.fields["name"] = NAME
        return I.call(I.module_get("insns", "try_accumulator_from_symbol"), [s], {})
    paths = I.explore(thunk)
    lo = hi = None
    where = "insns::try_accumulator_from_symbol"
    for p in paths:
        if p.kind != "return":
            raise Unknown(f"{where}: raising path {p}")
        if p.value is None:
            continue
        conds = {}
        for key, val in p.decisions:
            conds[key] = val
        n = None
        lower = upper = None
        low = sym.op("lower", NAME)
        for key, val in p.decisions:
            if key[0] != "truth" or not val:
                raise Unknown(f"{where}: non-None result under a negated guard {key}")
            c = key[1]
            if c[:3] == ("op", "cmp", "==") and sym.op("len", low) in c[3:] :
                n = [x for x in c[3:] if not is_sym(x)][0]
            elif c[:3] == ("op", "cmp", "<=") and c[4] == low and isinstance(c[3], str):
                lower = c[3]
            elif c[:3] == ("op", "cmp", "<=") and c[3] == low and isinstance(c[4], str):
                upper = c[4]
            elif c[:3] == ("op", "cmp", ">=") and c[3] == low and isinstance(c[4], str):
                lower = c[4]
            else:
                raise Unknown(f"{where}: guard {sym.show(c)} is not one of the known idioms")
        if n is None or lower is None or upper is None or len(lower) != n or len(upper) != n or lower[:-1] != upper[:-1] \
                or not (lower[-1].isdigit() and upper[-1].isdigit()):
            raise Unknown(f"{where}: guards do not form a lexicographic sandwich (len={n}, {lower!r}..{upper!r})")
        exp = sym.op("int", sym.op("item", low, n - 1))
        if p.value != exp:
            raise Unknown(f"{where}: result {sym.show(p.value)} is not int(name[{n - 1}]) of the lowered name")
        lo, hi = int(lower[-1]), int(upper[-1])
        prefix = lower[:-1]
    if lo is None:
        raise Unknown(f"{where}: no path returns an accumulator number")
    return lo, hi, prefix


def rule_T4(ck):
    repo = ck.repo
    table = getattr(ck, "table", None) or fold_table(repo)
    lo, hi, prefix = accumulator_range(ck)
    ck.instance("acc-range", {"accumulator names": f"{prefix}{lo}..{prefix}{hi}"}, fn="insns::try_accumulator_from_symbol")
    if (lo, hi, prefix) != (0, 5, "ac"):
        ck.violation("insns::try_accumulator_from_symbol", f"accumulator names accepted are {prefix}{lo}..{prefix}{hi}; FP11 has ac0..ac5",
                     construct="accumulator name range", expected="ac0..ac5", found=f"{prefix}{lo}..{prefix}{hi}")
    # instances: distinct (class, width, unsigned)
    instances = {}
    for name, (pat, stubs, _) in table.items():
        for cls, ch, idx, unsigned in stubs:
            instances.setdefault((cls, len(idx), unsigned, ch if cls.endswith("AccumulatorOperandStub") or cls == "RegisterOperandStub" else None), []).append(name)
    for (cls, width, unsigned, ch), users in sorted(instances.items(), key=lambda kv: str(kv[0])):
        where = f"insns::{cls}.encode"
        if cls in ("FP11AccumulatorOperandStub", "FP11RMOperandStub"):
            I = eager_interp(repo, extra={"insns::try_accumulator_from_symbol": lambda I_, fn, a, k: A})
            A = I.add_cellvar("ACC", lo, hi)

            def thunk():
                sh = Shapes(I)
                st = I.instantiate(I.module_get("insns", cls), [ch or "S", list(range(width - 1, -1, -1))], {})
                return I.call_method(st, "encode", [sh.symbol("ac9"), STATE])
            paths = I.explore(thunk)
            for p in paths:
                cell = p.cells[A]
                ck.instance((cls, width, "acc", repr(cell), p.kind), {"stub": cls, "width": width, "accumulator cell": repr(cell), "outcome": p.kind, "users": users[:3]}, fn=where)
                if p.kind == "return":
                    if not (isinstance(p.value, tuple) and p.value[0] == A):
                        ck.violation(where, f"accumulator operand does not encode its own number: {p.value!r}", construct=f"acc value {width}")
                    if cell.hi >= 2 ** width or cell.lo < 0:
                        ck.violation(where, f"accumulator numbers {cell} are encoded into a {width}-bit field (used by {', '.join(sorted(users)[:4])}...): values >= {2 ** width} silently lose their high bit",
                                     construct=f"accumulator {cell.lo}..{cell.hi} into {width} bits", expected=f"0..{2 ** width - 1} or an error", found=f"{cell}")
                elif not p.reported():
                    ck.violation(where, f"accumulator {cell} is refused without an error diagnostic", construct=f"acc refuse {width}")
        if cls in ("RegisterOperandStub", "RegisterModeOperandStub", "FP11RMOperandStub"):
            # register numbers come from the table (0..7) or from get_as_int(bitness=3, unsigned=True)
            for regform in ("named", "percent"):
                I = eager_interp(repo)

                def thunk():
                    sh = Shapes(I)
                    reg = sh.symbol("r7") if regform == "named" else sh.un("register", sh.xexpr(sym.var("N", "int"), "N"))
                    st = I.instantiate(I.module_get("insns", cls), [ch or "d", list(range(width - 1, -1, -1))], {})
                    return I.call_method(st, "encode", [reg, STATE])
                for p in I.explore(thunk):
                    if p.kind != "return":
                        continue
                    v = p.value[0]
                    ck.instance((cls, width, regform), None, fn=where)
                    okv = (v == 7) if regform == "named" else (v == sym.op("get_as_int", sym.var("N", "int"), 3, True, None))
                    if not okv or width < 3:
                        ck.violation(where, f"register operand value {sym.show(v)} does not fit/identify a 3-bit register field", construct=f"register value {regform}")
        if cls == "ImmediateOperandStub":
            I = eager_interp(repo)
            V = I.add_cellvar("VAL")

            def thunk():
                sh = Shapes(I)
                st = I.instantiate(I.module_get("insns", cls), ["i", list(range(width - 1, -1, -1)), unsigned], {})
                r = I.call_method(st, "encode", [sh.xexpr(V, "X"), STATE])
                return r
            paths = I.explore(thunk)
            exp_lo = 0 if unsigned else -(2 ** width - 1)
            exp_hi = 2 ** width - 1
            for p in paths:
                cell = p.cells[V]
                ck.instance((cls, width, unsigned, repr(cell)), {"stub": cls, "width": width, "unsigned": unsigned, "cell": repr(cell), "outcome": repr(p.value), "errors": [e[2] for e in p.reported()]}, fn=where)
                if p.kind != "return":
                    ck.violation(where, f"immediate field: value cell {cell} raises {p.value} instead of returning", construct=f"imm {width} {unsigned} raise")
                    continue
                inside = cell.lo is not None and cell.hi is not None and cell.lo >= exp_lo and cell.hi <= exp_hi
                outside = (cell.hi is not None and cell.hi < exp_lo) or (cell.lo is not None and cell.lo > exp_hi)
                if not inside and not outside:
                    ck.violation(where, f"{width}-bit {'unsigned' if unsigned else 'signed'} immediate: guard boundary inside cell {cell}; legal range is {exp_lo}..{exp_hi}",
                                 construct=f"imm {width} {unsigned} bounds", expected=f"{exp_lo}..{exp_hi}", found=repr(cell))
                    continue
                if inside:
                    if p.reported():
                        ck.violation(where, f"{width}-bit immediate: legal values {cell} are rejected", construct=f"imm {width} {unsigned} bounds", expected=f"{exp_lo}..{exp_hi} accepted", found=f"{cell} rejected")
                    if p.value[0] != sym.mod(V, 2 ** width) and not (cell.lo >= 0 and p.value[0] == V):
                        ck.violation(where, f"{width}-bit immediate: value {cell} is stored as {sym.show(p.value[0])}, expected value mod 2^{width}", construct=f"imm {width} {unsigned} value",
                                     expected=sym.show(sym.mod(V, 2 ** width)), found=sym.show(p.value[0]))
                else:
                    if not p.reported():
                        ck.violation(where, f"{width}-bit {'unsigned' if unsigned else 'signed'} immediate: out-of-range values {cell} are accepted silently",
                                     construct=f"imm {width} {unsigned} bounds", expected=f"error outside {exp_lo}..{exp_hi}", found=f"{cell} accepted")


# --------------------------------------------------------------------------- T5 hoisting of 'a+b(r)'
def hoist_cases(repo):
    """Abstractly execute RegisterModeOperandStub.encode on index operands whose index is an expression the parser nests
    around the call ('a+b(r)' is parsed as a+(b(r))). -> [(text, expected value, result path, tokens)]"""
    A, B, C = (sym.var(n, "int") for n in "ABC")
    cases = [
        ("a+b(R)", lambda sh, a, b, c, r: sh.bin("add", a, sh.bin("call", b, r)), sym.add(A, B), 0o60, "b"),
        ("a-b(R)", lambda sh, a, b, c, r: sh.bin("sub", a, sh.bin("call", b, r)), sym.sub(A, B), 0o60, "b"),
        ("a+b*c(R)", lambda sh, a, b, c, r: sh.bin("add", a, sh.bin("mul", b, sh.bin("call", c, r))), sym.add(A, sym.mul(B, C)), 0o60, "c"),
        ("a*b+c(R)", lambda sh, a, b, c, r: sh.bin("add", sh.bin("mul", a, b), sh.bin("call", c, r)), sym.add(sym.mul(A, B), C), 0o60, "c"),
        ("a-b-c(R)", lambda sh, a, b, c, r: sh.bin("sub", sh.bin("sub", a, b), sh.bin("call", c, r)), sym.sub(sym.sub(A, B), C), 0o60, "c"),
        ("-a(R)", lambda sh, a, b, c, r: sh.un("neg", sh.bin("call", a, r)), sym.neg(A), 0o60, "a"),
        ("@a+b(R)", lambda sh, a, b, c, r: sh.un("deferred", sh.bin("add", a, sh.bin("call", b, r))), sym.add(A, B), 0o70, "b"),
        ("a(R)", lambda sh, a, b, c, r: sh.bin("call", a, r), A, 0o60, "a"),
        # stacked prefix operators: each level is rebuilt around the level below it
        ("@-a(R)", lambda sh, a, b, c, r: sh.un("deferred", sh.un("neg", sh.bin("call", a, r))), sym.neg(A), 0o70, "a"),
        ("--a(R)", lambda sh, a, b, c, r: sh.un("neg", sh.un("neg", sh.bin("call", a, r))), sym.neg(sym.neg(A)), 0o60, "a"),
        ("-a+b(R)", lambda sh, a, b, c, r: sh.un("neg", sh.bin("add", a, sh.bin("call", b, r))), sym.neg(sym.add(A, B)), 0o60, "b"),
    ]
    out = []
    # every case with the register written 'r2' and written '%2' (the same register: C10)
    cases = [(t.replace("(R)", f"({spell})"), b, w, m, l, spell) for (t, b, w, m, l) in cases for spell in ("r2", "%2")]
    for text, build, want, mode, last, spell in cases:
        seen = []

        def gai(I_, fn, args, kw):
            names = ["state", "what", "token", "arg_token", "bitness", "unsigned", "default"]
            b = dict(zip(names, args))
            b.update(kw)
            val = I_.call_method(b["arg_token"], "resolve", [b["state"]])
            if isinstance(val, int) and not is_sym(val) and b.get("what") != "index":
                return val      # the register number of '%2'
            seen.append((b["token"], b["arg_token"], b.get("bitness"), b.get("unsigned")))
            return sym.op("get_as_int", val, b.get("bitness"), b.get("unsigned"), b.get("default"))
        I = eager_interp(repo, extra={"metacommand_impl::get_as_int": gai})
        toks = {}

        def thunk():
            del seen[:]
            sh = Shapes(I)
            a, b, c = sh.xexpr(A, "a"), sh.xexpr(B, "b"), sh.xexpr(C, "c")
            r = sh.symbol("r2") if spell == "r2" else sh.un("register", sh.number("2", 2))
            operand = build(sh, a, b, c, r)
            toks.update(a=a, b=b, c=c, operand=operand)
            stub = I.instantiate(I.module_get("insns", "RegisterModeOperandStub"), ["d", [5, 4, 3, 2, 1, 0]], {})
            res = I.call_method(stub, "encode", [operand, STATE])
            return res, list(seen)
        paths = I.explore(thunk)
        out.append((text, want, mode, last, paths, dict(toks)))
    return out


def rule_T5(ck):
    where = "insns::RegisterModeOperandStub.encode.hoist" if ck.repo.has_func("insns::RegisterModeOperandStub.encode.hoist") else "insns::RegisterModeOperandStub.encode"
    for text, want, mode, last, paths, toks in hoist_cases(ck.repo):
        rets = [p for p in paths if p.kind == "return" and not p.reported()]
        ck.instance(("hoist", text), {"operand": text, "result": repr(rets[0].value[0]) if rets else repr(paths)}, fn=where)
        if len(rets) != 1 or len(paths) != 1:
            ck.violation(where, f"index operand '{text}' does not encode on one clean path: {[(p.kind, [e[2] for e in p.reported()]) for p in paths]}", construct=f"hoist {text}")
            continue
        (m, ext), seen = rets[0].value
        exp_ext = sym.op("sized", 2, sym.pack("<H", sym.op("get_as_int", want, 16, False, None)))
        if m != (mode | 2):
            ck.violation(where, f"index operand '{text}' gets mode {m!r}, expected {mode | 2:o}", construct=f"hoist {text} mode")
        if ext != exp_ext:
            ck.violation(where, f"index operand '{text}': the index word is {ext!r}, expected {exp_ext!r} (the register binds to the whole expression: '{text.split('(')[0].lstrip('@')}' is the index)",
                         construct=f"hoist {text} value", expected=repr(exp_ext), found=repr(ext))


def rule_T5n(ck):
    """operands WITHOUT a register are not touched by the hoisting pass: 'a+b', 'a+b*c', '-a', '@a-b' encode exactly like one
    opaque expression of the same value (relative / relative-deferred mode)"""
    repo = ck.repo
    A, B, C = (sym.var(n, "int") for n in "ABC")
    where = "insns::RegisterModeOperandStub.encode"
    cases = [("a+b", lambda sh, a, b, c: sh.bin("add", a, b), sym.add(A, B), False), ("a+b*c", lambda sh, a, b, c: sh.bin("add", a, sh.bin("mul", b, c)), sym.add(A, sym.mul(B, C)), False),
             ("-a", lambda sh, a, b, c: sh.un("neg", a), sym.neg(A), False), ("a-b-c", lambda sh, a, b, c: sh.bin("sub", sh.bin("sub", a, b), c), sym.sub(sym.sub(A, B), C), False),
             ("@a-b", lambda sh, a, b, c: sh.un("deferred", sh.bin("sub", a, b)), sym.sub(A, B), True), ("#a+b", lambda sh, a, b, c: sh.un("immediate", sh.bin("add", a, b)), sym.add(A, B), None)]
    for text, build, value, deferred in cases:
        I = eager_interp(repo)

        def thunk(build=build, value=value, deferred=deferred):
            sh = Shapes(I)
            a, b, c = sh.xexpr(A, "a"), sh.xexpr(B, "b"), sh.xexpr(C, "c")
            stub = I.instantiate(I.module_get("insns", "RegisterModeOperandStub"), ["d", [5, 4, 3, 2, 1, 0]], {})
            got = I.call_method(stub, "encode", [build(sh, a, b, c), STATE])
            v = sh.xexpr(value, "v")
            plain = sh.un("deferred", v) if deferred else (sh.un("immediate", v) if deferred is None else v)
            ref = I.call_method(stub, "encode", [plain, STATE])
            return got, ref
        ps = I.explore(thunk)
        ck.instance(("no-hoist", text), {"operand": text, "result": repr(ps[0].value[0]) if ps and ps[0].kind == "return" else repr(ps)}, fn=where)
        if len(ps) != 1 or ps[0].kind != "return" or ps[0].reported():
            ck.violation(where, f"the operand '{text}' (no register in it) does not encode on one clean path: {[(p.kind, repr(p.value), [e[2] for e in p.reported()]) for p in ps]}", construct=f"no-hoist {text}")
            continue
        got, ref = ps[0].value
        if got != ref:
            ck.violation(where, f"the operand '{text}' (no register in it) encodes as {got!r}; one opaque expression of the same value encodes as {ref!r}", construct=f"no-hoist {text}", expected=repr(ref), found=repr(got))


def rule_T2s(ck):
    """the two small stubs: a register field accepts exactly a register (named or %N) and yields its number; an accumulator
    field accepts exactly ac0..ac(2^w - 1) and yields the number; everything else is an error, never some value"""
    repo = ck.repo
    I = eager_interp(repo)
    XV = sym.var("X", "int")
    insn_tok = lambda sh: sh.mk(I.module_get("types", "Instruction"), None, None, sh.symbol("xor"), [])
    # RegisterOperandStub
    cases = [("r0", 0), ("R5", 5), ("sp", 6), ("PC", 7), ("%4", 4), ("X", None), ("(r3)", None), ("#X", None), ("ac1", None)]
    for text, want in cases:
        def thunk(text=text):
            sh = Shapes(I)
            op = {"X": lambda: sh.xexpr(XV, "X"), "(r3)": lambda: sh.paren(sh.symbol("r3")), "#X": lambda: sh.un("immediate", sh.xexpr(XV, "X")),
                  "%4": lambda: sh.un("register", sh.number("4", 4))}.get(text, lambda: sh.symbol(text))()
            stub = I.instantiate(I.module_get("insns", "RegisterOperandStub"), ["s", [2, 1, 0]], {})
            st = {"insn": insn_tok(sh), "emit_address": DOT, "rel_address": REL}
            return I.call_method(stub, "encode", [op, st])
        ps = I.explore(thunk)
        ck.instance(("register-stub", text), {"operand": text, "result": [repr(p.value) if p.kind == "return" else p.value.name for p in ps]}, fn="insns::RegisterOperandStub.encode")
        if want is None:
            if not ps or any(p.kind == "return" or not p.reported() for p in ps):
                ck.violation("insns::RegisterOperandStub.encode", f"a register field given the operand '{text}' does not end in an error diagnostic: {[(p.kind, repr(p.value)) for p in ps]}", construct=f"register stub rejects {text}")
        else:
            got = ps[0].value if len(ps) == 1 and ps[0].kind == "return" else None
            val = got[0] if isinstance(got, tuple) and len(got) == 2 else None
            if is_sym(val) and val[:2] == ("op", "get_as_int"):
                val = val[2]
            if val != want or (isinstance(got, tuple) and got[1] != b"") or ps[0].reported():
                ck.violation("insns::RegisterOperandStub.encode", f"a register field given '{text}' encodes {got!r} (errors {[e[2] for p in ps for e in p.reported()]}), expected register number {want} and no extension word",
                             construct=f"register stub {text}", expected=repr((want, b"")), found=repr(got))
    # ImmediateOperandStub: 'emt #X' is 'emt X' plus a warning (the hash is unnecessary, the number is the same)
    res = {}
    for text in ("X", "#X"):
        def thunk(text=text):
            sh = Shapes(I)
            op = sh.xexpr(XV, "X") if text == "X" else sh.un("immediate", sh.xexpr(XV, "X"))
            stub = I.instantiate(I.module_get("insns", "ImmediateOperandStub"), ["i", [7, 6, 5, 4, 3, 2, 1, 0], True], {})
            st = {"insn": insn_tok(sh), "emit_address": DOT, "rel_address": REL}
            return I.call_method(stub, "encode", [op, st])
        try:
            ps = I.explore(thunk)
        except Unsupported as ex:
            raise Unknown(f"ImmediateOperandStub on {text}: {ex}") from None
        ok_paths = [p for p in ps if p.kind == "return" and not p.reported()]
        res[text] = (sorted({repr(p.value) for p in ok_paths}), sorted({e[2] for p in ps for e in p.effects if e[0] == "report" and e[1] == "warning"}))
        ck.instance(("immediate-stub", text), {"operand": text, "accepted results": res[text][0], "warnings": res[text][1]}, fn="insns::ImmediateOperandStub.encode")
    if not res["X"][0] or res["#X"][0] != res["X"][0]:
        ck.violation("insns::ImmediateOperandStub.encode", f"an inline number written with a hash ('emt #X') encodes {res['#X'][0]}, without it ('emt X') {res['X'][0]}: the hash is unnecessary but harmless, "
                                                           "both spellings are the same number", construct="immediate stub: hash")
    # FP11AccumulatorOperandStub with a 2-bit field
    for text, want in [("ac0", 0), ("AC1", 1), ("ac3", 3), ("ac4", None), ("ac5", None), ("ac6", None), ("r1", None), ("X", None), ("ac", None), ("ac10", None)]:
        def thunk(text=text):
            sh = Shapes(I)
            op = sh.xexpr(XV, "X") if text == "X" else sh.symbol(text)
            stub = I.instantiate(I.module_get("insns", "FP11AccumulatorOperandStub"), ["D", [1, 0]], {})
            st = {"insn": insn_tok(sh), "emit_address": DOT, "rel_address": REL}
            return I.call_method(stub, "encode", [op, st])
        ps = I.explore(thunk)
        ck.instance(("accumulator-stub", text), {"operand": text, "result": [repr(p.value) if p.kind == "return" else p.value.name for p in ps]}, fn="insns::FP11AccumulatorOperandStub.encode")
        if want is None:
            if not ps or any(p.kind == "return" or not p.reported() for p in ps):
                ck.violation("insns::FP11AccumulatorOperandStub.encode", f"a 2-bit accumulator field given '{text}' does not end in an error diagnostic: {[(p.kind, repr(p.value)) for p in ps]}",
                             construct=f"accumulator stub rejects {text}")
        elif len(ps) != 1 or ps[0].kind != "return" or ps[0].value != (want, b"") or ps[0].reported():
            ck.violation("insns::FP11AccumulatorOperandStub.encode", f"a 2-bit accumulator field given '{text}' encodes {[(p.kind, repr(p.value)) for p in ps]}, expected ({want}, no extension word)",
                         construct=f"accumulator stub {text}", expected=repr((want, b"")))


def run(ck):
    ck.run_rule("C01.T2s", "register and accumulator fields: accept set and value", 19, rule_T2s)
    ck.run_rule("C01.T5n", "operands without a register pass the hoisting step unchanged", 6, rule_T5n)
    ck.run_rule("C01.T5", "index operands written 'a+b(r)': the register is hoisted out and the whole expression is the index", 16, rule_T5)
    ck.run_rule("C01.T1", "opcode table == ISA reference (fold of insns.init over instruction_opcodes)", 252, rule_T1)
    ck.run_rule("C01.S", "synonyms encode like their targets", 30, rule_S)
    ck.run_rule("C01.T2", "addressing-mode decision list on canonical operand shapes", 40, rule_T2)
    ck.run_rule("C01.T2r", "register name table and spellings", 14, rule_T2_registers)
    ck.run_rule("C01.T3", "bit substitution, byte order and operand-word order for every row", 252, rule_T3)
    ck.run_rule("C01.T4", "inline value ranges fit their field widths", 10, rule_T4)
    from . import c04
    ck.run_rule("C04.R1", "PC-relative forms: rel_address = '.' + 2 + preceding operand words (all rows)", 150, c04.rule_R1)
    ck.run_rule("C04.R3", "branch displacement field: accept set and value", 8, c04.rule_R3)
    from . import c03
    from . import c02 as _c02
    ck.run_rule("C02.R7", "absolute operands in the second, third ... linked file: each file is assembled at base + lengths of ALL files before it", 3, _c02.rule_R7)
    from ..rules import treeimm as _treeimm
    ck.run_rule("G4.re", "an operand expression compiled again at another address (the next copy of a '.repeat' body) is evaluated again: 'br .+4' in every copy", 15, _treeimm.rule_reresolve)
    ck.run_rule("C03.R7", "operand values built from not-yet-known symbols: LinearPolynomial algebra (sums, differences, scaling, flattening)", 18, c03.rule_R7)
    from ..rules import thunks
    ck.run_rule("G1", "operand thunks read their own state: captured by value, never updated in place", 20, thunks.rule_G1)
