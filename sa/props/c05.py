"""C05 - expression values follow the documented arithmetic."""
import ast
import pathlib
import re

from ..engine import sym
from ..engine.interp import Rec, Cell, ClassVal, Closure, Raised, ExcVal, Env, Unsupported
from ..engine.loader import Unknown, norm_text, walk_local
from ..engine.sym import is_sym
from ..rules.world import STATE, Shapes, eager_interp

REF = pathlib.Path(__file__).resolve().parent.parent.parent / "ref"
EXPLANATION = (
    "R1: the operator registry is folded from the @operator decorators (spelling, kind, precedence, associativity) and "
    "compared with ref/operators.txt; precedences are compared as an order, not as numbers. R2: every arithmetic "
    "operator body is abstractly executed on symbolic integers; per cell of its guards the result must be the reference "
    "normal form, and division by zero / negative shift counts must reach an error diagnostic. R3: the pop condition of "
    "the precedence loop in expression() is evaluated over the complete order type of (incoming, top) precedence x "
    "associativity. R4/R5: number() is abstractly executed with its sub-parsers summarised (each may match or not): every "
    "returning path must construct the value int(digits, radix) * sign with the radix its spelling states; bare digits "
    "with 8/9 are flagged and Number.resolve reports them. R7: CharLiteral packs the first two encoded bytes "
    "little-endian. R9: every bracket kind is transparent.")
ASSUMPTIONS = ["the recursive-descent parser builds the tree the table implies (not decided)"]
TRUSTED = ["ref/operators.txt", "sa.engine.interp"]
LEVEL_TEXT = "Operator semantics hold for all integers (normal forms / cells); parser realisation of the table is outside."
LEVEL_NOTE = "trusted: ref/operators.txt and the interpreter; not decided: text -> tree for arbitrary texts"
TECHNIQUE = "closed-term folding of the operator registry + algebraic normal forms per guard cell + complete order-type valuation of the shunting condition"


def load_ops_ref():
    rows = []
    for line in (REF / "operators.txt").read_text().splitlines():
        parts = line.split(None, 4)
        if len(parts) < 5 or parts[1] not in ("infix", "prefix", "postfix"):
            continue
        sem = parts[4].split("#")[0].strip() if not parts[0].startswith("#") else parts[4].strip()
        rows.append((parts[0], parts[1], int(parts[2]), parts[3], sem))
    return rows


def fold_registry(repo):
    I = eager_interp(repo)
    reg = I.explore(lambda: I.module_get("operators", "operators"))[0].value
    out = {}
    for kindcls, cid in reg.items():
        kind = {"InfixOperator": "infix", "PrefixOperator": "prefix", "PostfixOperator": "postfix"}.get(kindcls.name)
        if kind is None:
            raise Unknown(f"operator kind {kindcls!r}")
        for key, (char, cls) in cid.fields["container"].items():
            out[(char.lower(), kind)] = cls
    return I, out


def rule_R1(ck):
    I, reg = fold_registry(ck.repo)
    ck.opreg = reg
    ref = load_ops_ref()
    where = "operators::<module>"
    refkeys = {(r[0].lower(), r[1]) for r in ref}
    for key in sorted(set(reg) - refkeys):
        ck.unknown(f"operator {key} has no row in ref/operators.txt")
    rows = []
    for spelling, kind, group, assoc, sem in ref:
        cls = reg.get((spelling.lower(), kind))
        ck.instance(("op", spelling, kind), {"operator": spelling, "kind": kind, "precedence": cls.attrs.get("precedence") if cls else None,
                                             "associativity": cls.attrs.get("associativity") if cls else None}, fn=where)
        if cls is None:
            ck.violation(where, f"{kind} operator '{spelling}' is not registered", construct=f"operator {spelling} {kind}")
            continue
        if cls.attrs.get("associativity") != assoc:
            ck.violation(where, f"{kind} operator '{spelling}' is {cls.attrs.get('associativity')}-associative, documented {assoc}", construct=f"operator {spelling} {kind} assoc")
        base = [b.name for b in cls.bases]
        rows.append((spelling, kind, group, cls.attrs.get("precedence")))
    # order agreement: for every pair, sign(group_a - group_b) == sign(prec_a - prec_b)
    sgn = lambda x: (x > 0) - (x < 0)
    for i, a in enumerate(rows):
        for b in rows[i + 1:]:
            if sgn(a[2] - b[2]) != sgn(a[3] - b[3]):
                ck.violation(where, f"binding strength of {a[1]} '{a[0]}' (precedence {a[3]}) relative to {b[1]} '{b[0]}' (precedence {b[3]}) contradicts the documented C-like order",
                             construct=f"precedence {a[0]} {a[1]} vs {b[0]} {b[1]}")


def _cells_int(I, name):
    return I.add_cellvar(name)


SEM = {
    "a": lambda a, b: a, "neg(a)": lambda a, b: sym.neg(a), "not(a)": lambda a, b: sym.inv(a),
    "mul(a,b)": sym.mul, "add(a,b)": sym.add, "sub(a,b)": sym.sub, "and(a,b)": sym.band, "xor(a,b)": sym.bxor, "or(a,b)": sym.bor,
    "floordiv(a,b)": sym.floordiv, "mod(a,b)": sym.mod, "shl(a,b)": sym.shl, "shr(a,b)": sym.shr,
}


def equal_on_cell(got, want, var, cell):
    if got == want:
        return True
    if cell is not None and cell.finite() and cell.hi - cell.lo <= 64:
        return all(sym.subst(got, {var: v}) == sym.subst(want, {var: v}) for v in cell.members())
    return False


def rule_R2(ck):
    repo = ck.repo
    I, reg = fold_registry(repo)
    ref = load_ops_ref()
    A = sym.var("a", "int")
    for spelling, kind, group, assoc, sem in ref:
        cls = reg.get((spelling.lower(), kind))
        if cls is None:
            continue
        fn = cls.attrs.get("fn")
        where = f"operators::{getattr(fn, 'name', '?')}"
        token = cls.attrs.get("token")
        I = eager_interp(repo)
        B = I.add_cellvar("b")
        TOK = sym.var("token", "obj")
        args = ([TOK] if token else []) + ([A, B] if kind == "infix" else [A])
        paths = I.explore(lambda: I.call(fn, list(args), {}))
        main, _, errc = sem.partition(";")
        main = main.strip()
        errc = errc.strip()
        for p in paths:
            cell = p.cells[B]
            errs = [e[2] for e in p.reported()]
            ck.instance(("sem", spelling, kind, repr(cell)), {"operator": f"{kind} {spelling}", "cell of b": repr(cell), "result": f"{p.kind} {p.value!r}", "errors": errs}, fn=where)
            if main == "misuse":
                if not errs or p.kind != "return" or p.value != (B if kind == "infix" else A):
                    ck.violation(where, f"syntax-only operator '{spelling}' evaluated as a value must report an error and return its operand; got {p.value!r}, errors {errs}", construct=f"operator {spelling} {kind} misuse")
                continue
            # error condition of the reference
            err_expected = False
            if errc == "err(b == 0)":
                err_expected = cell.lo == 0 and cell.hi == 0
                straddle = (cell.lo is None or cell.lo <= 0) and (cell.hi is None or cell.hi >= 0) and not err_expected
                if straddle:
                    ck.violation(where, f"'{spelling}': divisor zero is not separated from non-zero divisors (cell {cell}): division by zero is not reported", construct=f"operator {spelling} zero guard")
                    continue
            elif errc == "err(b < 0)":
                err_expected = cell.hi is not None and cell.hi < 0
                straddle = (cell.lo is None or cell.lo < 0) and (cell.hi is None or cell.hi >= 0)
                if straddle:
                    ck.violation(where, f"'{spelling}': negative counts are not separated from non-negative ones (cell {cell})", construct=f"operator {spelling} sign guard")
                    continue
            if p.kind != "return":
                ck.violation(where, f"'{spelling}' raises {p.value!r} for b in {cell}", construct=f"operator {spelling} raise")
                continue
            if err_expected:
                if not errs:
                    ck.violation(where, f"'{spelling}' with b in {cell} must be reported as an error", construct=f"operator {spelling} error")
                elif p.value is None or not (isinstance(p.value, int) or (is_sym(p.value) and sym.kind(p.value) in ("int", "bool", "any"))):
                    ck.violation(where, f"'{spelling}' with b in {cell} is reported, but the expression then has the value {p.value!r}: the statement around it is still assembled (further diagnostics in the same run) "
                                        "and dies on a value that is not a number", construct=f"operator {spelling} value after the error")
                continue
            if errs:
                ck.violation(where, f"'{spelling}' reports {errs} for legal operands (b in {cell})", construct=f"operator {spelling} spurious error")
                continue
            if "?" in main:
                # b >= 0 ? shl(a,b) : shr(a,neg(b))
                nonneg = cell.lo is not None and cell.lo >= 0
                neg = cell.hi is not None and cell.hi < 0
                if not nonneg and not neg:
                    ck.violation(where, f"'{spelling}': sign of b not decided in cell {cell}", construct=f"operator {spelling} sign guard")
                    continue
                want = sym.shl(A, B) if nonneg else sym.shr(A, sym.neg(B))
            else:
                want = SEM[main](A, B)
            if not equal_on_cell(p.value, want, B, cell):
                ck.violation(where, f"'{spelling}' computes {p.value!r} for b in {cell}, documented arithmetic is {want!r}", construct=f"operator {spelling} {kind} semantics", expected=repr(want), found=repr(p.value))


def run_parser(I, name, text, **kwargs):
    """Run a parser object of parser.py on a concrete text inside the interpreter. -> (result | None, end position, errors)"""
    def thunk():
        C = I.module_get("context", "Context")
        ctx = I.instantiate(C, ["a.mac", text], {})
        p = I.module_get("parser", name)
        n0 = len([e for e in I.effects if e[0] == "report" and e[1] in ("error", "critical")])
        try:
            r = I.call(p, [ctx], dict(kwargs))
            raised = None
        except Raised as ex:
            r, raised = None, ex.exc.name
        errs = [e[2] for e in I.effects if e[0] == "report" and e[1] in ("error", "critical")][n0:]
        return r, ctx.fields["pos"], errs, raised
    from ..engine.interp import StepBudget
    if I.__dict__.get("_nonterminations", 0) >= 3:
        # this parser has already failed to end on three texts in this run: every further text would wait for the same budget
        return None, 0, [], "NonTermination (not run: the parser did not end on three earlier texts of this run)"
    try:
        ps = I.explore(thunk)
    except StepBudget:
        # concrete text, deterministic parser: the loop does not end
        I.__dict__["_nonterminations"] = I.__dict__.get("_nonterminations", 0) + 1
        return None, 0, [], "NonTermination (no end within 400000 statements: the parser loops on this text)"
    if len(ps) != 1 or ps[0].kind != "return":
        raise Unknown(f"parser {name} on {text!r}: {ps}")
    return ps[0].value


def tree_shape(t):
    if isinstance(t, Rec):
        f = t.fields
        if "lhs" in f and "rhs" in f:
            return (t.cls.attrs.get("char"), tree_shape(f["lhs"]), tree_shape(f["rhs"]))
        if "operand" in f:
            return (t.cls.attrs.get("char"), tree_shape(f["operand"]))
        if "name" in f:
            return f["name"]
        if "representation" in f:
            return f["representation"]
        if "expr" in f:
            return ("()", tree_shape(f["expr"]))
    return repr(t)


def reference_tree(operands, ops, table):
    """precedence climbing with the folded (precedence, associativity) table; smaller number binds tighter"""
    out = [operands[0]]
    stack = []

    def reduce():
        o = stack.pop()
        r = out.pop()
        l = out.pop()
        out.append((o, l, r))
    for o, x in zip(ops, operands[1:]):
        p, assoc = table[o]
        while stack and (table[stack[-1]][0] < p or (table[stack[-1]][0] == p and assoc == "left")):
            reduce()
        stack.append(o)
        out.append(x)
    while stack:
        reduce()
    return out[0]


def rule_R3(ck):
    """expression(): the tree built for 'a o1 b o2 c' (every ordered pair of infix operators) and for four-operand chains is
    the one precedence and associativity of the folded operator table imply"""
    repo = ck.repo
    I, reg = fold_registry(repo)
    I = eager_interp(repo)
    table = {}
    for (char, kind), cls in reg.items():
        if kind == "infix" and char != "$":
            table[char] = (cls.attrs["precedence"], cls.attrs["associativity"])
    ops = sorted(table)
    where = "parser::expression"
    n = 0
    classes = {}
    for o in ops:
        classes.setdefault(table[o], []).append(o)
    reps = [v[0] for k, v in sorted(classes.items())]
    if ck.tier == "thorough":
        pairs = [(o1, o2) for o1 in ops for o2 in ops]
        rep = [o for o in ("*", "+", "<<", "&", "|", "-", "/") if o in table]
    else:
        # one representative per (precedence, associativity) class against every class, and every operator once on each side
        pairs = sorted({(a, b) for a in reps for b in reps} | {(o, reps[i % len(reps)]) for i, o in enumerate(ops)} | {(reps[(i + 1) % len(reps)], o) for i, o in enumerate(ops)}
                       | {(v[0], v[-1]) for v in classes.values()})
        rep = [o for o in ("*", "+", "&") if o in table]
    cases = [((o1, o2), ("a", "b", "c")) for o1, o2 in pairs]
    cases += [((o1, o2, o3), ("a", "b", "c", "d")) for o1 in rep for o2 in rep for o3 in rep]
    for opseq, names in cases:
        text = names[0] + "".join(f" {o} {x}" for o, x in zip(opseq, names[1:]))
        r, pos, errs, raised = run_parser(I, "expression", text)
        n += 1
        want = reference_tree(list(names), list(opseq), table)
        got = tree_shape(r) if r is not None else None
        if len(opseq) == 2 and (opseq[0] in "*+" and opseq[1] in "*+-"):
            ck.instance(("tree", text), {"text": text, "tree": repr(got)}, fn=where)
        else:
            ck.instance(("tree", text), None, fn=where)
        if raised or errs or got != want or pos != len(text):
            ck.violation(where, f"'{text}' is parsed as {got!r} (errors {errs}, {raised}); precedence and associativity of the operator table require {want!r}", construct="expression tree for operator pair/chain",
                         expected=repr(want), found=repr(got))
            break
    if n < 60:
        ck.unknown(f"only {n} operator sequences parsed")
    # unary minus binds tighter than any infix operator; brackets group
    for text, want in (("-a * b", ("*", ("-", "a"), "b")), ("a - -1", ("-", "a", "-1")), ("~a & b", ("&", ("~", "a"), "b")), ("(a + b) * c", ("*", ("()", ("+", "a", "b")), "c")),
                       ("<a + b> * c", ("*", ("()", ("+", "a", "b")), "c")), ("a * ^/b + c/", ("*", "a", ("()", ("+", "b", "c"))))):
        r, pos, errs, raised = run_parser(I, "expression", text)
        got = tree_shape(r) if r is not None else None
        ck.instance(("tree", text), {"text": text, "tree": repr(got)}, fn=where)
        if got != want or errs or raised:
            ck.violation(where, f"'{text}' is parsed as {got!r} (errors {errs}, {raised}), expected {want!r}", construct="expression tree for unary/brackets", expected=repr(want), found=repr(got))

    # stacked prefix operators: the one written nearest the operand is applied first ('-~a' is -(~a)), alone and under an infix
    # operator; every ordered pair of the tight prefix operators of the folded table ('#', '@' and '%' are operand syntax)
    tight = sorted(char for (char, kind) in reg if kind == "prefix" and char in ("+", "-", "~", "^c"))
    if len(tight) < 4:
        ck.unknown(f"tight prefix operators of the table: {tight}")
    m = 0
    for p1 in tight:
        for p2 in tight:
            for text, want in ((f"{p1}{p2}a", (p1, (p2, "a"))), (f"{p1}{p2}a * b", ("*", (p1, (p2, "a")), "b"))):
                if p1 == p2:
                    continue    # '--a' / '++a' meet the tokeniser's own rules; the order of two equal operators is not observable
                r, pos, errs, raised = run_parser(I, "expression", text)
                got = tree_shape(r) if r is not None else None
                got = _lower_ops(got)
                m += 1
                ck.instance(("tree", text), {"text": text, "tree": repr(got)} if p1 == "-" else None, fn=where)
                if got != want or errs or raised or pos != len(text):
                    ck.violation(where, f"'{text}' is parsed as {got!r} (errors {errs}, {raised}), expected {want!r}: of stacked prefix operators the one nearest the operand is applied first",
                                 construct="expression tree for stacked prefix operators", expected=repr(want), found=repr(got))
    for text, want in (("-~-a", ("-", ("~", ("-", "a")))), ("~-~a + 1", ("+", ("~", ("-", ("~", "a"))), "1"))):
        r, pos, errs, raised = run_parser(I, "expression", text)
        got = _lower_ops(tree_shape(r) if r is not None else None)
        ck.instance(("tree", text), {"text": text, "tree": repr(got)}, fn=where)
        if got != want or errs or raised:
            ck.violation(where, f"'{text}' is parsed as {got!r} (errors {errs}, {raised}), expected {want!r}", construct="expression tree for stacked prefix operators", expected=repr(want), found=repr(got))


def _lower_ops(t):
    if isinstance(t, tuple):
        return (t[0].lower() if isinstance(t[0], str) else t[0],) + tuple(_lower_ops(x) for x in t[1:])
    return t


LITERALS = [
    # text, value, is_valid_label, flagged-as-8/9 (error reported or invalid_base8), None value = 'not a number' (label)
    ("0", 0, True, False), ("17", 0o17, True, False), ("777", 0o777, True, False), ("-17", -0o17, False, False), ("17.", 17, False, False), ("-17.", -17, False, False),
    ("19.", 19, False, False), ("9.", 9, False, False), ("18", 18, True, True), ("9", 9, True, True), ("-18", -18, False, True), ("0x1F", 31, True, False), ("0X1f", 31, True, False),
    ("-0x10", -16, False, False), ("0o17", 15, True, False), ("0b101", 5, True, False), ("^X1f", 31, False, False), ("^xFF", 255, False, False), ("^O17", 15, False, False),
    ("^B101", 5, False, False), ("^D19", 19, False, False), ("-^D10", -10, False, False), ("-^O12", -10, False, False), ("-^XA", -10, False, False), ("-^B1010", -10, False, False),
    ("1$", None, None, None), ("1a", None, None, None), ("1_2", None, None, None), ("0xZZ", None, None, None), ("0q7", None, None, None), ("17:", None, None, None), ("1.5", None, None, None),
]


def rule_R4(ck):
    """number(): class representatives of every literal spelling, run through the real combinators inside the interpreter"""
    repo = ck.repo
    where = "parser::number"
    I = eager_interp(repo)
    for text, value, label, flagged in LITERALS:
        r, pos, errs, raised = run_parser(I, "number", text + " ")
        got = None if r is None else (r.fields.get("value"), r.fields.get("is_valid_label"), bool(r.fields.get("invalid_base8")) or bool(errs))
        ck.instance(("literal", text), {"literal": text, "result": repr(got) if r is not None else f"not a number ({raised})"}, fn=where)
        if value is None:
            if r is not None:
                ck.violation(where, f"'{text}' is read as the number {got[0]!r}; by the documented spellings it is not a number (a local label or malformed)", construct=f"literal class of {text}")
            continue
        if r is None:
            ck.violation(where, f"'{text}' is not read as a number ({raised}); expected the value {value}", construct=f"literal {text} rejected", expected=value, found=raised)
            continue
        if got[0] != value:
            ck.violation(where, f"'{text}' evaluates to {got[0]!r}, the radix its spelling states gives {value}", construct=f"literal value ({'caret' if '^' in text else 'c-style' if text.lstrip('-')[:2].lower() in ('0x', '0o', '0b') else 'decimal' if text.endswith('.') else 'bare'}{' negative' if text.startswith('-') else ''})",
                         expected=value, found=got[0])
        if got[2] != flagged:
            ck.violation(where, f"'{text}': {'a bare digit string with 8 or 9 is accepted silently (neither reported nor flagged)' if flagged else 'a valid literal is flagged/reported as invalid'}", construct="number 8/9 flag" if flagged else "number spurious flag", rule="C05.R5")
        if label is not None and got[1] != label and not flagged:
            ck.violation(where, f"'{text}': is_valid_label is {got[1]}, expected {label} (only a bare non-negative number can also name a local label)", construct="number is_valid_label")
        if pos != len(text):
            ck.violation(where, f"'{text}' is consumed up to position {pos}, not to its end", construct="number extent")
    # digit classes of the caret forms: a digit outside the radix is not part of the number
    for text in ("^O18", "^B102", "^XFG"):
        r, pos, errs, raised = run_parser(I, "number", text + " ")
        ck.instance(("literal", text), None, fn=where)
        if r is not None and not errs:
            ck.violation(where, f"'{text}' (a digit outside the radix) is accepted as {r.fields.get('value')!r}", construct="radix digit class")


def rule_R5(ck):
    repo = ck.repo
    where = "types::Number.resolve"
    for flag in (True, False):
        I = eager_interp(repo)

        def thunk():
            sh = Shapes(I)
            n = sh.mk(I.module_get("types", "Number"), None, None, "19", 19, True, flag)
            return I.call_method(n, "resolve", [STATE])
        ps = I.explore(thunk)
        ck.instance(("resolve", flag), {"invalid_base8": flag, "result": repr(ps[0].value), "errors": [e[2] for e in ps[0].reported()]}, fn=where)
        if len(ps) != 1 or ps[0].value != 19:
            ck.violation(where, f"Number.resolve returns {ps[0].value!r}", construct="Number.resolve value")
        if flag and not ps[0].reported():
            ck.violation(where, "using a bare digit string that contains 8 or 9 does not report an error", construct="Number.resolve 8/9 report")
        if not flag and ps[0].reported():
            ck.violation(where, "a valid number reports an error when used", construct="Number.resolve spurious")


def rule_R7(ck):
    repo = ck.repo
    where = "types::CharLiteral.resolve"
    STR = sym.var("chars", "str")
    CS = sym.op("attr", sym.op("item", STATE, "compiler"), "output_charset")
    I = eager_interp(repo)
    enc = sym.op("encode", STR, CS)
    LEN = I.add_cell(sym.op("len", enc), 0, None)

    def thunk():
        sh = Shapes(I)
        c = sh.mk(I.module_get("types", "CharLiteral"), None, None, "'x", STR)
        return I.call_method(c, "resolve", [STATE])
    want = sym.op("from_bytes", sym.op("slice", enc, None, 2, None), "little")
    for p in I.explore(thunk):
        cell = p.cells[LEN]
        errs = [e[2] for e in p.reported()]
        ck.instance(("char", repr(cell)), {"encoded length": repr(cell), "value": repr(p.value), "errors": errs}, fn=where)
        if p.kind != "return" or p.value != want:
            ck.violation(where, f"character literal evaluates to {p.value!r}, expected the first two encoded bytes, zero padded, as a little-endian word: {want!r}", construct="CharLiteral packing", expected=repr(want), found=repr(p.value))
        too_long = cell.lo is not None and cell.lo > 2
        if cell.lo is not None and cell.lo <= 2 and (cell.hi is None or cell.hi > 2):
            ck.violation(where, f"the length guard of character literals puts its boundary inside {cell}: one and two bytes fit a word, three or more do not", construct="CharLiteral length")
            continue
        if too_long and not errs:
            ck.violation(where, "a character literal that encodes to more than two bytes is not reported", construct="CharLiteral length")
        if not too_long and errs and cell.hi is not None and cell.hi <= 2:
            ck.violation(where, "a one- or two-byte character literal is reported as an error", construct="CharLiteral spurious")


def rule_R9(ck):
    repo = ck.repo
    where = "types::ParenthesizedExpression.resolve"
    X = sym.var("X", "int")
    for o, c in (("(", ")"), ("<", ">"), ("^/", "/")):
        I = eager_interp(repo)

        def thunk():
            sh = Shapes(I)
            return I.call_method(sh.paren(sh.xexpr(X, "X"), o, c), "resolve", [STATE])
        ps = I.explore(thunk)
        ck.instance(("bracket", o), {"bracket": o + "..." + c, "value": repr(ps[0].value)}, fn=where)
        if len(ps) != 1 or ps[0].value != X or ps[0].reported():
            ck.violation(where, f"grouping with {o}...{c} changes the value: {ps[0].value!r}", construct=f"bracket {o}")


def run(ck):
    ck.run_rule("C05.R1", "operator table: spelling, kind, precedence order, associativity", 22, rule_R1)
    ck.run_rule("C05.R2", "operator semantics per guard cell; division by zero and negative shifts are errors", 28, rule_R2)
    ck.run_rule("C05.R3", "trees built for every ordered pair of infix operators and for chains follow the precedence table", 60, rule_R3)
    ck.run_rule("C05.R4", "number(): value, label-ness and 8/9 flag for representatives of every literal spelling", 30, rule_R4)
    ck.run_rule("C05.R5", "Number.resolve reports bare digits with 8/9", 2, rule_R5)
    ck.run_rule("C05.R7", "character literal packing", 2, rule_R7)
    ck.run_rule("C05.R9", "bracket transparency", 3, rule_R9)
    from . import c03
    from . import c15 as _c15
    ck.run_rule("C15.pack", "^R literals: one to three characters, left-justified (pack_to_int pads with blanks)", 4, _c15.rule_pack)
    ck.run_rule("C03.R7", "LinearPolynomial arithmetic used when an operand is address-valued", 18, c03.rule_R7)
    ck.run_rule("C03.R6", "operators applied to not-yet-known operands later apply the same operation", 9, c03.rule_R6)
