"""C05 - expression values follow the documented arithmetic."""
import ast
import pathlib
import re

from ..engine import sym
from ..engine.interp import Rec, Cell, ClassVal, Closure, Raised, ExcVal, Env, Unsupported
from ..engine.loader import Unknown, norm_text, walk_local
from ..engine.sym import is_sym
from ..rules.world import STATE, Shapes, eager_interp

REF = pathlib.Path(__file__).resolve().parent.parent.parent / "ref"
EXPLANATION = (
    "R1: the operator registry is folded from the @operator decorators (spelling, kind, precedence, associativity) and "
    "compared with ref/operators.txt; precedences are compared as an order, not as numbers. R2: every arithmetic "
    "operator body is abstractly executed on symbolic integers; per cell of its guards the result must be the reference "
    "normal form, and division by zero / negative shift counts must reach an error diagnostic. R3: the pop condition of "
    "the precedence loop in expression() is evaluated over the complete order type of (incoming, top) precedence x "
    "associativity. R4/R5: number() is abstractly executed with its sub-parsers summarised (each may match or not): every "
    "returning path must construct the value int(digits, radix) * sign with the radix its spelling states; bare digits "
    "with 8/9 are flagged and Number.resolve reports them. R7: CharLiteral packs the first two encoded bytes "
    "little-endian. R9: every bracket kind is transparent.")
ASSUMPTIONS = ["the recursive-descent parser builds the tree the table implies (not decided)"]
TRUSTED = ["ref/operators.txt", "sa.engine.interp"]
LEVEL_TEXT = "Operator semantics hold for all integers (normal forms / cells); parser realisation of the table is outside."
LEVEL_NOTE = "trusted: ref/operators.txt and the interpreter; not decided: text -> tree for arbitrary texts"
TECHNIQUE = "closed-term folding of the operator registry + algebraic normal forms per guard cell + complete order-type valuation of the shunting condition"


def load_ops_ref():
    rows = []
    for line in (REF / "operators.txt").read_text().splitlines():
        parts = line.split(None, 4)
        if len(parts) < 5 or parts[1] not in ("infix", "prefix", "postfix"):
            continue
        sem = parts[4].split("#")[0].strip() if not parts[0].startswith("#") else parts[4].strip()
        rows.append((parts[0], parts[1], int(parts[2]), parts[3], sem))
    return rows


def fold_registry(repo):
    I = eager_interp(repo)
    reg = I.explore(lambda: I.module_get("operators", "operators"))[0].value
    out = {}
    for kindcls, cid in reg.items():
        kind = {"InfixOperator": "infix", "PrefixOperator": "prefix", "PostfixOperator": "postfix"}.get(kindcls.name)
        if kind is None:
            raise Unknown(f"operator kind {kindcls!r}")
        for key, (char, cls) in cid.fields["container"].items():
            out[(char.lower(), kind)] = cls
    return I, out


def rule_R1(ck):
    I, reg = fold_registry(ck.repo)
    ck.opreg = reg
    ref = load_ops_ref()
    where = "operators::<module>"
    refkeys = {(r[0].lower(), r[1]) for r in ref}
    for key in sorted(set(reg) - refkeys):
        ck.unknown(f"operator {key} has no row in ref/operators.txt")
    rows = []
    for spelling, kind, group, assoc, sem in ref:
        cls = reg.get((spelling.lower(), kind))
        ck.instance(("op", spelling, kind), {"operator": spelling, "kind": kind, "precedence": cls.attrs.get("precedence") if cls else None,
                                             "associativity": cls.attrs.get("associativity") if cls else None}, fn=where)
        if cls is None:
            ck.violation(where, f"{kind} operator '{spelling}' is not registered", construct=f"operator {spelling} {kind}")
            continue
        if cls.attrs.get("associativity") != assoc:
            ck.violation(where, f"{kind} operator '{spelling}' is {cls.attrs.get('associativity')}-associative, documented {assoc}", construct=f"operator {spelling} {kind} assoc")
        base = [b.name for b in cls.bases]
        rows.append((spelling, kind, group, cls.attrs.get("precedence")))
    # order agreement: for every pair, sign(group_a - group_b) == sign(prec_a - prec_b)
    sgn = lambda x: (x > 0) - (x < 0)
    for i, a in enumerate(rows):
        for b in rows[i + 1:]:
            if sgn(a[2] - b[2]) != sgn(a[3] - b[3]):
                ck.violation(where, f"binding strength of {a[1]} '{a[0]}' (precedence {a[3]}) relative to {b[1]} '{b[0]}' (precedence {b[3]}) contradicts the documented C-like order",
                             construct=f"precedence {a[0]} {a[1]} vs {b[0]} {b[1]}")


def _cells_int(I, name):
    return I.add_cellvar(name)


SEM = {
    "a": lambda a, b: a, "neg(a)": lambda a, b: sym.neg(a), "not(a)": lambda a, b: sym.inv(a),
    "mul(a,b)": sym.mul, "add(a,b)": sym.add, "sub(a,b)": sym.sub, "and(a,b)": sym.band, "xor(a,b)": sym.bxor, "or(a,b)": sym.bor,
    "floordiv(a,b)": sym.floordiv, "mod(a,b)": sym.mod, "shl(a,b)": sym.shl, "shr(a,b)": sym.shr,
}


def equal_on_cell(got, want, var, cell):
    if got == want:
        return True
    if cell is not None and cell.finite() and cell.hi - cell.lo <= 64:
        return all(sym.subst(got, {var: v}) == sym.subst(want, {var: v}) for v in cell.members())
    return False


def rule_R2(ck):
    repo = ck.repo
    I, reg = fold_registry(repo)
    ref = load_ops_ref()
    A = sym.var("a", "int")
    for spelling, kind, group, assoc, sem in ref:
        cls = reg.get((spelling.lower(), kind))
        if cls is None:
            continue
        fn = cls.attrs.get("fn")
        where = f"operators::{getattr(fn, 'name', '?')}"
        token = cls.attrs.get("token")
        I = eager_interp(repo)
        B = I.add_cellvar("b")
        TOK = sym.var("token", "obj")
        args = ([TOK] if token else []) + ([A, B] if kind == "infix" else [A])
        paths = I.explore(lambda: I.call(fn, list(args), {}))
        main, _, errc = sem.partition(";")
        main = main.strip()
        errc = errc.strip()
        for p in paths:
            cell = p.cells[B]
            errs = [e[2] for e in p.reported()]
            ck.instance(("sem", spelling, kind, repr(cell)), {"operator": f"{kind} {spelling}", "cell of b": repr(cell), "result": f"{p.kind} {p.value!r}", "errors": errs}, fn=where)
            if main == "misuse":
                if not errs or p.kind != "return" or p.value != (B if kind == "infix" else A):
                    ck.violation(where, f"syntax-only operator '{spelling}' evaluated as a value must report an error and return its operand; got {p.value!r}, errors {errs}", construct=f"operator {spelling} {kind} misuse")
                continue
            # error condition of the reference
            err_expected = False
            if errc == "err(b == 0)":
                err_expected = cell.lo == 0 and cell.hi == 0
                straddle = (cell.lo is None or cell.lo <= 0) and (cell.hi is None or cell.hi >= 0) and not err_expected
                if straddle:
                    ck.violation(where, f"'{spelling}': divisor zero is not separated from non-zero divisors (cell {cell}): division by zero is not reported", construct=f"operator {spelling} zero guard")
                    continue
            elif errc == "err(b < 0)":
                err_expected = cell.hi is not None and cell.hi < 0
                straddle = (cell.lo is None or cell.lo < 0) and (cell.hi is None or cell.hi >= 0)
                if straddle:
                    ck.violation(where, f"'{spelling}': negative counts are not separated from non-negative ones (cell {cell})", construct=f"operator {spelling} sign guard")
                    continue
            if p.kind != "return":
                ck.violation(where, f"'{spelling}' raises {p.value!r} for b in {cell}", construct=f"operator {spelling} raise")
                continue
            if err_expected:
                if not errs:
                    ck.violation(where, f"'{spelling}' with b in {cell} must be reported as an error", construct=f"operator {spelling} error")
                continue
            if errs:
                ck.violation(where, f"'{spelling}' reports {errs} for legal operands (b in {cell})", construct=f"operator {spelling} spurious error")
                continue
            if "?" in main:
                # b >= 0 ? shl(a,b) : shr(a,neg(b))
                nonneg = cell.lo is not None and cell.lo >= 0
                neg = cell.hi is not None and cell.hi < 0
                if not nonneg and not neg:
                    ck.violation(where, f"'{spelling}': sign of b not decided in cell {cell}", construct=f"operator {spelling} sign guard")
                    continue
                want = sym.shl(A, B) if nonneg else sym.shr(A, sym.neg(B))
            else:
                want = SEM[main](A, B)
            if not equal_on_cell(p.value, want, B, cell):
                ck.violation(where, f"'{spelling}' computes {p.value!r} for b in {cell}, documented arithmetic is {want!r}", construct=f"operator {spelling} {kind} semantics", expected=repr(want), found=repr(p.value))


def rule_R3(ck):
    """pop condition of the shunting loop, both sites"""
    repo = ck.repo
    fn = repo.func("parser::expression")
    mod = repo.module("parser")
    sites = []
    for n in walk_local(fn):
        if isinstance(n, ast.While) and any(isinstance(c, ast.Call) and norm_text(c.func) == "pop_op_stack" for b in n.body for c in ast.walk(b)):
            if not isinstance(n.test, ast.Constant) and not (isinstance(n.test, ast.Name) and n.test.id == "op_stack"):
                sites.append(n)
    I = eager_interp(repo)
    for w in sites:
        for p_in, q_top in ((1, 2), (2, 2), (3, 2)):
            for left in (True, False):
                env = Env()
                opcls = ClassVal("Top")
                opcls.attrs["precedence"] = q_top
                opcls.attrs["associativity"] = "left"
                env.vars.update(self_precedence=p_in, is_left_associative=left, op_stack=[{"operator": opcls}])
                got = I.explore(lambda: I.truth(I.ev(w.test, env, mod)))
                want = p_in > q_top or (p_in == q_top and left)
                ck.instance(("pop", w.lineno, p_in - q_top, left), {"incoming-top precedence": p_in - q_top, "incoming left-assoc": left, "pops": got[0].value, "expected": want}, fn="parser::expression")
                if len(got) != 1 or got[0].value != want:
                    ck.violation(w, f"precedence loop pops={got[0].value} when incoming precedence {'>' if p_in > q_top else '==' if p_in == q_top else '<'} top and incoming is {'left' if left else 'right'}-associative; expected {want}",
                                 construct="shunting pop condition " + norm_text(w.test))
        # empty stack never pops
        env = Env()
        env.vars.update(self_precedence=5, is_left_associative=True, op_stack=[])
        got = I.explore(lambda: I.truth(I.ev(w.test, env, mod)))
        if got[0].value:
            ck.violation(w, "precedence loop pops from an empty stack", construct="shunting empty")
    if len(sites) < 2:
        ck.unknown(f"expected two precedence-driven pop loops in expression(), found {len(sites)}")
    # the final flush pops everything
    flush = [n for n in walk_local(fn) if isinstance(n, ast.While) and isinstance(n.test, ast.Name) and n.test.id == "op_stack"]
    ck.instance("flush", None, fn="parser::expression")
    if not flush:
        ck.violation("parser::expression", "operators left on the stack at the end of an expression are not applied", construct="final flush")


# ------------------------------------------------------------------------------------------ number()
def parser_kind(rec):
    fn = rec.fields.get("fn")
    if not isinstance(fn, Closure):
        return ("?",)
    env = fn.env
    if "literal" in env.vars and "case_sensitive" in env.vars and "regex" not in env.vars:
        return ("literal", env.vars["literal"])
    if "regex" in env.vars and isinstance(env.vars["regex"], re.Pattern):
        return ("regex", env.vars["regex"].pattern, env.vars["regex"].flags)
    if "rhs" in env.vars and "self" in env.vars:
        return ("combo",)
    if "self" in env.vars:
        return ("invert",)
    return ("fn", fn.name)


def rule_R4(ck):
    repo = ck.repo
    where = "parser::number"
    NUM = sym.var("num", "str")
    I = eager_interp(repo)
    log = []

    def parser_call(I_, fn, args, kwargs):
        self = args[0]
        kind = parser_kind(self)
        maybe = kwargs.get("maybe", False)
        report = kwargs.get("report")
        if kind[0] == "literal":
            if I_.choose(("match-literal", kind[1], len([l for l in log if l == kind]))):
                log.append(kind)
                return kind[1]
            if maybe:
                return None
            raise Raised(ExcVal("RecoverableError", cls=I_.module_get("reports", "RecoverableError")))
        if kind[0] == "regex":
            log.append(kind)
            return NUM
        if kind[0] in ("combo", "invert"):
            if I_.choose(("match-colon",)):
                return ":"
            if maybe:
                return None
            raise Raised(ExcVal("RecoverableError", cls=I_.module_get("reports", "RecoverableError")))
        raise Unsupported(f"number(): unexpected sub-parser {kind}")
    I.summaries["parser::Parser.__call__"] = parser_call
    CTX = sym.var("ctx", "obj")
    rec = I.explore(lambda: I.module_get("parser", "number"))[0].value
    inner = rec.fields["fn"]

    def thunk():
        del log[:]
        r = I.call(inner, [CTX], {})
        return r, list(log)
    paths = I.explore(thunk)
    seen = set()
    radix_regex = {}
    for p in paths:
        dec = dict()
        for k, v in p.decisions:
            dec[k] = v
        lits = [k[1] for k, v in p.decisions if k[0] == "match-literal" and v]
        negative = "-" in lits
        prefix = [l for l in lits if l.startswith("^")]
        sign = -1 if negative else 1
        if p.kind == "raise":
            continue
        val, lg = p.value
        if not isinstance(val, Rec) or val.cls.name != "Number":
            ck.violation(where, f"number() returns {val!r}", construct="number result")
            continue
        value = val.fields["value"]
        errs = [e[2] for e in p.reported()]
        if prefix:
            base = {"^x": 16, "^o": 8, "^b": 2, "^d": 10}.get(prefix[0])
            rx = [l for l in lg if l[0] == "regex"]
            want = sym.mul(sym.op("int", NUM, base), sign) if base else None
            key = ("caret", prefix[0], negative)
            if key not in seen:
                seen.add(key)
                ck.instance(key, {"spelling": f"{'-' if negative else ''}{prefix[0].upper()}<digits>", "value": repr(value)}, fn=where)
            if base is None or value != want:
                ck.violation(where, f"literal {prefix[0].upper()}<digits> evaluates to {value!r}, expected {want!r}", construct=f"radix prefix {prefix[0]}", expected=repr(want), found=repr(value))
            if rx:
                radix_regex[prefix[0]] = (rx[-1][1], rx[-1][2], base)
            if val.fields.get("is_valid_label"):
                ck.violation(where, f"{prefix[0]} literal can be taken for a local label", construct=f"radix prefix {prefix[0]} label")
            continue
        # classify by the decisions on the digit string
        conds = [(k[1], v) for k, v in p.decisions if k[0] in ("truth", "isdigit")]
        txt = " & ".join(("" if v else "not ") + repr(k) for k, v in conds)
        has_dot = any(v and is_sym(k) and "'.'" in repr(k) and "==" in repr(k) and "-1" in repr(k) for k, v in conds)
        isdigit = any(v and (k[0] == "isdigit" or (k[0] == "regexmatch" and k[1] == "re.fullmatch" and k[2] in (r"[0-9]+", r"\d+", r"[0-9]+\Z"))) for k, v in p.decisions)
        has89 = any(v and is_sym(k) and k[:2] == ("op", "in") and k[2] in ("8", "9") for k, v in conds)
        body = sym.op("slice", NUM, None, -1, None) if has_dot else NUM
        if isdigit:
            if has_dot:
                want, kindname = sym.mul(sym.op("int", body, 10), sign), "decimal (trailing dot)"
            elif has89:
                want, kindname = sym.mul(sym.op("int", body, 10), sign), "bare digits with 8/9"
            else:
                want, kindname = sym.mul(sym.op("int", body, 8), sign), "bare octal"
            key = (kindname, negative)
            if key not in seen:
                seen.add(key)
                ck.instance(key, {"spelling": kindname, "negative": negative, "value": repr(value), "invalid_base8": val.fields.get("invalid_base8"), "errors": errs}, fn=where)
            if value != want:
                ck.violation(where, f"{kindname} literal evaluates to {value!r}, expected {want!r}", construct=f"number {kindname}", expected=repr(want), found=repr(value))
            if kindname == "bare digits with 8/9" and not (errs or val.fields.get("invalid_base8") is True):
                ck.violation(where, "a bare digit string containing 8 or 9 is accepted silently (neither reported nor flagged invalid_base8)", construct="number 8/9 flag", rule="C05.R5")
            if kindname != "bare digits with 8/9" and (errs or val.fields.get("invalid_base8")):
                ck.violation(where, f"{kindname} literal is flagged/reported as invalid", construct=f"number {kindname} spurious")
        else:
            # C-style 0x / 0o / 0b
            if not (is_sym(value) or isinstance(value, int)):
                ck.violation(where, f"number() value {value!r}", construct="number c-style")
                continue
            want_prefix = sym.op("int", sym.op("slice", body, 2, None, None), None)
            ok = False
            v = value
            if is_sym(v) and v[0] == "lin":
                (term, coeff), = v[1] if len(v[1]) == 1 else ((None, None),)
                v = term if coeff == sign and value[2] == 0 else None
            elif sign == 1:
                v = value
            if is_sym(v) and v[:2] == ("op", "int") and v[2] == sym.op("slice", body, 2, None, None):
                b = v[3]
                if is_sym(b) and b[:2] == ("op", "item") and is_sym(b[2]) and b[2][:2] == ("op", "const"):
                    table = I.consts.get(b[2][2])
                    keyexpr = b[3]
                    if keyexpr == sym.op("lower", sym.op("item", body, 1)):
                        ok = True
                        key = ("c-style", negative)
                        if key not in seen:
                            seen.add(key)
                            ck.instance(key, {"spelling": "0x/0o/0b", "BASES": table, "value": repr(value)}, fn=where)
                        if table != {"x": 16, "o": 8, "b": 2}:
                            ck.violation(where, f"C-style radix letters map to {table}, expected x:16 o:8 b:2", construct="BASES", expected={"x": 16, "o": 8, "b": 2}, found=table)
            if not ok:
                ck.violation(where, f"C-style literal evaluates to {value!r}, expected int(num[2:], BASES[num[1].lower()]) * sign", construct="number c-style value")
    need = {("caret", "^x", False), ("caret", "^o", False), ("caret", "^b", False), ("caret", "^d", False), ("decimal (trailing dot)", False),
            ("bare octal", False), ("bare octal", True), ("bare digits with 8/9", False), ("c-style", False)}
    for k in sorted(need - seen, key=str):
        ck.violation(where, f"no path of number() produces a {k[0]} {k[1] if isinstance(k[1], str) else ''} literal any more", construct=f"number kind {k[0]} {k[1]}")
    # digit classes of the caret forms
    import re._parser as rp
    for pfx, (pattern, flags, base) in sorted(radix_regex.items()):
        parsed = rp.parse(pattern, flags)
        first = parsed[0]
        allowed = set("0123456789abcdefghijklmnopqrstuvwxyz"[:base]) if base else set()
        chars = set()
        unicode_digits = False
        if str(first[0]) == "MAX_REPEAT":
            inner = first[1][2]
            items = inner[0][1] if str(inner[0][0]) == "IN" else [inner[0]]
            for kind, val in items:
                if str(kind) == "LITERAL":
                    chars.add(chr(val).lower())
                elif str(kind) == "RANGE":
                    chars.update(chr(c).lower() for c in range(val[0], val[1] + 1))
                elif str(kind) == "CATEGORY" and "DIGIT" in str(val):
                    unicode_digits = True
                    chars.update("0123456789")
                else:
                    raise Unknown(f"digit class of {pfx}: {kind} {val}")
        else:
            raise Unknown(f"digit regex of {pfx} is not a repetition: {pattern}")
        ck.instance(("digits", pfx), {"prefix": pfx, "regex": pattern, "base": base}, fn=where)
        if chars != allowed:
            ck.violation(where, f"digits accepted after {pfx.upper()} are {''.join(sorted(chars))}, radix {base} has {''.join(sorted(allowed))}", construct=f"radix digits {pfx}")


def rule_R5(ck):
    repo = ck.repo
    where = "types::Number.resolve"
    for flag in (True, False):
        I = eager_interp(repo)

        def thunk():
            sh = Shapes(I)
            n = sh.mk(I.module_get("types", "Number"), None, None, "19", 19, True, flag)
            return I.call_method(n, "resolve", [STATE])
        ps = I.explore(thunk)
        ck.instance(("resolve", flag), {"invalid_base8": flag, "result": repr(ps[0].value), "errors": [e[2] for e in ps[0].reported()]}, fn=where)
        if len(ps) != 1 or ps[0].value != 19:
            ck.violation(where, f"Number.resolve returns {ps[0].value!r}", construct="Number.resolve value")
        if flag and not ps[0].reported():
            ck.violation(where, "using a bare digit string that contains 8 or 9 does not report an error", construct="Number.resolve 8/9 report")
        if not flag and ps[0].reported():
            ck.violation(where, "a valid number reports an error when used", construct="Number.resolve spurious")


def rule_R7(ck):
    repo = ck.repo
    where = "types::CharLiteral.resolve"
    STR = sym.var("chars", "str")
    CS = sym.op("attr", sym.op("item", STATE, "compiler"), "output_charset")
    I = eager_interp(repo)
    enc = sym.op("encode", STR, CS)
    LEN = I.add_cell(sym.op("len", enc), 0, None)

    def thunk():
        sh = Shapes(I)
        c = sh.mk(I.module_get("types", "CharLiteral"), None, None, "'x", STR)
        return I.call_method(c, "resolve", [STATE])
    want = sym.op("item", sym.op("unpack", "<H", sym.op("ljustb", sym.op("slice", enc, None, 2, None), 2, b"\x00")), 0)
    for p in I.explore(thunk):
        cell = p.cells[LEN]
        errs = [e[2] for e in p.reported()]
        ck.instance(("char", repr(cell)), {"encoded length": repr(cell), "value": repr(p.value), "errors": errs}, fn=where)
        if p.kind != "return" or p.value != want:
            ck.violation(where, f"character literal evaluates to {p.value!r}, expected the first two encoded bytes, zero padded, as a little-endian word: {want!r}", construct="CharLiteral packing", expected=repr(want), found=repr(p.value))
        too_long = cell.lo is not None and cell.lo > 2
        if too_long and not errs:
            ck.violation(where, "a character literal that encodes to more than two bytes is not reported", construct="CharLiteral length")
        if not too_long and errs and cell.hi is not None and cell.hi <= 2:
            ck.violation(where, "a one- or two-byte character literal is reported as an error", construct="CharLiteral spurious")


def rule_R9(ck):
    repo = ck.repo
    where = "types::ParenthesizedExpression.resolve"
    X = sym.var("X", "int")
    for o, c in (("(", ")"), ("<", ">"), ("^/", "/")):
        I = eager_interp(repo)

        def thunk():
            sh = Shapes(I)
            return I.call_method(sh.paren(sh.xexpr(X, "X"), o, c), "resolve", [STATE])
        ps = I.explore(thunk)
        ck.instance(("bracket", o), {"bracket": o + "..." + c, "value": repr(ps[0].value)}, fn=where)
        if len(ps) != 1 or ps[0].value != X or ps[0].reported():
            ck.violation(where, f"grouping with {o}...{c} changes the value: {ps[0].value!r}", construct=f"bracket {o}")


def run(ck):
    ck.run_rule("C05.R1", "operator table: spelling, kind, precedence order, associativity", 22, rule_R1)
    ck.run_rule("C05.R2", "operator semantics per guard cell; division by zero and negative shifts are errors", 28, rule_R2)
    ck.run_rule("C05.R3", "precedence loop pop condition over the complete order type", 13, rule_R3)
    ck.run_rule("C05.R4", "number(): radix of every literal spelling; digit classes", 10, rule_R4)
    ck.run_rule("C05.R5", "Number.resolve reports bare digits with 8/9", 2, rule_R5)
    ck.run_rule("C05.R7", "character literal packing", 2, rule_R7)
    ck.run_rule("C05.R9", "bracket transparency", 3, rule_R9)
    from . import c03
    ck.run_rule("C03.R7", "LinearPolynomial arithmetic used when an operand is address-valued", 18, c03.rule_R7)
    ck.run_rule("C03.R6", "operators applied to not-yet-known operands later apply the same operation", 9, c03.rule_R6)
