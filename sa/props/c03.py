"""C03 - symbol values do not depend on definition order (the 'try now, else defer' protocol)."""
import ast

from ..engine import sym, flow
from ..engine.interp import Rec, PyFn, Raised, ExcVal, ClassVal, Unsupported, Interp
from ..engine.loader import Unknown, norm_text, walk_local, FUNC_TYPES
from ..engine.sym import is_sym
from ..rules import thunks, escape
from ..rules.world import STATE, Shapes, eager_interp, emit_report_summary
from . import c02

EXPLANATION = (
    "The statement is about the run-time value graph; statically the protocol that makes order irrelevant is decided, each "
    "rule a necessary condition. R1: the undefined-symbol report and Promise's 'not ready' raise are dominated by "
    "not_ready() (must-dataflow). R2: Deferred._wait memoises only after the thunk returned (abstract execution with a "
    "thunk that raises / returns). R3: construct() evaluates under try_compute, which suppresses exactly NotReadyError and "
    "restores the depth; not_ready() raises iff depth > 0. R4 = G1 thunks capture by value. R6: operator resolve() "
    "with a not-yet-known operand yields a deferred whose later value is the operator applied to the operands' values. "
    "R7: LinearPolynomial algebra (add, neg, sub, mul, rmul, late substitution in _wait) is checked as polynomial "
    "normal forms over symbolic coefficients. R8: a binding found through the export map is not accepted before "
    "not_ready(). R9: the symbol tables are read only by duplicate guards, lazily, or after the whole image was waited.")
ASSUMPTIONS = ["equality of results across all definition orders at run time is not decided", "recursion depth: decided only as rule G12 (no int-valued thunk forces its operand; four sites of the pinned tree do and are known findings)"]
TRUSTED = ["sa.engine.interp", "sa.engine.flow"]
LEVEL_TEXT = "Protocol facts hold on every path of the code; the algebra holds for all coefficient values (polynomial identity)."
LEVEL_NOTE = "necessary conditions; the run-time evaluation order is not modelled"
TECHNIQUE = "must-dataflow dominance + abstract interpretation of the deferred classes + polynomial normal forms of LinearPolynomial operations"


def lazy_interp(repo):
    """interpreter with the real (lazy) deferred classes; only diagnostics are summarised"""
    I = eager_interp(repo)
    I.summaries = {"reports::emit_report": emit_report_summary}
    return I


def gen_calls(names):
    def gen(node):
        if isinstance(node, ast.Call) and flow.call_name(node) in names:
            return {flow.call_name(node)}
        return set()
    return gen


def rule_R1(ck):
    repo = ck.repo
    # Symbol._resolve: the undefined-symbol report
    fn = repo.func("types::Symbol._resolve")
    reps = [c for c in ast.walk(fn) if isinstance(c, ast.Call) and flow.call_name(c) in ("error", "critical") and c.args and isinstance(c.args[0], ast.Constant)
            and c.args[0].value == "undefined-symbol"]
    if not reps:
        raise Unknown("Symbol._resolve no longer reports 'undefined-symbol'")
    for r in reps:
        facts = flow.facts_before(fn, r, gen_calls({"not_ready"}))
        ck.instance(("undefined-symbol", r.lineno), {"report": "undefined-symbol", "dominated by": sorted(facts) if facts is not None else "unreachable"}, fn="types::Symbol._resolve")
        if facts is not None and "not_ready" not in facts:
            ck.violation(r, "an unknown symbol is reported as undefined without first giving up in try mode (not_ready()): a symbol defined later in the source is an error instead of a forward reference",
                         construct="undefined-symbol before not_ready")
    # Promise._wait: the raise
    fn = repo.func("deferred::Promise._wait")
    raises = [n for n in walk_local(fn) if isinstance(n, ast.Raise)]
    if not raises:
        ck.note("Promise._wait has no raise any more")
    for r in raises:
        facts = flow.facts_before(fn, r, gen_calls({"not_ready"}))
        ck.instance(("promise-raise", r.lineno), {"raise": norm_text(r)[:60], "dominated by": sorted(facts) if facts is not None else "unreachable"}, fn="deferred::Promise._wait")
        if facts is not None and "not_ready" not in facts:
            ck.violation(r, "an unsettled promise raises without first giving up in try mode", construct="promise raise before not_ready")
    # settled promise returns its value
    I = lazy_interp(repo)
    V = sym.var("V", "int")

    def thunk():
        P = I.module_get("deferred", "Promise")
        p = I.instantiate(P, [I.builtin_types["int"], "LA"], {})
        I.call_method(p, "settle", [V])
        return I.call_method(p, "wait", [])
    ps = I.explore(thunk)
    ck.instance("promise-value", {"settled promise waits to": repr(ps[0].value)}, fn="deferred::Promise._wait")
    if len(ps) != 1 or ps[0].value != V:
        ck.violation("deferred::Promise._wait", f"a settled promise does not yield its value: {ps}", construct="promise value")


def rule_R2(ck):
    repo = ck.repo
    where = "deferred::Deferred._wait"
    I = lazy_interp(repo)
    V = sym.var("V", "int")
    calls = []
    # get_current_best_estimate: the object itself while unknown, the value once known (every deferred class)
    def estimates():
        bt = I.builtin_types["int"]
        D, P = I.module_get("deferred", "Deferred"), I.module_get("deferred", "Promise")
        d = I.instantiate(D, [bt, PyFn(lambda I_, a, k: V)], {})
        p_ = I.instantiate(P, [bt, "p"], {})
        before = (I.call_method(d, "get_current_best_estimate", []) is d, I.call_method(p_, "get_current_best_estimate", []) is p_)
        I.call_method(d, "wait", [])
        I.call_method(p_, "settle", [V])
        after = (I.call_method(d, "get_current_best_estimate", []), I.call_method(p_, "get_current_best_estimate", []))
        return before, after
    ps = I.explore(estimates)
    ck.instance("best-estimate", {"unknown -> itself, known -> value": repr(ps[0].value) if ps else None}, fn="deferred::Deferred.get_current_best_estimate")
    if len(ps) != 1 or ps[0].kind != "return" or ps[0].value != ((True, True), (V, V)):
        ck.violation("deferred::Deferred.get_current_best_estimate", f"get_current_best_estimate of (a thunk, a promise) before / after they are known gives {ps[0].value!r}; expected the object itself while unknown "
                                                                     "and the value afterwards: polynomial arithmetic substitutes estimates, a wrong one silently changes symbol values", construct="best estimate")

    def thunk_fail():
        D = I.module_get("deferred", "Deferred")
        NR = I.module_get("deferred", "NotReadyError")

        def fn(I_, a, k):
            calls.append(1)
            raise Raised(ExcVal("NotReadyError", cls=NR))
        d = I.instantiate(D, [I.builtin_types["int"], PyFn(fn)], {})
        try:
            I.call_method(d, "wait", [])
        except Raised:
            pass
        return d.fields.get("settled"), d.fields.get("value"), d.fields.get("is_awaiting")
    ps = I.explore(thunk_fail)
    ck.instance("memo-failure", {"after a failed evaluation (settled, value, is_awaiting)": repr(ps[0].value)}, fn=where)
    if len(ps) != 1 or ps[0].value[0] is not False:
        ck.violation(where, "a deferred whose thunk did not finish is marked settled: the failed attempt is memoised and a later definition is never seen", construct="settled before success")
    if ps[0].value[2] is not False:
        ck.violation("deferred::Awaiting.__exit__", "a deferred stays marked 'awaiting' after a failed evaluation: the next attempt is reported as a cycle", construct="is_awaiting not reset")

    def thunk_ok():
        del calls[:]
        D = I.module_get("deferred", "Deferred")

        def fn(I_, a, k):
            calls.append(1)
            return V
        d = I.instantiate(D, [I.builtin_types["int"], PyFn(fn)], {})
        a = I.call_method(d, "wait", [])
        b = I.call_method(d, "wait", [])
        return a, b, len(calls), d.fields.get("settled")
    ps = I.explore(thunk_ok)
    ck.instance("memo-success", {"two waits (first, second, thunk calls, settled)": repr(ps[0].value)}, fn=where)
    if len(ps) != 1 or ps[0].value != (V, V, 1, True):
        ck.violation(where, f"waiting a deferred twice gives {ps[0].value!r}; expected the thunk's value both times with one evaluation", construct="memoisation")
    # cycle detection: waiting a deferred from inside its own thunk raises DeferredCycle
    def thunk_cycle():
        D = I.module_get("deferred", "Deferred")
        box = {}

        def fn(I_, a, k):
            return I_.call_method(box["d"], "wait", [])
        box["d"] = I.instantiate(D, [I.builtin_types["int"], PyFn(fn)], {})
        return I.call_method(box["d"], "wait", [])
    ps = I.explore(thunk_cycle)
    ck.instance("cycle", {"self-waiting deferred": repr(ps[0].value)}, fn="deferred::Awaiting.__enter__")
    if len(ps) != 1 or ps[0].kind != "raise" or ps[0].value.name != "DeferredCycle":
        ck.violation("deferred::Awaiting.__enter__", f"a deferred that waits for itself is not detected as a cycle: {ps}", construct="cycle detection")


def rule_R3(ck):
    repo = ck.repo
    I = lazy_interp(repo)
    V = sym.var("V", "int")
    for clsname, extra in (("Deferred", []), ("SizedDeferred", [2])):
        where = f"deferred::{clsname}.construct"

        def run(kind):
            def thunk():
                C = I.module_get("deferred", clsname)
                not_ready = I.module_get("deferred", "not_ready")
                RE = I.module_get("reports", "RecoverableError")

                def fn(I_, a, k):
                    if kind == "notready":
                        I_.call(not_ready, [], {})
                        return sym.var("AFTER", "int")
                    if kind == "error":
                        raise Raised(ExcVal("RecoverableError", cls=RE))
                    return V
                ctor = I.getitem(C, I.builtin_types["int"])
                r = I.call(ctor, extra + [PyFn(fn)], {})
                tc = I.module_get("deferred", "try_compute")
                return r, I.getattr(tc, "depth")
            return I.explore(thunk)
        ps = run("value")
        ck.instance((clsname, "value"), {"thunk returns": "V", "construct gives": repr(ps[0].value)}, fn=where)
        if len(ps) != 1 or ps[0].kind != "return" or ps[0].value != (V, 0):
            ck.violation(where, f"{clsname}[T](thunk) with a computable thunk gives {ps[0].value!r}; expected the value at once (and try depth back to 0)", construct=f"{clsname} eager value")
        ps = run("notready")
        ok = len(ps) == 1 and ps[0].kind == "return" and isinstance(ps[0].value[0], Rec) and ps[0].value[0].cls.name == clsname and ps[0].value[1] == 0
        ck.instance((clsname, "notready"), {"thunk hits not_ready()": True, "construct gives": repr(ps[0].value)[:120]}, fn=where)
        if not ok:
            ck.violation(where, f"{clsname}[T](thunk) whose thunk is not ready gives {ps[0].value!r}; expected the unevaluated object, with the try depth restored to 0", construct=f"{clsname} deferral")
        elif ps[0].value[0].fields.get("settled") is not False:
            ck.violation(where, "the unevaluated object is marked settled", construct=f"{clsname} deferral settled")
        ps = run("error")
        ck.instance((clsname, "error"), {"thunk raises RecoverableError": True, "construct": ps[0].kind}, fn=where)
        if len(ps) != 1 or ps[0].kind != "raise" or ps[0].value.name != "RecoverableError":
            ck.violation(where, f"an error inside the thunk is swallowed by construct(): {ps}", construct=f"{clsname} swallows errors")
    # not_ready() raises iff in try mode
    def t0():
        return I.call(I.module_get("deferred", "not_ready"), [], {})
    ps = I.explore(t0)
    ck.instance("not_ready-outside", {"outside try mode": ps[0].kind}, fn="deferred::not_ready")
    if len(ps) != 1 or ps[0].kind != "return":
        ck.violation("deferred::not_ready", "not_ready() raises outside try mode: undefined symbols are never reported", construct="not_ready outside try")

    def t1():
        tc = I.module_get("deferred", "try_compute")
        I.call_method(tc, "__enter__", [])
        try:
            return I.call(I.module_get("deferred", "not_ready"), [], {})
        finally:
            I.call_method(tc, "__exit__", [None, None, None])
    ps = I.explore(t1)
    ck.instance("not_ready-inside", {"inside try mode": ps[0].kind}, fn="deferred::not_ready")
    if len(ps) != 1 or ps[0].kind != "raise" or ps[0].value.name != "NotReadyError":
        ck.violation("deferred::not_ready", "not_ready() does not raise NotReadyError in try mode: a forward reference is reported as undefined", construct="not_ready inside try")
    # TryCompute.__exit__ suppresses exactly NotReadyError
    for exc, want in (("NotReadyError", True), ("DeferredCycle", False)):
        def t2():
            tc = I.module_get("deferred", "try_compute")
            I.call_method(tc, "__enter__", [])
            return I.truth(I.call_method(tc, "__exit__", [I.module_get("deferred", exc), None, None]))
        ps = I.explore(t2)
        ck.instance(("suppress", exc), {"exception": exc, "suppressed": ps[0].value}, fn="deferred::TryCompute.__exit__")
        if ps[0].value is not want:
            ck.violation("deferred::TryCompute.__exit__", f"try mode {'does not suppress' if want else 'suppresses'} {exc}", construct=f"try_compute suppress {exc}")


def rule_R6(ck):
    repo = ck.repo
    I = lazy_interp(repo)
    A, B = sym.var("A", "int"), sym.var("B", "int")
    samples = [("add", sym.add(A, B)), ("sub", sym.sub(A, B)), ("mul", sym.mul(A, B)), ("and_", sym.band(A, B)), ("or_", sym.bor(A, B)), ("xor", sym.bxor(A, B)),
               ("div", sym.floordiv(A, B)), ("lshift", None), ("neg", sym.neg(A)), ("inv", sym.inv(A)), ("pos", A)]
    for opname, want in samples:
        unary = opname in ("neg", "inv", "pos")

        def thunk():
            sh = Shapes(I)
            P = I.module_get("deferred", "Promise")
            prom = I.instantiate(P, [I.builtin_types["int"], "X"], {})
            lhs = sh.xexpr(prom, "lhs")
            rhs = sh.xexpr(B, "rhs")
            tok = sh.un(opname, lhs) if unary else sh.bin(opname, lhs, rhs)
            first = I.call_method(tok, "resolve", [STATE])
            is_def = isinstance(first, Rec) and any(c.name == "BaseDeferred" for c in first.cls.mro())
            I.call_method(prom, "settle", [A])
            wait = I.module_get("deferred", "wait")
            return is_def, I.call(wait, [first], {}) if is_def else first
        try:
            ps = I.explore(thunk)
        except Unsupported as ex:
            ck.unknown(f"operator {opname}: {ex}")
            continue
        where = f"operators::{'UnaryOperator' if unary else 'InfixOperator'}.resolve"
        rets = [p for p in ps if p.kind == "return"]
        ck.instance(("defer", opname), {"operator": opname, "with an unknown operand": "deferred" if rets and rets[0].value[0] else "value", "later value": repr(rets[0].value[1]) if rets else None}, fn=where)
        if not rets or len(rets) != len(ps):
            ck.violation(where, f"operator {opname} with a not-yet-known operand raises {[p.value for p in ps if p.kind == 'raise']}", construct=f"defer {opname}")
            continue
        for p in rets:
            if any((not v) and k[0] == "truth" and is_sym(k[1]) and k[1][:3] == ("op", "cmp", "!=") for k, v in p.decisions):
                continue      # the degenerate path 'coefficient == 0' of the polynomial constructor
            is_def, val = p.value
            if not is_def:
                ck.violation(where, f"operator {opname} with a not-yet-known operand does not defer (it produced {val!r} at once)", construct=f"defer {opname}")
            elif want is not None and val != want and not (opname == "div" and p.cells):
                ck.violation(where, f"operator {opname}: the deferred result evaluates to {val!r} once the operand is known, expected {want!r}", construct=f"defer {opname} value", expected=repr(want), found=repr(val))


def mkpoly(I, coeffs, const):
    LP = I.module_get("deferred", "LinearPolynomial")
    return I.instantiate(LP, [I.builtin_types["int"], coeffs, const], {})


def poly_view(p):
    """(dict key-name -> coeff, const) of a LinearPolynomial record, or the plain value"""
    if isinstance(p, Rec) and p.cls.name == "LinearPolynomial":
        return {k.fields.get("name", "?"): v for k, v in p.fields["coeffs"].items()}, p.fields["constant_term"]
    return p


def rule_R7(ck):
    repo = ck.repo
    I = lazy_interp(repo)
    c1, c2, d1, C, D, L = (sym.var(n, "int") for n in ("c1", "c2", "d1", "C", "D", "L"))
    where = "deferred::LinearPolynomial"

    def prom(name):
        return I.instantiate(I.module_get("deferred", "Promise"), [I.builtin_types["int"], name], {})

    def run(build):
        def thunk():
            K1, K2 = prom("K1"), prom("K2")
            return poly_view(build(K1, K2))
        ps = I.explore(thunk)
        # zero-coefficient filtering forks on 'coeff != 0': keep the generic path (all coefficients non-zero)
        gen = [p for p in ps if all(v for k, v in p.decisions)]
        return gen[0] if gen else ps[0], ps

    cases = [
        ("neg", lambda K1, K2: I.call_method(mkpoly(I, {K1: c1, K2: c2}, C), "__neg__", []), ({"K1": sym.neg(c1), "K2": sym.neg(c2)}, sym.neg(C))),
        ("rmul int", lambda K1, K2: I.call_method(mkpoly(I, {K1: c1, K2: c2}, C), "__rmul__", [L]), ({"K1": sym.mul(c1, L), "K2": sym.mul(c2, L)}, sym.mul(C, L))),
        ("mul int", lambda K1, K2: I.call_method(mkpoly(I, {K1: c1, K2: c2}, C), "__mul__", [L]), ({"K1": sym.mul(c1, L), "K2": sym.mul(c2, L)}, sym.mul(C, L))),
        ("add int", lambda K1, K2: I.call_method(mkpoly(I, {K1: c1}, C), "__add__", [L]), ({"K1": c1}, sym.add(C, L))),
        ("radd int", lambda K1, K2: I.call_method(mkpoly(I, {K1: c1}, C), "__radd__", [L]), ({"K1": c1}, sym.add(C, L))),
        ("add poly", lambda K1, K2: I.call_method(mkpoly(I, {K1: c1, K2: c2}, C), "__add__", [mkpoly(I, {K1: d1}, D)]), ({"K1": sym.add(c1, d1), "K2": c2}, sym.add(C, D))),
        ("add deferred", lambda K1, K2: I.call_method(mkpoly(I, {K1: c1}, C), "__add__", [K2]), ({"K1": c1, "K2": 1}, C)),
        ("sub poly (base)", lambda K1, K2: I.binop(ast.Sub(), mkpoly(I, {K1: c1, K2: c2}, C), mkpoly(I, {K1: d1}, D)), ({"K1": sym.sub(c1, d1), "K2": c2}, sym.sub(C, D))),
        ("int - poly", lambda K1, K2: I.binop(ast.Sub(), L, mkpoly(I, {K1: c1}, C)), ({"K1": sym.neg(c1)}, sym.sub(L, C))),
        ("poly - int", lambda K1, K2: I.binop(ast.Sub(), mkpoly(I, {K1: c1}, C), L), ({"K1": c1}, sym.sub(C, L))),
        ("deferred + int", lambda K1, K2: I.binop(ast.Add(), K1, L), ({"K1": 1}, L)),
        ("int + deferred", lambda K1, K2: I.binop(ast.Add(), L, K1), ({"K1": 1}, L)),
        ("deferred - deferred", lambda K1, K2: I.binop(ast.Sub(), K1, K2), ({"K1": 1, "K2": -1}, 0)),
        ("deferred - itself", lambda K1, K2: I.binop(ast.Sub(), K1, K1), ({}, 0)),
        ("neg deferred", lambda K1, K2: I.call_method(K1, "__neg__", []), ({"K1": -1}, 0)),
        ("int * deferred", lambda K1, K2: I.binop(ast.Mult(), L, K1), ({"K1": L}, 0)),
        ("int * poly", lambda K1, K2: I.binop(ast.Mult(), L, mkpoly(I, {K1: c1}, C)), ({"K1": sym.mul(c1, L)}, sym.mul(C, L))),
        ("poly * int", lambda K1, K2: I.binop(ast.Mult(), mkpoly(I, {K1: c1}, C), L), ({"K1": sym.mul(c1, L)}, sym.mul(C, L))),
    ]
    for name, build, want in cases:
        try:
            p, allp = run(build)
        except Unsupported as ex:
            ck.unknown(f"LinearPolynomial {name}: {ex}")
            continue
        got = p.value
        ck.instance(("poly", name), {"operation": name, "result": repr(got), "expected": repr(want)}, fn=where)
        if p.kind != "return":
            ck.violation(where, f"{name}: raises {p.value!r}", construct=f"poly {name}")
            continue
        if isinstance(got, tuple) and isinstance(got[0], dict):
            g = ({k: v for k, v in got[0].items() if not (not is_sym(v) and v == 0)}, got[1])
        else:
            g = got
        w = ({k: v for k, v in want[0].items() if not (not is_sym(v) and v == 0)}, want[1])
        if g != w:
            ck.violation(where, f"{name}: result is {g!r}, the algebra requires {w!r} (coefficients and constant must be mapped by the same scalar operation)",
                         construct=f"poly {name}", expected=repr(w), found=repr(g))
    # late substitution: P = c1*K1 + C with K1 := d1*K2 + D and K2 := E  ->  c1*d1*E + c1*D + C
    E = sym.var("E", "int")

    def thunk():
        K1, K2 = prom("K1"), prom("K2")
        P = mkpoly(I, {K1: c1}, C)
        Q = mkpoly(I, {K2: d1}, D)
        I.call_method(K1, "settle", [Q])
        I.call_method(K2, "settle", [E])
        return I.call(I.module_get("deferred", "wait"), [P], {})
    ps = I.explore(thunk)
    gen = [p for p in ps if all(v for k, v in p.decisions)] or ps
    want = sym.add(sym.add(sym.mul(sym.mul(c1, d1), E), sym.mul(c1, D)), C)
    ck.instance(("poly", "wait-substitution"), {"c1*K1 + C with K1 := d1*K2 + D, K2 := E": repr(gen[0].value), "expected": repr(want)}, fn="deferred::LinearPolynomial._wait")
    if gen[0].kind != "return" or gen[0].value != want:
        ck.violation("deferred::LinearPolynomial._wait", f"waiting c1*K1 + C after K1 := d1*K2 + D and K2 := E gives {gen[0].value!r}, the algebra requires {want!r}",
                     construct="poly wait substitution", expected=repr(want), found=repr(gen[0].value))
    # arithmetic with a value that is ALREADY known (a settled promise, a polynomial without variables): the same numbers as before it was known
    def known_cases():
        out = []
        for name, mk in (("int - known", lambda K: I.binop(ast.Sub(), L, K)), ("known - int", lambda K: I.binop(ast.Sub(), K, L)), ("int + known", lambda K: I.binop(ast.Add(), L, K)),
                         ("int * known", lambda K: I.binop(ast.Mult(), L, K)), ("-known", lambda K: I.call_method(K, "__neg__", []))):
            want = {"int - known": sym.sub(L, E), "known - int": sym.sub(E, L), "int + known": sym.add(L, E), "int * known": sym.mul(L, E), "-known": sym.neg(E)}[name]
            for kind in ("settled promise", "waited promise", "evaluated thunk"):
                def th(mk=mk, kind=kind):
                    if kind == "evaluated thunk":
                        K = I.instantiate(I.module_get("deferred", "Deferred"), [I.builtin_types["int"], PyFn(lambda I_, a, k: E)], {})
                        I.call(I.module_get("deferred", "wait"), [K], {})
                    else:
                        K = prom("K")
                        I.call_method(K, "settle", [E])
                        if kind == "waited promise":
                            I.call(I.module_get("deferred", "wait"), [K], {})
                    return I.call(I.module_get("deferred", "wait"), [mk(K)], {})
                out.append((name, kind, th, want))
        return out
    for name, kind, th, want in known_cases():
        try:
            ps = I.explore(th)
        except Unsupported as ex:
            ck.unknown(f"{name} ({kind}): {ex}")
            continue
        gen = [p for p in ps if all(v for k, v in p.decisions)] or ps
        ck.instance(("known", name, kind), {"operation": name, "operand": kind, "value": repr(gen[0].value)} if kind == "waited promise" else None, fn="deferred::BaseDeferred")
        if gen[0].kind != "return" or gen[0].value != want:
            ck.violation("deferred::BaseDeferred", f"{name} with a {kind} (value E): {gen[0].value!r}, expected {want!r} - an operand that has already been evaluated (a symbol used a second time, "
                                                   "the first label of a file, a label after '.link') must give the same result as one that has not", construct=f"arithmetic with a known deferred: {name}")
    # once every variable is known the polynomial IS its constant: its best estimate is that number (not the polynomial, not None)
    def thunk_be():
        K1 = prom("K1")
        P = mkpoly(I, {K1: c1}, C)
        I.call_method(K1, "settle", [E])
        I.call(I.module_get("deferred", "wait"), [P], {})
        return I.call_method(P, "get_current_best_estimate", [])
    ps = I.explore(thunk_be)
    gen = [p for p in ps if all(v for k, v in p.decisions)] or ps
    want_be = sym.add(sym.mul(c1, E), C)
    ck.instance(("poly", "best-estimate-known"), {"best estimate of c1*K1 + C after K1 := E and a wait": repr(gen[0].value)}, fn="deferred::LinearPolynomial.get_current_best_estimate")
    if gen[0].kind != "return" or gen[0].value != want_be:
        ck.violation("deferred::LinearPolynomial.get_current_best_estimate", f"the best estimate of c1*K1 + C after K1 := E and a wait is {gen[0].value!r}, expected the number {want_be!r}",
                     construct="poly best estimate when known", expected=repr(want_be), found=repr(gen[0].value))
    # the same with K1 settled to a plain integer
    def thunk2():
        K1, K2 = prom("K1"), prom("K2")
        P = mkpoly(I, {K1: c1, K2: c2}, C)
        I.call_method(K1, "settle", [E])
        I.call_method(K2, "settle", [D])
        return I.call(I.module_get("deferred", "wait"), [P], {})
    ps = I.explore(thunk2)
    gen = [p for p in ps if all(v for k, v in p.decisions)] or ps
    want = sym.add(sym.add(sym.mul(c1, E), sym.mul(c2, D)), C)
    ck.instance(("poly", "wait-values"), {"c1*K1 + c2*K2 + C with K1 := E, K2 := D": repr(gen[0].value)}, fn="deferred::LinearPolynomial._wait")
    if gen[0].kind != "return" or gen[0].value != want:
        ck.violation("deferred::LinearPolynomial._wait", f"waiting c1*K1 + c2*K2 + C with K1 := E, K2 := D gives {gen[0].value!r}, expected {want!r}", construct="poly wait values", expected=repr(want), found=repr(gen[0].value))
    # two keys that resolve to polynomials over the SAME variable: c1*K1 + c2*K2 + C with K1 := d1*K3 + D, K2 := d2*K3 + L, K3 := E
    #   -> (c1*d1 + c2*d2)*E + c1*D + c2*L + C     (the coefficients of K3 add up)
    def thunk2b():
        K1, K2, K3 = prom("K1"), prom("K2"), prom("K3")
        P = mkpoly(I, {K1: c1, K2: c2}, C)
        I.call_method(K1, "settle", [mkpoly(I, {K3: d1}, D)])
        I.call_method(K2, "settle", [mkpoly(I, {K3: d2}, L)])
        first = I.call_method(P, "_wait", []) if False else None
        I.call_method(K3, "settle", [E])
        return I.call(I.module_get("deferred", "wait"), [P], {})
    d2 = sym.var("d2", "int")
    ps = I.explore(thunk2b)
    gen = [p for p in ps if all(v for k, v in p.decisions)] or ps
    want = sym.add(sym.add(sym.add(sym.mul(sym.add(sym.mul(c1, d1), sym.mul(c2, d2)), E), sym.mul(c1, D)), sym.mul(c2, L)), C)
    ck.instance(("poly", "wait-shared"), {"c1*K1 + c2*K2 + C with K1 := d1*K3 + D, K2 := d2*K3 + L, K3 := E": repr(gen[0].value), "expected": repr(want)}, fn="deferred::LinearPolynomial._wait")
    if gen[0].kind != "return" or gen[0].value != want:
        ck.violation("deferred::LinearPolynomial._wait", f"waiting c1*K1 + c2*K2 + C where K1 and K2 are both polynomials over K3 gives {gen[0].value!r}, the algebra requires {want!r} "
                                                         "(coefficients of a shared variable add up: 'x = fwd+2', 'y = fwd+10', '.word y - x' is 6)",
                     construct="poly wait shared variable", expected=repr(want), found=repr(gen[0].value))
    # ... and while K3 is still unknown (the flattened polynomial must already carry the summed coefficient)
    def thunk2c():
        K1, K2, K3 = prom("K1"), prom("K2"), prom("K3")
        P = mkpoly(I, {K1: c1, K2: c2}, C)
        I.call_method(K1, "settle", [mkpoly(I, {K3: d1}, D)])
        I.call_method(K2, "settle", [mkpoly(I, {K3: d2}, L)])
        tc = I.module_get("deferred", "try_compute")
        try:
            I.call_method(tc, "__enter__", [])
            try:
                I.call_method(P, "wait", [])
            except Raised as ex_:
                if ex_.exc.name != "NotReadyError":
                    raise              # giving up is the only way an attempt may end early
        finally:
            I.call_method(tc, "__exit__", [None, None, None])
        I.call_method(K3, "settle", [E])
        return I.call(I.module_get("deferred", "wait"), [P], {})
    try:
        ps = I.explore(thunk2c)
        gen = [p for p in ps if all(v for k, v in p.decisions)] or ps
        ck.instance(("poly", "wait-shared-early"), {"same, with a first attempt while K3 is unknown": repr(gen[0].value)}, fn="deferred::LinearPolynomial._wait")
        if gen[0].kind != "return" or gen[0].value != want:
            ck.violation("deferred::LinearPolynomial._wait", f"after a first (not ready) attempt, waiting c1*K1 + c2*K2 + C over a shared K3 gives {gen[0].value!r}, the algebra requires {want!r}",
                         construct="poly wait shared variable", expected=repr(want), found=repr(gen[0].value))
    except Unsupported as ex:
        ck.note(f"wait-shared-early not evaluated: {ex}")
    # a first attempt while one variable is known and the other is not must keep the unknown one:
    #   c1*K1 + c2*K2 + C,  K1 := E,  attempt (not ready),  K2 := D  ->  c1*E + c2*D + C
    def thunk2d():
        K1, K2 = prom("K1"), prom("K2")
        P = mkpoly(I, {K1: c1, K2: c2}, C)
        I.call_method(K1, "settle", [E])
        tc = I.module_get("deferred", "try_compute")
        I.call_method(tc, "__enter__", [])
        try:
            I.call_method(P, "wait", [])
        except Raised as ex_:
            if ex_.exc.name != "NotReadyError":
                raise
        I.call_method(tc, "__exit__", [None, None, None])
        I.call_method(K2, "settle", [D])
        return I.call(I.module_get("deferred", "wait"), [P], {})
    try:
        ps = I.explore(thunk2d)
        gen = [p for p in ps if all(v for k, v in p.decisions)] or ps
        want = sym.add(sym.add(sym.mul(c1, E), sym.mul(c2, D)), C)
        ck.instance(("poly", "wait-partial"), {"c1*K1 + c2*K2 + C, K1 known, attempt, then K2 known": repr(gen[0].value)}, fn="deferred::LinearPolynomial._wait")
        if gen[0].kind != "return" or gen[0].value != want:
            ck.violation("deferred::LinearPolynomial._wait", f"c1*K1 + c2*K2 + C evaluated once while only K1 is known and again when K2 is known gives {gen[0].value!r}, expected {want!r}: "
                                                             "the first attempt must keep the still unknown variable", construct="poly wait partial", expected=repr(want), found=repr(gen[0].value))
    except Unsupported as ex:
        ck.note(f"wait-partial not evaluated: {ex}")
    # cancellation while unknown: (K1 + c) - K1 is the constant c without waiting K1
    def thunk3():
        K1 = prom("K1")
        r = I.binop(ast.Sub(), I.binop(ast.Add(), K1, L), K1)
        return I.call(I.module_get("deferred", "wait"), [r], {})
    ps = I.explore(thunk3)
    ck.instance(("poly", "cancel"), {"(K1 + L) - K1 with K1 unknown": repr(ps[0].value)}, fn=where)
    if len(ps) != 1 or ps[0].kind != "return" or ps[0].value != L:
        ck.violation(where, f"(K1 + L) - K1 with K1 still unknown evaluates to {ps[0].value!r}; the unknown must cancel and leave L", construct="poly cancellation")


def rule_R7t(ck):
    """The same cancellation through the expression TOKENS ('K + end - start' as written in a source): the operators + - and
    unary - + and * by a constant must hand unknown operands to the polynomial arithmetic, not force them (an operator registered as
    'awaited' waits for its operands inside a thunk: the unknown base never cancels)."""
    repo = ck.repo
    I = eager_interp(repo)
    I.summaries = {"reports::emit_report": emit_report_summary}
    where = "operators::InfixOperator.resolve"
    L = sym.var("L", "int")

    def prom(name):
        return I.instantiate(I.module_get("deferred", "Promise"), [I.builtin_types["int"], name], {})
    cases = [("(K + L) - K", lambda sh, K: sh.bin("sub", sh.bin("add", sh.xexpr(K, "K"), sh.xexpr(L, "L")), sh.xexpr(K, "K")), L),
             ("K - (K - L)", lambda sh, K: sh.bin("sub", sh.xexpr(K, "K"), sh.bin("sub", sh.xexpr(K, "K"), sh.xexpr(L, "L"))), L),
             ("-K + (K + L)", lambda sh, K: sh.bin("add", sh.un("neg", sh.xexpr(K, "K")), sh.bin("add", sh.xexpr(K, "K"), sh.xexpr(L, "L"))), L),
             ("+K - K + L", lambda sh, K: sh.bin("add", sh.bin("sub", sh.un("pos", sh.xexpr(K, "K")), sh.xexpr(K, "K")), sh.xexpr(L, "L")), L),
             ("2 * K - K - K + L", lambda sh, K: sh.bin("add", sh.bin("sub", sh.bin("sub", sh.bin("mul", sh.number("2", 2), sh.xexpr(K, "K")), sh.xexpr(K, "K")), sh.xexpr(K, "K")), sh.xexpr(L, "L")), L),
             ("K * 2 - 2 * K + L", lambda sh, K: sh.bin("add", sh.bin("sub", sh.bin("mul", sh.xexpr(K, "K"), sh.number("2", 2)), sh.bin("mul", sh.number("2", 2), sh.xexpr(K, "K"))), sh.xexpr(L, "L")), L)]
    for text, build, want in cases:
        def thunk(build=build):
            sh = Shapes(I)
            K = prom("K")          # never settled
            r = I.call_method(build(sh, K), "resolve", [{"emit_address": 0}])
            return I.call(I.module_get("deferred", "wait"), [r], {})
        try:
            ps = I.explore(thunk)
        except Unsupported as ex:
            raise Unknown(f"{text}: {ex}") from None
        gen = [p for p in ps if all(v for k, v in p.decisions)] or ps
        ck.instance(("token-cancel", text), {"expression with K still unknown": text, "value": repr(gen[0].value)}, fn=where)
        if gen[0].kind != "return" or gen[0].value != want:
            ck.violation(where, f"the expression '{text}' with K still unknown evaluates to {gen[0].value!r} {getattr(gen[0].value, 'args', '')}; the unknown must cancel and leave {want!r} "
                                "('.link 2000 + end - start' needs this)", construct="cancellation through operator tokens")


def rule_R8(ck):
    repo = ck.repo
    # Symbol._resolve and the private helpers only it reaches (a lookup split into methods is still the lookup)
    family = ["types::Symbol._resolve"] + sorted(role_helpers(repo, LAZY))
    any_tainted = False
    for fq in family:
        fn = repo.func(fq)
        # values derived from extern_symbols_mapping: names assigned from expressions mentioning it (transitively)
        tainted = set()
        changed = True
        while changed:
            changed = False
            for n in walk_local(fn):
                if isinstance(n, ast.Assign):
                    names = [m.id for t in n.targets for m in ast.walk(t) if isinstance(m, ast.Name) and isinstance(m.ctx, ast.Store)]   # also tuple targets
                    src = {m.id for m in ast.walk(n.value) if isinstance(m, ast.Name)}
                    attrs = {m.attr for m in ast.walk(n.value) if isinstance(m, ast.Attribute)}
                    if ("extern_symbols_mapping" in attrs or src & tainted) and set(names) - tainted:
                        tainted.update(names)
                        changed = True
                # candidates.append(extern_mapping[1]) / candidates += [...]: the container carries the binding
                if isinstance(n, ast.Call) and isinstance(n.func, ast.Attribute) and n.func.attr in ("append", "extend", "insert", "add", "update") and isinstance(n.func.value, ast.Name) \
                        and n.func.value.id not in tainted and ({m.id for a_ in n.args for m in ast.walk(a_) if isinstance(m, ast.Name)} & tainted
                                                                 or any("extern_symbols_mapping" in {m.attr for m in ast.walk(a_) if isinstance(m, ast.Attribute)} for a_ in n.args)):
                    tainted.add(n.func.value.id)
                    changed = True
                if isinstance(n, ast.AugAssign) and isinstance(n.target, ast.Name) and n.target.id not in tainted and {m.id for m in ast.walk(n.value) if isinstance(m, ast.Name)} & tainted:
                    tainted.add(n.target.id)
                    changed = True
                if isinstance(n, (ast.For, ast.comprehension)) and {m.id for m in ast.walk(n.iter) if isinstance(m, ast.Name)} & tainted:
                    for m in ast.walk(n.target):
                        if isinstance(m, ast.Name) and m.id not in tainted:
                            tainted.add(m.id)
                            changed = True
        rets = [r for r in walk_local(fn) if isinstance(r, ast.Return) and r.value is not None and not (isinstance(r.value, ast.Constant) and r.value.value is None)
                and ({m.id for m in ast.walk(r.value) if isinstance(m, ast.Name)} & tainted or "extern_symbols_mapping" in {m.attr for m in ast.walk(r.value) if isinstance(m, ast.Attribute)})]
        if tainted:
            any_tainted = True
        for r in rets:
            facts = flow.facts_before(fn, r, gen_calls({"not_ready"}))
            ck.instance(("export-return", fq, r.lineno), {"return": norm_text(r), "dominated by": sorted(facts) if facts is not None else "unreachable"}, fn=fq)
            if facts is not None and "not_ready" not in facts:
                ck.violation(r, "a binding found through the export map is accepted while the file's own definitions may still follow: 'x' used before the file's own 'x = ...' binds to another file's exported x, used after it binds to the own one",
                             construct="export binding before not_ready")
    if not any_tainted:
        raise Unknown("Symbol._resolve no longer consults extern_symbols_mapping")

DEFINERS = {"compiler::Compiler.compile_label", "compiler::Compiler.compile_assignment", "compiler::Compiler.declare_external_symbol"}
LAZY = {"types::Symbol._resolve"}
FINAL = {"compiler::Compiler.compile_and_link_files", "compiler::Compiler.generate_listing"}


def table_reads(repo):
    out = []
    for q, fn in repo.all_functions():
        for n in walk_local(fn):
            if isinstance(n, ast.Attribute) and n.attr in ("symbols", "extern_symbols_mapping") and isinstance(n.ctx, ast.Load):
                par = n._parent
                # a store through subscript is a write, not a read
                if isinstance(par, ast.Subscript) and isinstance(par.ctx, ast.Store):
                    continue
                if norm_text(n.value) not in ("self", "compiler", "state['compiler']", "comp"):
                    continue
                out.append((q, fn, n))
    return out


def _in_test(node, fn):
    """node is (part of) the condition of an if / while / conditional expression / assert"""
    child, p = node, node._parent
    while p is not None and p is not fn and not isinstance(p, ast.stmt):
        if isinstance(p, ast.IfExp) and child is p.test:
            return True
        if isinstance(p, ast.Call) and not (isinstance(p.func, ast.Attribute) and p.func.attr == "get" and child is p.func):
            return False       # passed to a call: not a plain test any more
        child, p = p, p._parent
    return isinstance(p, (ast.If, ast.While, ast.Assert)) and child is p.test


def _in_report(node, fn):
    from ..rules import guards
    p = node._parent
    while p is not None and p is not fn:
        if isinstance(p, ast.Call) and guards.is_report_call(p, ("error", "critical", "warning")):
            return True
        p = p._parent
    return False


def read_is_guard(fn, n):
    """the value read from the symbol table only decides a test or is shown in a diagnostic: it never reaches a returned value, a store or another call"""
    if _in_test(n, fn) or _in_report(n, fn):
        return True
    # `prev, _ = table[name]` / `prev = table[name][0]`: follow the local names
    p = n._parent
    while p is not None and not isinstance(p, ast.stmt):
        p = p._parent
    if isinstance(p, ast.Assign):
        names = {m.id for t in p.targets for m in ast.walk(t) if isinstance(m, ast.Name) and isinstance(m.ctx, ast.Store)}
        if names and all(isinstance(t, (ast.Name, ast.Tuple)) for t in p.targets):
            uses = [m for m in walk_local(fn) if isinstance(m, ast.Name) and isinstance(m.ctx, ast.Load) and m.id in names]
            return all(_in_test(u, fn) or _in_report(u, fn) for u in uses)
    return False


def definer_helpers(repo):
    """private helpers (reached only from the definers) inherit the definers' role"""
    from ..rules import guards
    out = set()
    changed = True
    while changed:
        changed = False
        for q, fn in repo.all_functions():
            if q in DEFINERS or q in out or not isinstance(fn, ast.FunctionDef) or q.split("::")[0] != "compiler":
                continue
            callers = {c for c, _ in guards.callers_of(repo, fn)}
            if callers and all(c in DEFINERS or c in out for c in callers):
                out.add(q)
                changed = True
    return out


def role_helpers(repo, roots):
    """private helpers reached only from functions of one role (and from each other) inherit that role"""
    from ..rules import guards
    out = set()
    changed = True
    while changed:
        changed = False
        for q, fn in repo.all_functions():
            if q in roots or q in out or not isinstance(fn, ast.FunctionDef) or not fn.name.startswith("_") or fn.name.startswith("__"):
                continue
            callers = {c for c, _ in guards.callers_of(repo, fn)}
            if callers and all(c in roots or c in out for c in callers):
                out.add(q)
                changed = True
    return out


def rule_R9(ck):
    repo = ck.repo
    reads = table_reads(repo)
    helpers = definer_helpers(repo)
    lazy_h, final_h = role_helpers(repo, LAZY), role_helpers(repo, FINAL)
    for q, fn, n in reads:
        cls = "definer" if q in DEFINERS or q in helpers else "lazy" if q in LAZY or q in lazy_h else "final" if q in FINAL or q in final_h else "eager"
        ck.instance(("read", q, n.lineno), {"function": q, "read": norm_text(n._parent)[:80], "class": cls}, fn=q)
        if cls == "definer":
            # must be a duplicate guard: the value only decides a test or is shown in the diagnostic
            if not read_is_guard(fn, n):
                ck.violation(n, f"{q.split('::')[1]} reads the symbol table for something other than a duplicate check", construct="definer read " + norm_text(n._parent)[:60])
        elif cls == "eager":
            if q.startswith("compiler::Compiler.__init__"):
                continue
            ck.violation(n, f"{q.split('::')[1]} decides from the symbol table during the single compile pass: the table is incomplete then, so the outcome depends on whether the symbol was defined earlier or later in the source",
                         construct="eager symbol-table read in " + q.split("::")[1])
    if len(reads) < 8:
        ck.unknown(f"only {len(reads)} symbol-table reads found (12 confirmed by hand)")
    # the final reads are after the wait of the whole image
    fn = repo.func("compiler::Compiler.compile_and_link_files")
    for q, f2, n in reads:
        if q == "compiler::Compiler.compile_and_link_files":
            facts = flow.facts_before(fn, n, gen_calls({"wait"}))
            if facts is not None and "wait" not in facts:
                ck.violation(n, "the closing walk over the symbol table happens before the image has been waited", construct="final read before wait")



def rule_try_depth(ck):
    """try mode nests (a best estimate asked for while another one is being computed): not_ready() gives up while ANY try is
    open and only then; leaving an inner try must not end the outer one, and after the last one the mode is off again."""
    repo = ck.repo
    I = eager_interp(repo)
    I.summaries = {}
    where = "deferred::TryCompute.__enter__"

    def thunk():
        tc = I.module_get("deferred", "try_compute")
        nr = I.module_get("deferred", "not_ready")
        out = []

        def probe():
            try:
                I.call(nr, [], {})
                return "goes on"
            except Raised as ex:
                return ex.exc.name
        out.append(("outside", probe()))
        I.call_method(tc, "__enter__", [])
        out.append(("one open", probe()))
        I.call_method(tc, "__enter__", [])
        out.append(("two open", probe()))
        I.call_method(tc, "__exit__", [None, None, None])
        out.append(("inner closed, outer open", probe()))
        I.call_method(tc, "__exit__", [None, None, None])
        out.append(("all closed", probe()))
        return out
    ps = I.explore(thunk)
    ck.instance("try-depth", {"not_ready() at each nesting stage": ps[0].value if ps and ps[0].kind == "return" else repr(ps)}, fn=where)
    if len(ps) != 1 or ps[0].kind != "return":
        return ck.incomplete(where, "nested try_compute blocks", ps)
    want = [("outside", "goes on"), ("one open", "NotReadyError"), ("two open", "NotReadyError"), ("inner closed, outer open", "NotReadyError"), ("all closed", "goes on")]
    if ps[0].value != want:
        bad = next(g for g, w in zip(ps[0].value, want) if g != w)
        ck.violation(where, f"not_ready() with {bad[0]}: {bad[1]}; expected {dict(want)[bad[0]]}. Stages: {ps[0].value} - inside a try an unknown symbol is 'not yet', not an 'undefined-symbol' error; "
                            "outside it is final", construct="try-mode nesting depth")


def run(ck):
    ck.run_rule("C03.R1", "defer before complaining (not_ready dominates the undefined-symbol report / promise raise)", 3, rule_R1)
    ck.run_rule("C03.R2", "memoise only success; cycle detection; awaiting flag reset", 3, rule_R2)
    ck.run_rule("C03.R3", "construct under try_compute; exact suppression; depth restored", 10, rule_R3)
    ck.run_rule("G1", "deferred thunks capture by value", 20, thunks.rule_G1)
    ck.run_rule("C03.R6", "operators defer on unknown operands and later apply the same operation", 9, rule_R6)
    ck.run_rule("C03.R7", "LinearPolynomial algebra as polynomial normal forms", 18, rule_R7)
    ck.run_rule("C03.R7t", "unknowns cancel through the operator tokens + - * (not forced by the operators)", 6, rule_R7t)
    ck.run_rule("C03.R8", "no early commitment to an exported binding", 1, rule_R8)
    ck.run_rule("C03.R9", "symbol tables are read by duplicate guards, lazily, or finally", 8, rule_R9)
    ck.run_rule("C02.R7w", "unused definitions are evaluated too (their errors do not depend on use order)", 1, c02.rule_closing_wait)
    ck.run_rule("G11.res", "operand encoders' results that may still be unevaluated (branch offsets, immediates) are only combined with + - * or forced with wait()", 2, escape.rule_G11_results)
    ck.run_rule("G12", "definition chains of any length: lazily evaluated values do not force their operands from inside their own thunks", 6, escape.rule_G12)
    from . import c11
    ck.run_rule("C03.try", "try mode nests: not_ready() gives up exactly while a try is open", 1, rule_try_depth)
    from ..rules import escape as _esc
    ck.run_rule("G16", "'not yet' (NotReadyError) reaches the closing evaluation: no blanket handler turns it into a value", 8, _esc.rule_G16)
    ck.run_rule("C03.R1u", "a name nobody defines: one error, then an integer value and no definition site (assembly goes on)", 1, c11.rule_undefined_value)
    ck.run_rule("C11.R5", "'.extern all' exports what is defined before AND after it (a definition may stand on either side)", 4, c11.rule_R5)
    from ..rules import treeimm
    ck.run_rule("G4.def", "a symbol value, once built, is not updated in place (only memoised)", 30, treeimm.rule_deferred_immutable)
