"""C17 - diagnostics point at the culprit (span well-formedness)."""
import ast

from ..engine import sym
from ..engine.interp import Rec, Env, Raised
from ..engine.loader import Unknown, norm_text, walk_local, FUNC_TYPES
from ..rules import guards
from ..rules.world import eager_interp, emit_report_summary, Shapes

EXPLANATION = (
    "G9: every report span (start, end, text) in the package is either (T.ctx_start, T.ctx_end) of one token expression T, "
    "or two context snapshots taken in program order; when the end snapshot is refreshed inside a loop, the start "
    "snapshot must be refreshed in that loop too (otherwise the span points at a position of an earlier iteration). "
    "Token stores snapshots, not aliases of the live context (abstract execution of Token.__init__ / Context.save). "
    "Context objects are created only by parse() and save(): a token's span lies in its own file. The line:column "
    "formula of Context.__repr__ is compared as a normal form with the statement's rule (tab = 4 columns) and with its "
    "sibling in GraphicalHandler. BareHandler prints the start position.")
ASSUMPTIONS = ["which token a given fault names first is not decided"]
TRUSTED = ["python ast", "sa.engine.interp"]
LEVEL_TEXT = "Span shape is a property of each report call site; it holds for every input reaching the site."
LEVEL_NOTE = "well-formedness and freshness of spans; the choice of culprit token is a design matter and is not judged"
TECHNIQUE = "syntactic span-pairing rule with reaching-definition order for context snapshots + abstract interpretation of Token/Context"


def is_report_triple(t):
    return isinstance(t, ast.Tuple) and len(t.elts) == 3


def triples_of(fn):
    """[(call-or-tuple node, triple)] for report calls and report= tuples in fn"""
    out = []
    for n in walk_local(fn):
        if isinstance(n, ast.Call) and guards.is_report_call(n, ("error", "critical", "warning")):
            for a in n.args[1:]:
                if is_report_triple(a):
                    out.append((n, a))
        if isinstance(n, ast.keyword) and n.arg == "report" and isinstance(n.value, ast.Tuple):
            for a in n.value.elts[2:]:
                if is_report_triple(a):
                    out.append((n.value, a))
        if isinstance(n, ast.Assign) and isinstance(n.value, ast.IfExp) and isinstance(n.value.body, ast.Tuple) and norm_text(n.targets[0]) == "report":
            for a in n.value.body.elts[2:]:
                if is_report_triple(a):
                    out.append((n.value.body, a))
    return out


def enclosing_loops(node, fn):
    out = []
    p = node
    while p is not None and p is not fn:
        if isinstance(p, (ast.For, ast.While)):
            out.append(p)
        p = getattr(p, "_parent", None)
    return out


def rule_G9(ck):
    repo = ck.repo
    n_total = 0
    n_tok = 0
    for q, fn in repo.all_functions():
        if q.split("::")[0] in ("devices", "_cli"):
            continue
        if isinstance(fn, ast.Lambda):
            continue
        trs = triples_of(fn)
        if not trs:
            continue
        params = {a.arg for a in fn.args.args}
        # snapshot definitions: name = <x>.save()
        snaps = {}
        for n in walk_local(fn):
            if isinstance(n, ast.Assign) and isinstance(n.targets[0], ast.Name) and isinstance(n.value, ast.Call) and isinstance(n.value.func, ast.Attribute) and n.value.func.attr == "save":
                snaps.setdefault(n.targets[0].id, []).append(n)
        for site, t in trs:
            a, b = t.elts[0], t.elts[1]
            n_total += 1
            key = (q, norm_text(a), norm_text(b), site.lineno)
            if isinstance(a, ast.Attribute) and isinstance(b, ast.Attribute) and a.attr == "ctx_start" and b.attr == "ctx_end":
                n_tok += 1
                ck.instance(("span", ) + key, None, fn=q)
                if norm_text(a.value) != norm_text(b.value):
                    ck.violation(t, f"span ({norm_text(a)}, {norm_text(b)}) starts at one token and ends at another: the range may be empty, reversed or cross unrelated text", construct=f"span ({norm_text(a)}, {norm_text(b)})")
                continue
            if isinstance(a, ast.Attribute) and isinstance(b, ast.Attribute):
                if (a.attr, b.attr) != ("ctx_start", "ctx_end"):
                    ck.instance(("span", ) + key, None, fn=q)
                    ck.violation(t, f"span ({norm_text(a)}, {norm_text(b)}) is not (start, end) of a token", construct=f"span ({norm_text(a)}, {norm_text(b)})")
                    continue
            if isinstance(a, ast.Name) and isinstance(b, ast.Name):
                ck.instance(("span", ) + key, {"site": q, "span": f"({a.id}, {b.id})"} if len(ck.current.samples) < 4 else None, fn=q)
                # a position that is only ever bound inside ANOTHER loop (its target, or an unpacking in its body) is whatever that
                # loop's last iteration left behind: the diagnostic points at the last item, not at the one it is about
                stale = None
                here = enclosing_loops(site, fn)
                for nm in (a.id, b.id):
                    binds = [n_ for n_ in ast.walk(fn) if (isinstance(n_, ast.For) and any(isinstance(x, ast.Name) and x.id == nm for x in ast.walk(n_.target)))
                             or (isinstance(n_, ast.Assign) and any(isinstance(x, ast.Name) and x.id == nm and isinstance(x.ctx, ast.Store) for t_ in n_.targets for x in ast.walk(t_)))]
                    if nm in params or not binds:
                        continue
                    def home(n_):
                        return n_ if isinstance(n_, ast.For) else (enclosing_loops(n_, fn) or [None])[0]
                    homes = [home(n_) for n_ in binds]
                    if all(h is not None and not any(h is l for l in here) for h in homes) and site.lineno > max(h.end_lineno for h in homes):
                        stale = nm
                if stale:
                    ck.violation(t, f"span ({a.id}, {b.id}): '{stale}' is bound only inside an earlier loop, and the report is made after that loop has ended (in another loop): it holds what the LAST iteration left, "
                                    "so the diagnostic points at the last item instead of the one it is about", construct=f"span ({a.id}, {b.id}) stale loop variable")
                    continue

                def last_def(name):
                    ds = [d for d in snaps.get(name, []) if d.lineno <= site.lineno]
                    return max(ds, key=lambda d: d.lineno) if ds else None
                live = lambda nm: nm in params and nm not in snaps     # the live context: "now"
                if a.id == b.id:
                    continue
                if live(a.id) and not live(b.id):
                    ck.violation(t, f"span ({a.id}, {b.id}) starts at the current position and ends at an earlier snapshot: start is after end", construct=f"span ({a.id}, {b.id}) reversed")
                    continue
                if live(b.id):
                    if not live(a.id) and last_def(a.id) is None and a.id not in params:
                        ck.unknown(f"{q}: start of span ({a.id}, {b.id}) is not a recognised snapshot")
                    continue
                da, db = last_def(a.id), last_def(b.id)
                if da is None or db is None:
                    if a.id in params or b.id in params:
                        continue
                    # both names bound together by one loop / unpacking target: a stored (start, end) pair
                    together = any((isinstance(n, (ast.For, ast.comprehension)) and {a.id, b.id} <= {x.id for x in ast.walk(n.target) if isinstance(x, ast.Name)})
                                   or (isinstance(n, ast.Assign) and any(isinstance(t_, (ast.Tuple, ast.List)) and {a.id, b.id} <= {x.id for x in ast.walk(t_) if isinstance(x, ast.Name)} for t_ in n.targets))
                                   for n in ast.walk(fn))
                    if together and (a.id, b.id) == ("ctx_start", "ctx_end") or together and a.id.replace("start", "") == b.id.replace("end", ""):
                        continue
                    ck.unknown(f"{q}: span ({a.id}, {b.id}): snapshot definitions not found")
                    continue
                if da.lineno > db.lineno:
                    ck.violation(t, f"span ({a.id}, {b.id}): '{a.id}' is taken at line {da.lineno}, after '{b.id}' (line {db.lineno}): start is after end", construct=f"span ({a.id}, {b.id}) reversed")
                    continue
                # freshness in loops, for pairs that by their names bracket one token (ctx_before_X, ctx_after_X):
                # if the end is refreshed inside a loop around the report, the start must be refreshed in that loop too
                brackets = a.id.startswith("ctx_before_") and b.id.startswith("ctx_after_") and a.id[len("ctx_before_"):] == b.id[len("ctx_after_"):]
                for loop in (enclosing_loops(site, fn) if brackets else []):
                    b_in = [d for d in snaps.get(b.id, []) if any(l is loop for l in enclosing_loops(d, fn))]
                    a_in = [d for d in snaps.get(a.id, []) if any(l is loop for l in enclosing_loops(d, fn))]
                    if b_in and not a_in:
                        ck.violation(t, f"span ({a.id}, {b.id}): '{b.id}' is refreshed on every iteration of the loop at line {loop.lineno} but '{a.id}' is only taken before the loop: from the second iteration on the "
                                        "range starts at a position of an earlier iteration (the diagnostic points at the wrong token)", construct=f"span ({a.id}, {b.id}) stale start in loop")
                continue
            ck.instance(("span", ) + key, None, fn=q)
            # mixed forms: (token.ctx_start, snapshot) etc.
            if isinstance(a, ast.Attribute) and a.attr == "ctx_start" and isinstance(b, ast.Name):
                continue
            if isinstance(a, ast.Name) and isinstance(b, ast.Attribute) and b.attr == "ctx_end":
                continue
            ck.unknown(f"{q}: span ({norm_text(a)}, {norm_text(b)}) has an unrecognised shape")
    if n_total < 120 or n_tok < 80:
        ck.unknown(f"only {n_total} spans found ({n_tok} of token form); 151 / 100 confirmed by hand")


def rule_token(ck):
    repo = ck.repo
    I = eager_interp(repo)
    I.summaries = {"reports::emit_report": emit_report_summary}
    I.isinstance_hook = None

    def thunk():
        C = I.module_get("context", "Context")
        c1 = I.instantiate(C, ["a.mac", "mov r0, r1\n"], {})
        c1.fields["pos"] = 4
        T = I.module_get("types", "Token")
        t = I.instantiate(T, [c1, c1], {})
        s, e = t.fields["ctx_start"], t.fields["ctx_end"]
        same = (s is c1, e is c1, s is e)
        c1.fields["pos"] = 9
        return same, s.fields["pos"], e.fields["pos"], s.fields["filename"], s.fields["code"], s.cls.name
    ps = I.explore(thunk)
    where = "types::Token.__init__"
    ck.instance("token-snapshots", {"(aliases, start.pos, end.pos, file, code, class) after moving the live context": repr(ps[0].value)}, fn=where)
    if len(ps) != 1 or ps[0].kind != "return":
        return ck.incomplete(where, "Token.__init__", ps)
    same, sp, ep, fname, code, cname = ps[0].value
    if any(same):
        ck.violation(where, "a token keeps the live parser context instead of a snapshot: its span moves as parsing continues", construct="Token stores live context")
    if (sp, ep) != (4, 4):
        ck.violation(where, f"a token's stored positions follow the live context ({sp}, {ep}) after it moved", construct="Token snapshot positions")
    if (fname, code, cname) != ("a.mac", "mov r0, r1\n", "Context"):
        ck.violation("context::Context.save", f"a context snapshot does not carry file name and text: {fname!r}, {code!r}", construct="Context.save copies")
    # Context(...) is constructed only in parse() and save()
    sites = []
    for q, fn in repo.all_functions():
        for c in guards.calls_in(fn):
            if isinstance(c.func, ast.Name) and c.func.id == "Context":
                sites.append(q)
    ck.instance("context-constructors", {"Context(...) in": sorted(set(sites))}, fn="context::Context")
    if set(sites) - {"parser::parse", "context::Context.save"}:
        ck.violation("context::Context", f"Context objects are also created in {sorted(set(sites) - {'parser::parse', 'context::Context.save'})}: a token's span may no longer lie in the file it was parsed from", construct="Context constructors")
    # restore() copies the position only
    def thunk2():
        C = I.module_get("context", "Context")
        a = I.instantiate(C, ["a.mac", "x"], {})
        b = I.instantiate(C, ["a.mac", "x"], {})
        b.fields["pos"] = 7
        I.call_method(a, "restore", [b])
        return a.fields["pos"], a.fields["filename"]
    ps = I.explore(thunk2)
    ck.instance("restore", None, fn="context::Context.restore")
    if ps[0].value != (7, "a.mac"):
        ck.violation("context::Context.restore", f"restore() gives {ps[0].value!r}", construct="Context.restore")


from ..engine.loader import AnalysisError


def rule_column(ck):
    repo = ck.repo
    I = eager_interp(repo)
    CODE, POS, FN = sym.var("code", "str"), sym.var("pos", "int"), sym.var("filename", "str")

    def thunk():
        C = I.module_get("context", "Context")
        c = I.instantiate(C, [FN, CODE], {})
        c.fields["pos"] = POS
        return I.call_method(c, "__repr__", [])
    where = "context::Context.__repr__"
    line = sym.op("count", CODE, "\n", 0, POS)
    start = sym.add(sym.op("rfind", CODE, "\n", 0, POS), 1)
    tabs = sym.op("count", CODE, "\t", start, POS)
    col = sym.add(sym.sub(POS, start), sym.mul(tabs, 3))
    want = sym.op("format", FN, ":", sym.add(line, 1), ":", sym.add(col, 1))
    try:
        ps = I.explore(thunk)
        got = ps[0].value if len(ps) == 1 else None
    except AnalysisError as e:
        ps, got = [], None
        ck.instance("repr-symbolic", {"not derivable symbolically": str(e)[:200]}, fn=where)
    if got is not None and got == want:
        ck.instance("repr", {"Context.__repr__": repr(got)[:300]}, fn=where)
    else:
        # the formula is not in the recognised form (or not symbolically executable): decide it by running the method on
        # every offset of texts that hold every character a line counter could mistake for a line end
        # (str.splitlines splits on VT FF FS GS RS NEL LS PS and a lone CR; only LF ends a line here) and tabs
        texts = ["ab\n\tcd e\n\n\t\tx\n", "a\x0cb\nc\x0bd\n", "a\rb\nc\r\nd\n", "a\x85b\u2028c\u2029d\ne\x1cf\x1dg\x1eh\n", "no newline at end\tx", "\n\nx"]
        I3 = eager_interp(repo)
        n = 0
        for text in texts:
            def thunk_c(text=text):
                C = I3.module_get("context", "Context")
                out = []
                for pos in range(len(text) + 1):
                    c = I3.instantiate(C, ["f.mac", text], {})
                    c.fields["pos"] = pos
                    out.append(I3.call_method(c, "__repr__", []))
                return out
            pc = I3.explore(thunk_c)
            if len(pc) != 1 or pc[0].kind != "return":
                ck.incomplete(where, f"Context.__repr__ at every offset of {text!r}", pc)
                continue
            for pos, g in enumerate(pc[0].value):
                ls = text.rfind("\n", 0, pos) + 1
                w = f"f.mac:{text.count(chr(10), 0, pos) + 1}:{pos - ls + 3 * text.count(chr(9), ls, pos) + 1}"
                n += 1
                if g != w:
                    ck.violation(where, f"position of offset {pos} in {text!r} is printed as {g!r}; expected {w!r} (line = LF characters before the offset + 1, column = characters since the line start + 3 per tab + 1)",
                                 construct="Context.__repr__ formula", expected=w, found=repr(g))
                    break
        ck.instance("repr", {"Context.__repr__ executed on offsets": n, "texts": len(texts)}, fn=where)
    # siblings: the graphical renderer's column is decided by execution in C17.render; the bare format prints the start position -
    # executed here on a concrete file (line 2, after one tab and two characters: column 7)
    I2 = eager_interp(repo)
    I2.summaries = {}

    def thunk_b():
        C = I2.module_get("context", "Context")

        def at(pos):
            c = I2.instantiate(C, ["dir/a.mac", "x\n\tab cd\n"], {})
            c.fields["pos"] = pos
            return c
        h = I2.instantiate(I2.module_get("reports", "BareHandler"), [], {})
        I2.call_method(h, "__call__", [I2.module_get("reports", "error"), "some-id", (at(5), at(7), "msg")])
        return "".join("".join(str(x) for x in e[1]) + "\n" for e in I2.effects if e[0] == "print")
    pb = I2.explore(thunk_b)
    ck.instance("bare", {"BareHandler output for a span at offset 5 of 'x\\n\\tab cd\\n'": pb[0].value if pb and pb[0].kind == "return" else repr(pb)}, fn="reports::BareHandler.__call__")
    if len(pb) != 1 or pb[0].kind != "return":
        ck.incomplete("reports::BareHandler.__call__", "BareHandler on one span", pb)
    elif "dir/a.mac:2:7" not in pb[0].value:
        ck.violation("reports::BareHandler.__call__", f"the bare report format prints {pb[0].value!r} for a span that starts at dir/a.mac:2:7: the start position (file:line:column) is not in it", construct="BareHandler position")


def rule_hoist_spans(ck):
    """nodes rebuilt while compiling (hoisting 'a+b(r)') keep the spans of the text they stand for"""
    from . import c01
    saved = lambda x: sym.op("call", sym.op("attr", x, "save"))
    where = "insns::RegisterModeOperandStub.encode.hoist" if ck.repo.has_func("insns::RegisterModeOperandStub.encode.hoist") else "insns::RegisterModeOperandStub.encode"
    for text, want, mode, last, paths, toks in c01.hoist_cases(ck.repo):
        if text.split("(")[0] == "a":     # plain index: nothing is rebuilt
            continue
        rets = [p for p in paths if p.kind == "return"]
        if len(rets) != 1:
            continue
        (m, ext), seen = rets[0].value
        if not seen:
            ck.unknown(f"hoist {text}: the index value is not read through get_as_int")
            continue
        outer, inner = seen[0][0], seen[0][1]
        orig = toks["operand"]
        start_tok = orig.fields["operand"] if text.startswith("@") else orig     # '@' stays outside the index expression
        ck.instance(("hoist-span", text), {"operand": text, "index expression span": [repr(inner.fields.get("ctx_start")), repr(inner.fields.get("ctx_end"))]}, fn=where)
        def unsave(x):
            # Context.save() of a snapshot is the same position
            while sym.is_sym(x) and x[:2] == ("op", "call") and sym.is_sym(x[2]) and x[2][:2] == ("op", "attr") and x[2][3] == "save" and len(x) == 3:
                x = x[2][2]
            return x
        exp_start = start_tok.fields["ctx_start"]
        exp_end = toks[last].fields["ctx_end"]
        got_start, got_end = unsave(inner.fields.get("ctx_start")), unsave(inner.fields.get("ctx_end"))
        if got_start != exp_start or got_end != exp_end:
            ck.violation(where, f"operand '{text}': the rebuilt index expression spans ({got_start!r}, {got_end!r}); the text it stands for starts at {exp_start!r} and ends at {exp_end!r}: "
                                "a diagnostic on the index (e.g. 'does not fit in 16 bits') points at the wrong column", construct="hoisted index expression span")
        o_start, o_end = unsave(outer.fields.get("ctx_start")), unsave(outer.fields.get("ctx_end"))
        if o_start != orig.fields["ctx_start"] or o_end != orig.fields["ctx_end"]:
            ck.violation(where, f"operand '{text}': the rebuilt operand node spans ({o_start!r}, {o_end!r}), not the operand's own text", construct="hoisted operand span")


def rule_parse_error_positions(ck):
    """Faults planted at a known token of malformed statements: the real statement parser is run (abstractly) and the FIRST span of
    the first error must start at that token - after operators followed by blanks or a line break, after commas, inside brackets,
    behind tabs. (Parser.__call__ backtracks by restoring the context: it must not do so before the report of a failed mandatory
    parser has been emitted, because report spans hold the live context.)"""
    repo = ck.repo
    I = eager_interp(repo)
    I.summaries = {"reports::emit_report": emit_report_summary}
    I.explore(lambda: I.module_get("metacommands", "end"))
    where = "parser::Parser.__call__"
    cases = [("mov #2 *   , r0\n", "invalid-expression", ","), ("x = (3 /  )\n", "invalid-expression", ")"), ("mov #2 *\n   , r0\n", "invalid-expression", ","), ("mov r0,\n", "invalid-operand", ","),
             (".word 1,, 2\n", "invalid-operand", ","), ("lab: mov #, r0\n", "invalid-expression", ","), ("\tclr\t@#\t]\n", "invalid-expression", "]"), ("nop\n\tadd r1, 5 +\t\t}\n", "invalid-expression", "}"),
             ("a = 1\nb = a *\n\n\n  ]\n", "invalid-expression", "]")]
    for text, ident, culprit in cases:
        def thunk(text=text):
            ctx = I.instantiate(I.module_get("context", "Context"), ["a.mac", text], {})
            try:
                I.call(I.module_get("parser", "code"), [ctx], {})
            except Raised:
                pass
            out = []
            for e in I.effects:
                if e[0] == "report" and e[1] in ("error", "critical"):
                    sp = [s_ for s_ in e[3] if isinstance(s_, tuple) and len(s_) == 3]
                    out.append((e[2], [(s_[0].fields.get("pos"), s_[1].fields.get("pos"), s_[0].fields.get("filename")) if isinstance(s_[0], Rec) and isinstance(s_[1], Rec) else None for s_ in sp]))
            return out
        ps = I.explore(thunk)
        want = text.index(culprit)
        got = ps[0].value if len(ps) == 1 and ps[0].kind == "return" else None
        ck.instance(("parse-error", text), {"text": text, "first error": repr(got[0]) if got else None, "culprit at": want}, fn=where)
        if not got:
            ck.violation(where, f"the malformed text {text!r} produces no error diagnostic ({ps})", construct="parse error position")
            continue
        name, spans = got[0]
        first = spans[0] if spans else None
        line = lambda i: (text.count("\n", 0, i) + 1, i - (text.rfind("\n", 0, i) + 1) + 1)
        if first is None or first[0] != want or first[2] != "a.mac" or first[0] > first[1]:
            ck.violation(where, f"the malformed text {text!r}: the first error is '{name}' with first span {first} (character offsets); the offending token {culprit!r} is at offset {want} "
                                f"(line:char {line(want)}), the span starts at {line(first[0]) if first and first[0] is not None else None}", construct="parse error position")


def rule_token_init(ck):
    """every token class that has its own __init__ hands its two position arguments to Token.__init__ (a token without ctx_start /
    ctx_end turns the next diagnostic about it into an AttributeError)"""
    repo = ck.repo
    n = 0
    for q in repo.subclasses("types::Token"):
        if q == "types::Token":
            continue
        cls = repo.cls(q)
        init = next((m for m in cls.body if isinstance(m, ast.FunctionDef) and m.name == "__init__"), None)
        if init is None:
            continue
        n += 1
        params = [a.arg for a in init.args.args][1:3]
        calls = [c for c in ast.walk(init) if isinstance(c, ast.Call) and isinstance(c.func, ast.Attribute) and c.func.attr == "__init__"
                 and ((isinstance(c.func.value, ast.Call) and norm_text(c.func.value.func) == "super") or norm_text(c.func.value).endswith("Token"))]
        def hands_on(c):
            pos = [norm_text(a) for a in c.args]
            kw = {k.arg: norm_text(k.value) for k in c.keywords if k.arg}
            if pos[-2:] == params or pos[:2] == params:
                return True
            # spelled with keywords (ctx_start=..., ctx_end=...), wholly or for the second position only
            given = pos[:2] + [kw.get(nm) for nm in ("ctx_start", "ctx_end")][len(pos[:2]):]
            return given == params
        ok = any(hands_on(c) for c in calls)
        stores = {t.attr for a_ in ast.walk(init) if isinstance(a_, ast.Assign) for t in a_.targets if isinstance(t, ast.Attribute) and norm_text(t.value) == "self"}
        ck.instance(("token-init", q), {"class": q, "passes positions on": ok}, fn=q + ".__init__")
        if not ok and not {"ctx_start", "ctx_end"} <= stores:
            ck.violation(init, f"{q.split('::')[1]}.__init__ neither calls Token.__init__({', '.join(params)}) nor stores ctx_start / ctx_end itself: the token has no source position", construct=f"token without position: {q.split('::')[1]}")
    if n < 10:
        ck.unknown(f"only {n} token classes with an __init__ of their own were found")


def rule_render_columns(ck):
    """The graphical handler places its highlight with a cursor-column escape. Whatever the width of its gutter, moving the fault
    along one line must move the highlight by the same number of DISPLAY columns (a tab = four), and the excerpt must show the
    fault's own line number and the arrow line. The handler is executed whole (abstractly) for a fault at every character of a
    line with tabs, on the first, a middle and the last line of a file."""
    import re as _re
    repo = ck.repo
    I = eager_interp(repo)
    I.summaries = {}
    where = "reports::GraphicalHandler.__call__"
    line = "ab\tcd\t\tef gh"
    for prefix, suffix in (("", ""), ("x\n", "\nz\n"), ("x\ny\n", "")):
        text = prefix + line + suffix
        base = len(prefix)
        lineno = prefix.count("\n") + 1
        cols = {}
        for k in range(len(line)):
            if line[k] in " \t":
                continue
            p_ = base + k

            def thunk(p_=p_):
                C = I.module_get("context", "Context")

                def at(pos):
                    c = I.instantiate(C, ["a.mac", text], {})
                    c.fields["pos"] = pos
                    return c
                h = I.instantiate(I.module_get("reports", "GraphicalHandler"), [], {})
                I.call_method(h, "__call__", [I.module_get("reports", "error"), "some-id", (at(p_), at(p_ + 1), "msg")])
                return "".join("".join(str(x) for x in e[1]) + "\n" for e in I.effects if e[0] == "print")
            ps = I.explore(thunk)
            if len(ps) != 1 or ps[0].kind != "return":
                ck.incomplete("reports::GraphicalHandler.__call__", f"GraphicalHandler on a fault at offset {p_} of {text!r}", ps)
                continue
            out = ps[0].value
            m = _re.search(r"\x1b\[(\d+)G", out)
            nums = [int(x) for x in _re.findall(r"\x1b\[92m\s*(\d+)\x1b\[0m", out)]
            ck.instance(("render-column", prefix, k), {"fault at character": k, "of line": lineno, "cursor column": int(m.group(1)) if m else None} if k in (0, 3) else None, fn=where)
            if not m:
                ck.violation(where, f"a fault at character {k} of line {lineno} of {text!r}: the excerpt contains no cursor-column escape for the highlight", construct="graphical highlight missing")
                break
            if lineno not in nums:
                ck.violation(where, f"a fault on line {lineno} of {text!r}: the excerpt shows the line numbers {nums}, not the fault's own line", construct="graphical excerpt misses the fault's line")
                break
            if "msg" not in out:
                ck.violation(where, f"a fault at character {k} of line {lineno}: the message text is not printed", construct="graphical message missing")
                break
            cols[k] = int(m.group(1))
        else:
            disp = lambda k: k + 3 * line[:k].count("\t")
            k0 = min(cols)
            bad = [(k, cols[k] - cols[k0], disp(k) - disp(k0)) for k in sorted(cols) if cols[k] - cols[k0] != disp(k) - disp(k0)]
            if bad:
                k, got, want = bad[0]
                ck.violation(where, f"line {lineno} is {line!r}: moving the fault from character {k0} to character {k} moves the highlight by {got} columns, the text moves by {want} display columns (a tab counts as four): "
                                    "the highlight is not under the offending token", construct="graphical highlight column")



def rule_spans(ck):
    """Every token the real parser builds from the statement corpus: start <= end, both inside the text, and the text between
    them is the token's own text for names and numbers (a span is what a diagnostic underlines)."""
    from .c05 import run_parser
    from .c10 import CORPUS, _respell
    repo = ck.repo
    I = eager_interp(repo)
    where = "parser::code"
    n = 0
    # statements whose operand is the rest of the line (no respelling possible, so not part of the C10 corpus)
    texts = [_respell(pieces, "plain") for pieces in CORPUS] + [".error stop here\n", "lab: .error\n", "x = a + b + c\n", "x = a * b + c - d\n", ".word 6 * 2 / 3, a - b - c\n", "mov #a + b + c, r0\n"]
    for text in texts:
        r, pos, errs, raised = run_parser(I, "code", text)
        if raised or errs or r is None:
            raise Unknown(f"corpus statement {text!r} does not parse cleanly (errors {errs}, raised {raised})")
        seen = set()
        stack = [r]
        while stack:
            t = stack.pop()
            if isinstance(t, (list, tuple)):
                stack.extend(t)
                continue
            if not isinstance(t, Rec) or id(t) in seen:
                continue
            seen.add(id(t))
            f = t.fields
            stack.extend(v for k, v in f.items() if k not in ("ctx_start", "ctx_end"))
            a, b = f.get("ctx_start"), f.get("ctx_end")
            if not (isinstance(a, Rec) and isinstance(b, Rec)):
                continue
            pa, pb = a.fields.get("pos"), b.fields.get("pos")
            n += 1
            ck.instance(("span", text.strip(), t.cls.name, pa, pb), {"statement": text.strip(), "token": t.cls.name, "span": [pa, pb], "text": text[pa:pb] if isinstance(pa, int) and isinstance(pb, int) else None} if n % 23 == 0 else None, fn=where)
            cons = f"span of {t.cls.name} tokens"
            if not (isinstance(pa, int) and isinstance(pb, int)) or not (0 <= pa <= pb <= len(text)):
                ck.violation(where, f"in {text.strip()!r} the {t.cls.name} token spans {pa}..{pb} (text length {len(text)}): a span starts before it ends and lies inside the text - "
                                    "a diagnostic for this token underlines nothing, or the wrong place", construct=cons)
                continue
            # a node's span covers its operands: 'a + b + c' starts where 'a' starts (a diagnostic about the sum underlines all of it)
            for role in ("lhs", "rhs"):         # postfix and prefix nodes ('(r2)+', '-(sp)') span their operator character only: the code's convention, not judged
                ch = f.get(role)
                if isinstance(ch, Rec) and isinstance(ch.fields.get("ctx_start"), Rec) and isinstance(ch.fields.get("ctx_end"), Rec):
                    ca, cb = ch.fields["ctx_start"].fields.get("pos"), ch.fields["ctx_end"].fields.get("pos")
                    if isinstance(ca, int) and isinstance(cb, int) and not (pa <= ca and cb <= pb):
                        ck.violation(where, f"in {text.strip()!r} the {t.cls.name} node spans {pa}..{pb} ({text[pa:pb]!r}) but its {role} spans {ca}..{cb} ({text[ca:cb]!r}): "
                                            "a node's span has to cover its operands", construct="operator node span covers its operands")
            inner = text[pa:pb]
            # Token.text() - what the branch encoder inspects and what 'you wrote ...' hints quote - is the text between the two positions
            if t.cls.lookup("text")[0] is not None and "text" not in f:
                try:
                    tx = I.call_method(t, "text", [])
                except Raised as ex_:
                    tx = f"<{ex_.exc.name}>"
                if tx != inner:
                    ck.violation("types::Token.text", f"in {text.strip()!r} the {t.cls.name} token at {pa}..{pb} reports its own text as {tx!r}; the source there is {inner!r}", construct="Token.text")
            if t.cls.name == "Symbol" and isinstance(f.get("name"), str) and inner.strip() and inner.strip().lower().rstrip(":").strip() != f["name"].lower():
                ck.violation(where, f"in {text.strip()!r} the symbol {f['name']!r} spans {pa}..{pb}, which is the text {inner!r}", construct=cons)
            if t.cls.name == "Number" and isinstance(f.get("representation"), str) and not (inner.strip() and f["representation"].strip().lower().endswith(inner.strip().lower())):     # a folded sign ('-1') stays outside the span of its digits
                ck.violation(where, f"in {text.strip()!r} the number {f['representation']!r} spans {pa}..{pb}, which is the text {inner!r}", construct=cons)
    if n < 150:
        ck.unknown(f"only {n} token spans inspected")


def run(ck):
    ck.run_rule("C17.init", "token classes pass their source positions to Token.__init__", 10, rule_token_init)
    ck.run_rule("C17.render", "graphical handler: the highlight follows the fault's display column (tab = 4), the excerpt shows the fault's line", 20, rule_render_columns)
    ck.run_rule("C17.perr", "faults planted in malformed statements: the first span of the first error starts at the offending token", 9, rule_parse_error_positions)
    ck.run_rule("C17.span", "tokens built by the real parser (statement corpus): start <= end inside the text; names and numbers span their own text", 150, rule_spans)
    ck.run_rule("C17.hoist", "nodes rebuilt by hoisting keep the spans of the text they stand for", 6, rule_hoist_spans)
    from ..rules import deliver
    ck.run_rule("R.deliver", "the handler receives a report's spans as given: the first span is the culprit", 6, deliver.rule_deliver)
    ck.run_rule("G9", "report spans: one token, or ordered and equally fresh snapshots", 120, rule_G9)
    ck.run_rule("C17.tok", "tokens store snapshots; contexts are per file", 3, rule_token)
    ck.run_rule("C17.col", "line:column formula; the bare format prints it (executed)", 2, rule_column)
