"""C13 - output containers carry exactly the image."""
import ast
import pathlib
import struct

from ..engine import sym
from ..engine.interp import Rec, Env, Closure, Bound, ClassVal, Unsupported, SymBytes, PyFn
from ..engine.loader import Unknown, norm_text, walk_local
from ..engine.sym import is_sym
from ..rules import guards
from ..rules.world import STATE, Shapes, eager_interp

REF = pathlib.Path(__file__).resolve().parent.parent.parent / "ref"
EXPLANATION = (
    "R1: bin/raw writers are abstractly executed on a symbolic image: bin = pack('<HH', base, len(code)) + code, raw = code. "
    "R2: the RIFF header's struct format and every argument are compared with ref/riff.txt. R3: the tape stream of "
    "encode_as_wav is the concatenation SYNC, bits(header '<HH16s' base/len/name), PAUSE, bits(code), [PAUSE if turbo], "
    "bits(checksum '<H'), EOF. R4: encode_data_bits emits bit i of each byte for i = 0..7 in order, 0 -> ZERO, 1 -> ONE. "
    "R5: pulse tables folded from Env/TurboEnv equal the frozen reference; level ordering H > S > 128 > L; ONE longer than "
    "ZERO. R6: the checksum is an end-around-carry sum (fold-loop idiom or ((s-1) mod 65535)+1); a bare s mod 65535 is a "
    "violation. R7: output path derivation, suffix-strip agreement at every strip site, format selection by '.bin'. "
    "R8: tape name: encoded, reported and cut above 16, space padded to 16. R9: the format registry holds exactly the "
    "names the directives and the CLI ask for.")
ASSUMPTIONS = ["pulse shapes are frozen from the pinned tree (detect change only)", "demodulating a WAV is not performed"]
TRUSTED = ["ref/riff.txt", "ref/bk_tape.txt", "struct.calcsize", "sa.engine.interp"]
LEVEL_TEXT = "Layouts are input independent: normal-form equality covers every image, base and name."
LEVEL_NOTE = "trusted: RIFF/BK tape references; pulse shapes frozen"
TECHNIQUE = "abstract interpretation of the writers to byte-string normal forms compared with container references; idiom recognition for the checksum and suffix strips"

BASE = sym.var("base", "int")
CODE = sym.var("code", "bytes")
NAME = sym.var("tape_name", "bytes")


def rule_R1(ck):
    I = eager_interp(ck.repo)
    reg = I.explore(lambda: I.module_get("formats", "file_formats"))[0].value
    ck.formats = reg
    for name, want in (("bin", sym.cat(sym.pack("<HH", BASE, sym.length(CODE)), CODE)), ("raw", CODE)):
        fn = reg.get(name)
        ck.instance(("format", name), {"format": name, "function": getattr(fn, "name", None)}, fn="formats::<module>")
        if fn is None:
            ck.violation("formats::<module>", f"output format '{name}' is not registered", construct=f"format {name}")
            continue
        ps = I.explore(lambda: I.call(fn, [BASE, CODE], {}))
        if len(ps) != 1 or ps[0].kind != "return" or ps[0].value != want:
            ck.violation(f"formats::{fn.name}", f"'{name}' output is {ps[0].value!r}, expected {want!r}", construct=f"format {name} layout", expected=repr(want), found=repr(ps[0].value))
    need = {"bin", "raw", "bk_wav", "bk_turbo_wav"}
    if set(reg) != need:
        ck.violation("formats::<module>", f"format registry holds {sorted(reg)}, the directives and the CLI use {sorted(need)}", construct="file_formats keys")
    # every format name handed to the registry by the directives / CLI exists (P9)
    used = set()
    for q in ("metacommands::make_bin", "metacommands::make_bk0010_rom", "metacommands::make_raw", "metacommands::make_wav", "metacommands::make_turbo_wav"):
        if not ck.repo.has_func(q):
            # the directive is not a function of that name any more (generated, renamed): which format and path each make_* statement
            # registers is decided by executing it (DIR.route, group 'outputs')
            ck.instance(("format-use", q, "by execution"), {"directive": q, "decided by": "DIR.route (executed)"}, fn="metacommands::<module>")
            continue
        fn = ck.repo.func(q)
        for c in guards.calls_in(fn):
            if isinstance(c.func, ast.Name) and c.func.id in ("add_emitted_file", "add_emitted_bk_wav"):
                idx = 2 if c.func.id == "add_emitted_file" else 3
                if len(c.args) > idx and isinstance(c.args[idx], ast.Constant):
                    used.add((q, c.args[idx].value))
                else:
                    ck.unknown(f"{q}: format argument is not a literal")
    for q, fmt in sorted(used):
        ck.instance(("format-use", q), {"directive": q, "format": fmt}, fn=q)
        if fmt not in reg:
            ck.violation(q, f"directive asks for output format '{fmt}' which is not registered (KeyError at emit time)", construct=f"format use {fmt}")
    want_fmt = {"metacommands::make_bin": "bin", "metacommands::make_bk0010_rom": "bin", "metacommands::make_raw": "raw", "metacommands::make_wav": "bk_wav", "metacommands::make_turbo_wav": "bk_turbo_wav"}
    for q, fmt in sorted(used):
        if want_fmt[q] != fmt:
            ck.violation(q, f"{q.split('::')[1]} writes format '{fmt}', expected '{want_fmt[q]}'", construct=f"format of {q}")
    # wav formats delegate to encode_as_wav with turbo flag
    for name, turbo in (("bk_wav", False), ("bk_turbo_wav", True)):
        fn = reg.get(name)
        if fn is None:
            continue
        seen = []
        I2 = eager_interp(ck.repo, extra={"bk_wav::encode_as_wav": lambda I_, f, a, k: seen.append((a, k)) or sym.var("wav", "bytes")})
        I2.explore(lambda: I2.call(fn, [BASE, CODE, NAME], {}))
        ck.instance(("wav-format", name), None, fn=f"formats::{name}")
        ok = seen and list(seen[0][0][:3]) == [BASE, CODE, NAME] and bool((seen[0][0][3] if len(seen[0][0]) > 3 else seen[0][1].get("turbo", False))) == turbo
        if not ok:
            ck.violation(f"formats::{name}", f"'{name}' does not call encode_as_wav(base, code, name, turbo={turbo})", construct=f"format {name} delegation")


def rule_R2(ck):
    I = eager_interp(ck.repo)
    DATA = sym.var("data", "bytes")
    RATE = sym.var("rate", "int")
    ps = I.explore(lambda: I.call(I.module_get("bk_wav", "make_wav_file"), [DATA, RATE], {}))
    where = "bk_wav::make_wav_file"
    if len(ps) != 1 or ps[0].kind != "return":
        return ck.incomplete(where, "make_wav_file(data, rate)", ps)
    val = ps[0].value
    if val is None or not (is_sym(val) or isinstance(val, (bytes, bytearray)) or hasattr(val, "value")):
        ck.violation(where, f"make_wav_file(data, rate) returns {val!r}, not the bytes of a RIFF file", construct="RIFF file is bytes")
        return
    n = sym.length(DATA)
    fields = [("4s", b"RIFF"), ("I", sym.add(36, n)), ("4s", b"WAVE"), ("4s", b"fmt "), ("I", 16), ("H", 1), ("H", 1), ("I", RATE), ("I", RATE),
              ("H", 1), ("H", 8), ("4s", b"data"), ("I", n)]
    names = ["ChunkID", "ChunkSize", "Format", "Subchunk1ID", "Subchunk1Size", "AudioFormat", "NumChannels", "SampleRate", "ByteRate", "BlockAlign",
             "BitsPerSample", "Subchunk2ID", "Subchunk2Size"]
    # cross-check the hand table against ref/riff.txt offsets
    offs = [int(l.split()[0]) for l in (REF / "riff.txt").read_text().splitlines() if l and l[0].isdigit()]
    calc = [struct.calcsize("<" + "".join(f for f, _ in fields[:i])) for i in range(len(fields) + 1)]
    if offs != calc:
        raise Unknown(f"ref/riff.txt offsets {offs} do not match the rule's field table {calc}")
    parts = list(val[2:]) if is_sym(val) and val[:2] == ("op", "cat") else [val]
    want = b""
    for f, v in fields:
        want = sym.cat(want, sym.pack("<" + f, v))
    want_parts = list(want[2:]) if is_sym(want) and want[:2] == ("op", "cat") else [want]
    # compare field by field: walk both part lists in parallel by byte offset
    def layout(ps):
        out, off = [], 0
        for p in ps:
            n = sym.length(p)
            out.append((off, n, p))
            off = sym.add(off, n)
        return out
    got_l, want_l = layout(parts), layout(want_parts)
    total = struct.calcsize("<" + "".join(f for f, _ in fields))
    hdr = [x for x in got_l if not is_sym(x[0]) and x[0] < total]
    if [x[:2] for x in hdr] != [x[:2] for x in want_l]:
        ck.violation(where, f"the RIFF header is laid out as {[(o, n) for o, n, _ in hdr]} (offset, size), the canonical 44-byte header is {[(o, n) for o, n, _ in want_l]}: {val!r}", construct="RIFF header format",
                     expected=str([(o, n) for o, n, _ in want_l]), found=str([(o, n) for o, n, _ in hdr]))
        return
    # name the fields through the offsets of ref/riff.txt
    for (o, n, g), (_, _, w) in zip(hdr, want_l):
        names_here = [nm for nm, off in zip(names, calc) if o <= off < o + (n if not is_sym(n) else 0)]
        ck.instance(("riff", o), {"offset": o, "fields": names_here, "value": repr(g)[:80]}, fn=where)
        if g != w:
            ck.violation(where, f"RIFF header bytes at offset {o} ({', '.join(names_here)}) are {g!r}, expected {w!r}", construct=f"RIFF {names_here[0] if names_here else o}", expected=repr(w), found=repr(g))
    rest = [x[2] for x in got_l if is_sym(x[0]) or x[0] >= total]
    if rest != [DATA]:
        ck.violation(where, f"RIFF header is followed by {[repr(p) for p in rest]}, expected the sample data", construct="RIFF data")


def fold_env(I, name):
    cls = I.explore(lambda: I.module_get("bk_wav", name))[0].value
    return cls, {k: v for k, v in cls.attrs.items() if isinstance(v, (bytes, int))}


def rule_R3(ck):
    repo = ck.repo
    where = "bk_wav::encode_as_wav"
    for turbo in (False, True):
        calls = []

        def bits(I_, fn, a, k):
            return sym.op("bits", a[0], a[1].name)

        def wavfile(I_, fn, a, k):
            return ("wav", a[0], a[1])

        def hook(I_, f, args, kwargs, node):
            # any other repo function applied to the image: keep as an opaque application, examined by R6
            if isinstance(f, Closure) and f.module.name == "bk_wav" and f.name not in ("encode_as_wav", "encode_data_bits", "make_wav_file", "translate_audio_levels") \
                    and not isinstance(f.node, ast.Lambda) and len(args) == 1 and args[0] == CODE and not kwargs:
                calls.append(f)
                return sym.op("apply", f.name, *args)
            return NotImplemented
        I = eager_interp(repo, extra={"bk_wav::encode_data_bits": bits, "bk_wav::make_wav_file": wavfile})
        I.call_hook = hook
        envname = "TurboEnv" if turbo else "Env"
        cls, env = fold_env(I, envname)
        ps = I.explore(lambda: I.call(I.module_get("bk_wav", "encode_as_wav"), [BASE, CODE, NAME], {"turbo": turbo}))
        if len(ps) != 1 or ps[0].kind != "return" or not (isinstance(ps[0].value, tuple) and ps[0].value[0] == "wav"):
            ck.violation(where, f"encode_as_wav(turbo={turbo}) does not hand one stream to make_wav_file: {ps}", construct="tape stream")
            continue
        _, stream, rate = ps[0].value
        parts = list(stream[2:]) if is_sym(stream) and stream[:2] == ("op", "cat") else [stream]
        # the checksum expression, whatever it is (R6 judges it)
        cks = None
        for prt in parts:
            if is_sym(prt) and prt[:2] == ("op", "bits") and is_sym(prt[2]) and prt[2][:3] == ("op", "pack", "<H"):
                cks = prt[2][3]
        ck.checksum_expr = cks
        ck.checksum_calls = list(calls)
        C = sym.var("CHECKSUM", "int") if cks is None else cks
        want_parts = [env["SYNC"], sym.op("bits", sym.pack("<HH16s", BASE, sym.length(CODE), NAME), envname), env["PAUSE"], sym.op("bits", CODE, envname)]
        if turbo:
            want_parts.append(env["PAUSE"])
        want_parts += [sym.op("bits", sym.pack("<H", C), envname), env["EOF"]]
        want = b""
        for w in want_parts:
            want = sym.cat(want, w)
        segs = ["SYNC", "bits(header)", "PAUSE", "bits(code)"] + (["PAUSE"] if turbo else []) + ["bits(checksum)", "EOF"]
        for s in segs:
            ck.instance(("segment", turbo, s), {"turbo": turbo, "segment": s} if s in ("bits(header)",) else None, fn=where)
        if stream != want:
            show = lambda x: [f"<{len(p)} pulse bytes>" if isinstance(p, bytes) else repr(p) for p in (list(x[2:]) if is_sym(x) and x[:2] == ("op", "cat") else [x])]
            ck.violation(where, f"tape stream (turbo={turbo}) is {show(stream)}, expected {segs}: {show(want)}", construct=f"tape stream turbo={turbo}",
                         expected=show(want), found=show(stream))
        if rate != env.get("sample_rate"):
            ck.violation(where, f"sample rate passed to the WAV writer is {rate!r}, the pulse tables are timed for {env.get('sample_rate')}", construct="tape sample rate")


def rule_R4(ck):
    repo = ck.repo
    where = "bk_wav::encode_data_bits"
    I = eager_interp(repo)
    B0, B1 = sym.var("byte0", "int"), sym.var("byte1", "int")
    env = ClassVal("EnvX")
    Z, O = sym.var("ZERO", "bytes"), sym.var("ONE", "bytes")
    env.attrs.update(ZERO=Z, ONE=O)
    ps = I.explore(lambda: I.call(I.module_get("bk_wav", "encode_data_bits"), [[B0, B1], env], {}))
    want = b""
    for b in (B0, B1):
        for i in range(8):
            want = sym.cat(want, sym.op("select", (Z, O), sym.op("bit", b, i)))
    for i in range(8):
        ck.instance(("bit", i), {"position": i, "selector": f"bit {i} of the byte"} if i in (0, 7) else None, fn=where)
    ck.instance("byte-order", None, fn=where)
    if len(ps) != 1 or ps[0].value != want:
        ck.violation(where, f"bits are emitted as {ps[0].value!r}; BK tape is least significant bit first, 0 -> ZERO pulse, 1 -> ONE pulse, bytes in order", construct="bit order",
                     expected=repr(want)[:300], found=repr(ps[0].value)[:300])


def parse_tape_ref():
    ref = {}
    for line in (REF / "bk_tape.txt").read_text().splitlines():
        parts = line.split()
        if len(parts) >= 2 and (parts[0].startswith("normal.") or parts[0].startswith("turbo.")):
            ref[parts[0]] = " ".join(parts[1:])
    return ref


def rule_R5(ck):
    I = eager_interp(ck.repo)
    ref = parse_tape_ref()
    LV = {"H": 208, "S": 200, "L": 48}
    tr = lambda s: bytes(LV[c] for c in s)

    def expand(expr, table):
        out = b""
        for term in expr.split("+"):
            term = term.strip()
            if "*" in term:
                a, n = term.split("*")
                out += tr(a.strip()) * int(n)
            elif term in table:
                out += table[term]
            else:
                out += tr(term)
        return out
    # the level mapping itself
    ps = I.explore(lambda: I.call(I.module_get("bk_wav", "translate_audio_levels"), ["HSL"], {}))
    ck.instance("levels", {"H,S,L": list(ps[0].value) if isinstance(ps[0].value, bytes) else repr(ps[0].value)}, fn="bk_wav::translate_audio_levels")
    if ps[0].value != bytes([208, 200, 48]):
        ck.violation("bk_wav::translate_audio_levels", f"audio levels H,S,L are {list(ps[0].value) if isinstance(ps[0].value, bytes) else ps[0].value}, frozen reference 208,200,48", construct="audio levels")
    h, s_, l = (ps[0].value[0], ps[0].value[1], ps[0].value[2]) if isinstance(ps[0].value, bytes) and len(ps[0].value) == 3 else (0, 0, 0)
    if not (h > s_ > 128 > l):
        ck.violation("bk_wav::translate_audio_levels", "levels must satisfy H > S > 128 > L for an 8-bit unsigned sample", construct="audio level order")
    for envname, pfx in (("Env", "normal"), ("TurboEnv", "turbo")):
        cls, env = fold_env(I, envname)
        table = {}
        if pfx == "normal":
            table["syncmid"] = expand(ref["normal.syncmid"], {})
            if env.get("SYNC_MID") != table["syncmid"]:
                ck.violation(f"bk_wav::{envname}", "SYNC_MID pulse differs from the frozen reference", construct=f"{envname}.SYNC_MID")
            table["pause"] = expand(ref["normal.pause"], table)
        for key, attr in (("one", "ONE"), ("zero", "ZERO"), ("pause", "PAUSE"), ("sync", "SYNC"), ("eof", "EOF")):
            want = expand(ref[f"{pfx}.{key}"], table)
            got = env.get(attr)
            ck.instance((envname, attr), {"table": f"{envname}.{attr}", "length": len(got) if isinstance(got, bytes) else None}, fn=f"bk_wav::{envname}")
            if got != want:
                ck.violation(f"bk_wav::{envname}", f"{envname}.{attr} pulse table differs from the frozen reference ({len(got) if isinstance(got, bytes) else got} vs {len(want)} samples)", construct=f"{envname}.{attr}")
        rate = int(ref[f"{pfx}.rate"])
        ck.instance((envname, "rate"), None, fn=f"bk_wav::{envname}")
        if env.get("sample_rate") != rate:
            ck.violation(f"bk_wav::{envname}", f"{envname}.sample_rate is {env.get('sample_rate')}, frozen reference {rate}", construct=f"{envname}.sample_rate")
        if isinstance(env.get("ONE"), bytes) and isinstance(env.get("ZERO"), bytes) and not len(env["ONE"]) > len(env["ZERO"]):
            ck.violation(f"bk_wav::{envname}", "a '1' must be a longer pulse than a '0'", construct=f"{envname} pulse lengths")


def recognise_end_around(I, repo, fn_node, mod):
    """-> None if fn implements an end-around-carry fold of sum(param); else a reason string"""
    params = [a.arg for a in fn_node.args.args]
    if len(params) != 1:
        return "checksum helper does not take exactly the data"
    P = sym.var("P", "bytes")
    body = [s for s in fn_node.body if not (isinstance(s, ast.Expr) and isinstance(s.value, ast.Constant))]
    env = Env()
    env.vars[params[0]] = P
    S = None
    i = 0
    # leading assignments
    while i < len(body) and isinstance(body[i], ast.Assign) and len(body[i].targets) == 1 and isinstance(body[i].targets[0], ast.Name):
        v = I.ev(body[i].value, env, mod)
        env.vars[body[i].targets[0].id] = v
        i += 1
    if i >= len(body):
        return "no loop or return"
    if isinstance(body[i], ast.While):
        w = body[i]
        # which variable carries the sum
        cands = [k for k, v in env.vars.items() if v == sym.op("sum", P)]
        if not cands:
            return "the folded variable is not sum(data)"
        sv = cands[0]
        SV = sym.var("S", "int")
        env2 = Env()
        env2.vars.update(env.vars)
        env2.vars[sv] = SV
        test = I.ev(w.test, env2, mod)
        ok_test = test in (sym.op("cmp", ">", SV, 0xffff), sym.op("cmp", ">=", SV, 0x10000), sym.op("cmp", "<", 0xffff, SV), sym.op("cmp", "<=", 0x10000, SV))
        threshold_problem = None
        if not ok_test:
            # the same comparison with another constant is decided exactly: t = smallest sum for which the body runs
            t = None
            if is_sym(test) and test[:2] == ("op", "cmp") and len(test) == 5:
                op, a, b = test[2], test[3], test[4]
                if a == SV and isinstance(b, int):
                    t = {">": b + 1, ">=": b}.get(op)
                elif b == SV and isinstance(a, int):
                    t = {"<": a + 1, "<=": a}.get(op)
            if t is None:
                return f"loop condition {test!r} is not 'sum exceeds 16 bits'"
            threshold_problem = (f"VIOLATION: the fold loop runs while {test!r}: for a byte sum of exactly 0x{t:X} the body leaves the sum unchanged (its high part is 0), so the loop never ends and no file is written"
                                 if t < 0x10000 else
                                 f"VIOLATION: the fold loop runs while {test!r}: a byte sum of 0x10000 is returned unfolded and does not fit the 16-bit checksum word")
        # one execution of the loop body on a symbolic sum (any straight-line body: divmod, temporaries, ...)
        def body_once():
            e3 = Env()
            e3.vars.update(env2.vars)
            I.exec_block(w.body, e3, mod)
            return e3.vars.get(sv)
        try:
            once = I.explore(body_once)
        except Unsupported as ex:
            return f"loop body is not decided ({ex})"
        if len(once) != 1 or once[0].kind != "return":
            return "loop body is not straight-line code re-assigning the sum"
        nxt = once[0].value
        want = sym.add(sym.band(SV, 0xffff), sym.shr(SV, 16))
        alt = sym.add(sym.mod(SV, 0x10000), sym.floordiv(SV, 0x10000))
        if nxt not in (want, alt):
            return f"loop body computes {nxt!r}, not (s & 0xffff) + (s >> 16)"
        rest = body[i + 1:]
        if len(rest) != 1 or not isinstance(rest[0], ast.Return) or norm_text(rest[0].value) != sv:
            return "the folded sum is not returned as is"
        return threshold_problem
    return "no fold loop"


MAX_SUM = 4096 * 255      # the property quantifies over images of 0..4096 bytes


def reference_checksum(s):
    return 0 if s == 0 else ((s - 1) % 65535) + 1


def decide_by_valuation(ck, where, expr, S, what, lo=0, hi=None):
    """complete valuation of a loop-free checksum expression over every byte sum the property's images can have"""
    hi = MAX_SUM if hi is None else min(hi, MAX_SUM)
    try:
        f = sym.compile_int(expr, {S: "s"})
    except ValueError as ex:
        raise Unknown(f"checksum expression {expr!r} is neither a recognised idiom nor a loop-free integer expression ({ex})") from None
    for s_ in range(max(lo, 0), hi + 1):
        if f(s_) != reference_checksum(s_):
            ck.violation(where, f"the tape checksum {what} is {expr!r}: for a byte sum of {s_} (0x{s_:X}) it gives 0x{f(s_):04X}, the 16-bit end-around-carry sum is 0x{reference_checksum(s_):04X}",
                         construct="checksum is not an end-around-carry sum", expected="16-bit sum with end-around carry", found=repr(expr))
            return
    ck.instance("checksum-valuation", {"expression": repr(expr), "sums checked": MAX_SUM + 1}, fn=where)


def rule_R6(ck):
    repo = ck.repo
    where = "bk_wav::encode_as_wav"
    if not hasattr(ck, "checksum_expr"):
        rule_R3_quiet(ck)
    cks = ck.checksum_expr
    ck.instance("checksum", {"checksum word": repr(cks)}, fn=where)
    if cks is None:
        raise Unknown("no '<H' checksum word found in the tape stream")
    S = sym.op("sum", CODE)
    if is_sym(cks) and cks[:2] == ("op", "apply") and list(cks[3:]) == [CODE]:
        fname = cks[2]
        fn = repo.func(f"bk_wav::{fname}")
        I = eager_interp(repo)
        why = recognise_end_around(I, repo, fn, repo.module("bk_wav"))
        ck.instance("checksum-helper", {"helper": fname, "fold-loop idiom": why is None}, fn=f"bk_wav::{fname}")
        if why is None:
            return
        if why.startswith("VIOLATION: "):
            ck.violation(f"bk_wav::{fname}", why[len("VIOLATION: "):], construct="checksum fold threshold")
            return
        # not the fold loop: a loop-free body is decided by complete valuation
        has_loop = any(isinstance(n, (ast.While, ast.For)) for n in ast.walk(fn))
        if has_loop:
            raise Unknown(f"checksum helper {fname}: {why} (a loop that is not the recognised end-around-carry fold)")
        I2 = eager_interp(repo)
        I2.add_cell(S, 0, None)
        ps = I2.explore(lambda: I2.call(I2.module_get("bk_wav", fname), [CODE], {}))
        for p in ps:
            if p.kind != "return" or any(k[0] not in ("le", "eq", "lt") for k, _ in p.decisions):
                raise Unknown(f"checksum helper {fname} has a path that is not decided by the byte sum alone: {p} {p.decisions}")
            cell = p.cells[S]
            decide_by_valuation(ck, f"bk_wav::{fname}", p.value, S, f"computed by {fname}() for sums in {cell}", lo=cell.lo or 0, hi=cell.hi)
        return
    if not sym.contains(cks, S):
        raise Unknown(f"checksum expression {cks!r} is not a function of sum(code)")
    decide_by_valuation(ck, where, cks, S, "in the tape stream")


def rule_R3_quiet(ck):
    from ..report import Checker
    tmp = Checker(ck.prop, ck.repo)
    tmp.rule("tmp", "tmp")
    rule_R3(tmp)
    ck.checksum_expr = getattr(tmp, "checksum_expr", None)


def rule_R7(ck):
    repo = ck.repo
    FN = sym.var("source_path", "str")
    PATH = sym.var("given_path", "str")
    st = {"filename": FN}

    def run(fnname, args):
        appended = []
        I = eager_interp(repo, extra={"devices::resolve_relative_path": lambda I_, f, a, k: sym.op("relpath", a[0], a[1])})

        def thunk():
            del appended[:]
            sh = Shapes(I)
            comp = Rec(ClassVal("CompilerStub"))
            comp.fields["emitted_files"] = appended
            comp.fields["output_charset"] = sym.var("charset", "str")
            insn = sh.symbol("make_x")
            insn.fields["name"] = sh.symbol("make_x")
            state = {"filename": FN, "compiler": comp, "insn": insn}
            I.call(I.module_get("metacommands", fnname), [state] + list(args), {})
            return list(appended)
        return I.explore(thunk)
    where = "metacommands::add_emitted_file"
    # explicit path: resolved against the source file
    for fmt, ext in (("bin", "bin"), ("raw", None)):
        ps = run("add_emitted_file", [PATH, fmt, ext])
        ck.instance(("path-explicit", fmt), {"format": fmt, "emitted": repr(ps[0].value)[:200]}, fn=where)
        ok = len(ps) == 1 and len(ps[0].value) == 1 and ps[0].value[0][2:4] == (fmt, sym.op("relpath", PATH, FN))
        if not ok:
            ck.violation(where, f"explicit output path is recorded as {ps[0].value!r}, expected (…, '{fmt}', path resolved against the source file)", construct="explicit output path")
        ps = run("add_emitted_file", [None, fmt, ext])
        stripped = sym.op("slice", FN, None, -4, None)
        for p in ps:
            cond = [(k[1], v) for k, v in p.decisions if k[0] == "truth"]
            has_mac = any(v and c == sym.op("endswith", sym.op("lower", FN), ".mac") for c, v in cond)
            no_mac = any((not v) and c == sym.op("endswith", sym.op("lower", FN), ".mac") for c, v in cond)
            if not has_mac and not no_mac:
                ck.violation(where, "default output name does not test for a case-insensitive '.mac' suffix", construct="default path .mac test")
                continue
            stem = stripped if has_mac else FN
            want = sym.cat(stem, f".{ext}") if ext else stem
            ck.instance(("path-default", fmt, has_mac), {"format": fmt, "source ends with .mac": has_mac, "path": repr(p.value[0][3]) if p.value else None}, fn=where)
            if len(p.value) != 1 or p.value[0][2] != fmt or p.value[0][3] != want:
                ck.violation(where, f"default output path for '{fmt}' (source {'with' if has_mac else 'without'} .mac) is {p.value[0][3] if p.value else None!r}, expected {want!r}",
                             construct=f"default output path {fmt}", expected=repr(want), found=repr(p.value[0][3]) if p.value else None)
    # generic suffix-strip agreement over the package: wherever a literal suffix S is tested with endswith(S) and the same
    # text is sliced [:k] on the true side (if-statement or conditional expression), k must be -len(S)
    n = 0
    for q, fn in repo.all_functions():
        for node in walk_local(fn):
            if isinstance(node, ast.If):
                t, true_side = node.test, node.body
            elif isinstance(node, ast.IfExp):
                t, true_side = node.test, [node.body]
            else:
                continue
            if not (isinstance(t, ast.Call) and isinstance(t.func, ast.Attribute) and t.func.attr == "endswith" and t.args):
                continue
            recv = t.func.value
            if isinstance(recv, ast.Call) and isinstance(recv.func, ast.Attribute) and recv.func.attr in ("lower", "upper", "casefold") and not recv.args:
                recv = recv.func.value
            rtxt = norm_text(recv)
            try:
                suffix = ast.literal_eval(t.args[0])
            except ValueError:
                suffix = None
            for s_ in true_side:
                for sub in ast.walk(s_):
                    if isinstance(sub, ast.Subscript) and norm_text(sub.value) == rtxt and isinstance(sub.slice, ast.Slice) and sub.slice.lower is None and sub.slice.upper is not None:
                        n += 1
                        try:
                            k = ast.literal_eval(sub.slice.upper)
                        except ValueError:
                            k = None
                        ck.instance(("strip", q, rtxt, norm_text(t)), {"site": q, "test": norm_text(t), "strip": norm_text(sub)}, fn=q)
                        if isinstance(suffix, str) and isinstance(k, int):
                            if k != -len(suffix):
                                ck.violation(sub, f"suffix {suffix!r} ({len(suffix)} characters) is stripped with [:{k}]", construct=f"suffix strip {suffix}", expected=f"[:-{len(suffix)}]", found=f"[:{k}]")
                        elif not (isinstance(k, int) or (isinstance(sub.slice.upper, ast.UnaryOp) and isinstance(sub.slice.upper.operand, ast.Call) and norm_text(sub.slice.upper.operand.func) == "len")):
                            ck.unknown(f"{q}: suffix strip with non-literal operands: {norm_text(t)} / {norm_text(sub)}")
    if n < 1:
        ck.unknown("no suffix-strip site recognised any more (add_emitted_file, add_emitted_bk_wav, main_cli strip '.mac')")


def rule_R7cli(ck):
    """-o format selection and listing path in main_cli (AST idioms)"""
    fn = ck.repo.func("_cli::main_cli")
    where = "_cli::main_cli"
    fmt_if = None
    for node in walk_local(fn):
        if isinstance(node, ast.If) and isinstance(node.test, ast.Call) and isinstance(node.test.func, ast.Attribute) and node.test.func.attr == "endswith":
            assigns = [s for s in node.body if isinstance(s, ast.Assign) and norm_text(s.targets[0]) == "output_format"]
            if assigns:
                fmt_if = node
    ck.instance("cli-format", {"test": norm_text(fmt_if.test) if fmt_if else None}, fn=where)
    if fmt_if is None:
        raise Unknown("main_cli: the output_format selection was not found")
    try:
        suffix = ast.literal_eval(fmt_if.test.args[0])
    except ValueError:
        raise Unknown("main_cli: non-literal suffix") from None
    lowered = isinstance(fmt_if.test.func.value, ast.Call) and getattr(fmt_if.test.func.value.func, "attr", "") == "lower"
    then = [ast.literal_eval(s.value) for s in fmt_if.body if isinstance(s, ast.Assign) and norm_text(s.targets[0]) == "output_format"]
    els = [ast.literal_eval(s.value) for s in fmt_if.orelse if isinstance(s, ast.Assign) and norm_text(s.targets[0]) == "output_format"]
    if suffix != ".bin" or then != ["bin"] or els != ["raw"] or not lowered:
        ck.violation(fmt_if, f"-o selects format {then} for suffix {suffix!r} (case folded: {lowered}) and {els} otherwise; documented: '.bin' (any case) -> bin, else raw", construct="cli output format")
    # implicit bin path: source name with .mac stripped + ".bin"
    ok = False
    for node in walk_local(fn):
        if isinstance(node, ast.Assign) and norm_text(node.targets[0]) == "args.outfile" and isinstance(node.value, ast.BinOp) and isinstance(node.value.op, ast.Add) \
                and isinstance(node.value.right, ast.Constant):
            ok = node.value.right.value == ".bin"
            ck.instance("implicit-bin", {"assign": norm_text(node)}, fn=where)
            if not ok:
                ck.violation(node, f"--implicit-bin names the output {node.value.right.value!r}, expected '.bin'", construct="implicit bin suffix")
    if not ok and not any(f.construct == "implicit bin suffix" for f in ck.current.findings):
        ck.unknown("main_cli: --implicit-bin path derivation not recognised")


def rule_R8(ck):
    repo = ck.repo
    where = "metacommands::add_emitted_bk_wav"
    TN = sym.var("tape_name_text", "str")
    FN = sym.var("source_path", "str")
    PATH = sym.var("given_path", "str")
    CS = sym.var("charset", "str")
    enc = sym.op("encode", TN, CS)
    appended = []
    I = eager_interp(repo, extra={"devices::resolve_relative_path": lambda I_, f, a, k: sym.op("relpath", a[0], a[1])})
    LEN = I.add_cell(sym.op("len", enc), 0, None)

    def thunk():
        del appended[:]
        sh = Shapes(I)
        comp = Rec(ClassVal("CompilerStub"))
        comp.fields["emitted_files"] = appended
        comp.fields["output_charset"] = CS
        insn = sh.symbol("make_wav")
        insn.fields["name"] = sh.symbol("make_wav")
        state = {"filename": FN, "compiler": comp, "insn": insn}
        I.call(I.module_get("metacommands", "add_emitted_bk_wav"), [state, PATH, TN, "bk_wav"], {})
        return list(appended)
    for p in I.explore(thunk):
        cell = p.cells[LEN]
        errs = [e[2] for e in p.reported()]
        if p.kind != "return" or len(p.value) != 1:
            ck.violation(where, f"tape name path does not record exactly one output: {p}", construct="tape name record")
            continue
        rec = p.value[0]
        name = rec[4] if len(rec) > 4 else None
        long = cell.lo is not None and cell.lo > 16
        short = cell.hi is not None and cell.hi <= 16
        ck.instance(("tape-name", repr(cell)), {"encoded length": repr(cell), "name field": repr(name), "errors": errs}, fn=where)
        if not long and not short:
            ck.violation(where, f"tape name length guard: boundary inside {cell}; the header holds 16 bytes", construct="tape name bound", expected="> 16 is an error", found=repr(cell))
            continue
        base = sym.op("slice", enc, None, 16, None) if long else enc
        want = sym.op("ljustb", base, 16, b" ")
        if name != want:
            ck.violation(where, f"tape name ({'>' if long else '<='} 16 bytes) is stored as {name!r}, expected {want!r} (cut to 16, padded with spaces)", construct="tape name field", expected=repr(want), found=repr(name))
        if long and not errs:
            ck.violation(where, "a tape name longer than 16 bytes is cut silently", construct="tape name bound", expected="error", found="accepted")
        if short and errs:
            ck.violation(where, f"a tape name of {cell} bytes is reported as an error", construct="tape name spurious")
        if rec[2] != "bk_wav" or rec[3] != sym.op("relpath", PATH, FN):
            ck.violation(where, f"WAV output is recorded as format {rec[2]!r} at {rec[3]!r}", construct="wav path")


def rule_R8b(ck):
    """the tape name inferred from the output path (no name given): last path component without '.wav', at most 16 bytes"""
    repo = ck.repo
    where = "metacommands::add_emitted_bk_wav"
    I = eager_interp(repo, extra={"devices::resolve_relative_path": lambda I_, f, a, k: a[0]})
    for path, src, want_name, want_err in (("out/game.wav", "s.mac", b"game", False), ("out/abcdefghijklmnop.wav", "s.mac", b"abcdefghijklmnop", False), ("out/abcdefghijklmnopq.wav", "s.mac", b"abcdefghijklmnop", True),
                                           ("x.WAV", "s.mac", b"x", False), (None, "dir/prog.mac", b"prog", False), (None, "dir/LongProgramName123.MAC", b"LongProgramName1", True), ("noext", "s.mac", b"noext", False)):
        appended = []

        def thunk(path=path, src=src, appended=appended):
            del appended[:]
            sh = Shapes(I)
            comp = Rec(ClassVal("CompilerStub"))
            comp.fields["emitted_files"] = appended
            comp.fields["output_charset"] = "ascii"
            insn = sh.symbol("make_wav")
            insn.fields["name"] = sh.symbol("make_wav")
            I.call(I.module_get("metacommands", "add_emitted_bk_wav"), [{"filename": src, "compiler": comp, "insn": insn}, path, None, "bk_wav"], {})
            return list(appended)
        ps = I.explore(thunk)
        ck.instance(("tape-name-inferred", path, src), {"output path": path, "source": src, "record": repr(ps[0].value)[:120] if ps else None}, fn=where)
        if len(ps) != 1 or ps[0].kind != "return" or len(ps[0].value) != 1 or len(ps[0].value[0]) < 5:
            ck.violation(where, f"make_wav {path!r} in {src}: no single output record ({ps})", construct="tape name record")
            continue
        rec = ps[0].value[0]
        name = bytes(rec[4]) if isinstance(rec[4], (bytes, bytearray)) else rec[4]
        errs = [e[2] for e in ps[0].reported()]
        want_path = path if path is not None else (src[:-4] if src.lower().endswith(".mac") else src) + ".wav"
        if rec[3] != want_path:
            ck.violation(where, f"make_wav {path!r} in {src}: the file is written to {rec[3]!r}, expected {want_path!r}", construct="wav path", expected=want_path, found=repr(rec[3]))
        if name != want_name.ljust(16, b" "):
            ck.violation(where, f"make_wav {path!r} in {src} (no tape name given): the header name is {name!r}, expected {want_name.ljust(16, b' ')!r} (last path component without '.wav', cut to 16 bytes, space padded)",
                         construct="tape name field", expected=repr(want_name.ljust(16, b" ")), found=repr(name))
        if bool(errs) != want_err:
            ck.violation(where, f"make_wav {path!r} in {src}: the inferred tape name has {len(want_name) + (1 if want_err else 0)}{'+' if want_err else ''} bytes and the diagnostics are {errs}; a name is an error exactly when it exceeds 16 bytes",
                         construct="tape name bound")


def rule_R3b(ck):
    """the two tape formats of the registry: 'bk_wav' is the normal-speed stream, 'bk_turbo_wav' the turbo one - also when
    encode_as_wav is called without saying which (its default is normal speed)"""
    repo = ck.repo
    I = eager_interp(repo, extra={"bk_wav::make_wav_file": lambda I_, f_, a, k: ("wav", a[1])})
    seen = []

    def hook(I_, f, args, kwargs, node):
        if isinstance(f, Closure) and f.module.name == "bk_wav" and f.name == "encode_data_bits":
            seen.append(args[1].name if hasattr(args[1], "name") else repr(args[1]))
            return b""
        return NotImplemented
    I.call_hook = hook
    cases = [("registry bk_wav", lambda: I.call(I.module_get("formats", "file_formats")["bk_wav"], [BASE, b"ab", b"name            "], {}), "Env"),
             ("registry bk_turbo_wav", lambda: I.call(I.module_get("formats", "file_formats")["bk_turbo_wav"], [BASE, b"ab", b"name            "], {}), "TurboEnv"),
             ("encode_as_wav default", lambda: I.call(I.module_get("bk_wav", "encode_as_wav"), [BASE, b"ab", b"name            "], {}), "Env")]
    for name, call, want in cases:
        def thunk(call=call):
            del seen[:]
            r = call()
            return r, sorted(set(seen))
        ps = I.explore(thunk)
        ck.instance(("tape-format", name), {"case": name, "pulse tables used": repr(ps[0].value[1]) if ps and ps[0].kind == "return" else repr(ps)}, fn="formats::<module>")
        if len(ps) != 1 or ps[0].kind != "return" or ps[0].value[1] != [want]:
            ck.violation("bk_wav::encode_as_wav", f"{name}: the stream is built with the pulse tables {ps[0].value[1] if ps and ps[0].kind == 'return' else ps}, expected {want} "
                                                  "('make_wav' must give a normal-speed tape, 'make_turbo_wav' a turbo one)", construct=f"tape format {name}")


def rule_R7u(ck):
    """default output paths for a source whose '.MAC' suffix is written in upper or mixed case (the suffix test folds case)"""
    repo = ck.repo
    I = eager_interp(repo, extra={"devices::resolve_relative_path": lambda I_, f, a, k: a[0]})
    for src, fmt, ext, want in (("dir/PROG.MAC", "bin", "bin", "dir/PROG.bin"), ("dir/Prog.Mac", "raw", None, "dir/Prog"), ("dir/prog.mac", "bin", "bin", "dir/prog.bin"), ("dir/prog.txt", "bin", "bin", "dir/prog.txt.bin"),
                                ("dir/mac", "raw", None, "dir/mac"), ("dir/x.mac.mac", "bin", "bin", "dir/x.mac.bin")):
        appended = []

        def thunk(src=src, fmt=fmt, ext=ext, appended=appended):
            del appended[:]
            sh = Shapes(I)
            comp = Rec(ClassVal("CompilerStub"))
            comp.fields["emitted_files"] = appended
            insn = sh.symbol("make_" + fmt)
            insn.fields["name"] = sh.symbol("make_" + fmt)
            I.call(I.module_get("metacommands", "add_emitted_file"), [{"filename": src, "compiler": comp, "insn": insn}, None, fmt, ext], {})
            return list(appended)
        ps = I.explore(thunk)
        got = ps[0].value[0][3] if len(ps) == 1 and ps[0].kind == "return" and len(ps[0].value) == 1 else None
        ck.instance(("default-path", src, fmt), {"source": src, "format": fmt, "default output path": got}, fn="metacommands::add_emitted_file")
        if got != want:
            ck.violation("metacommands::add_emitted_file", f"make_{fmt} without a path in {src}: the output goes to {got!r}, expected {want!r} (the source name with its .mac suffix, in any case, replaced)",
                         construct="default output path case", expected=want, found=repr(got))


def rule_R10(ck):
    """emit_files writes every requested output with its own format and its own arguments, at its own path"""
    repo = ck.repo
    writes = []
    def wav(I_, f, a, k):
        names = ["base", "code", "bk_filename", "turbo"]
        b = dict(zip(names, a))
        b.update(k)
        return sym.op("wav", b["base"], b["code"], b["bk_filename"], bool(b.get("turbo", False)))
    I = eager_interp(repo, extra={"bk_wav::encode_as_wav": wav})

    def open_device(I_, fn, a, k):
        path = a[0]
        rec = Rec(ClassVal("FileStub"))
        rec.cls.attrs["write"] = PyFn(lambda I2, aa, kk: writes.append((path, aa[1])) or None, "write")
        rec.cls.attrs["__enter__"] = PyFn(lambda I2, aa, kk: aa[0], "__enter__")
        rec.cls.attrs["__exit__"] = PyFn(lambda I2, aa, kk: None, "__exit__")
        return rec
    I.summaries["devices::open_device"] = open_device
    N1, N2 = sym.var("name1", "bytes"), sym.var("name2", "bytes")
    S, E = sym.var("s", "obj"), sym.var("e", "obj")

    def thunk():
        del writes[:]
        comp = I.instantiate(I.module_get("compiler", "Compiler"), [], {})
        comp.fields["emitted_files"] = [(S, E, "bk_wav", "one.wav", N1), (S, E, "bk_wav", "two.wav", N2), (S, E, "raw", "three.raw"), (S, E, "bin", "four.bin"), (S, E, "bk_turbo_wav", "five.wav", N2)]
        I.call_method(comp, "emit_files", [BASE, CODE])
        return list(writes)
    ps = I.explore(thunk)
    where = "compiler::Compiler.emit_files"
    if len(ps) != 1 or ps[0].kind != "return":
        ck.violation(where, f"emit_files with five outputs does not complete on one path: {ps}", construct="emit_files paths")
        return
    want = [("one.wav", sym.op("wav", BASE, CODE, N1, False)), ("two.wav", sym.op("wav", BASE, CODE, N2, False)), ("three.raw", CODE),
            ("four.bin", sym.cat(sym.pack("<HH", BASE, sym.length(CODE)), CODE)), ("five.wav", sym.op("wav", BASE, CODE, N2, True))]
    got = ps[0].value
    for w in want:
        ck.instance(("emit", w[0]), {"output": w[0], "content": repr(w[1])[:80]}, fn=where)
    if got != want:
        diff = next((i for i, (g, w) in enumerate(zip(got + [None] * 5, want)) if g != w), None)
        ck.violation(where, f"output #{diff + 1} is written as {got[diff] if diff < len(got) else None!r}, expected {want[diff]!r}: every output must be encoded from its own directive's format and arguments (tape name) and written to its own path",
                     construct="emit_files per-output content", expected=repr(want[diff]), found=repr(got[diff] if diff < len(got) else None))


def rule_device_paths(ck):
    """'directive paths relative to the source file': a path is taken as it stands only when it is absolute or names a
    REGISTERED device ('~speaker'). The path functions of devices.py are executed abstractly on concrete names with a
    registry holding exactly one device."""
    import os
    repo = ck.repo
    I = eager_interp(repo)
    where = "devices::resolve_relative_path"
    base = "dir/src.mac"
    # the device names the package registers (decorators of devices.py), read from the syntax tree
    registered = sorted({d.args[0].value[1:] for f_, d in repo.decorated("devices", "register_device") if isinstance(d, ast.Call) and d.args and isinstance(d.args[0], ast.Constant) and isinstance(d.args[0].value, str)})
    ck.instance("registered-devices", {"devices": registered}, fn="devices::register_device")
    if not registered:
        raise Unknown("no @register_device('~name', ...) decorator found in devices.py")
    dev = registered[0]
    cases = [("~backup", False), ("~old image.bin", False), ("~x", False), ("~" + dev + "s", False), ("~" + dev, True), ("~" + dev.upper(), True), ("~" + dev + " 1", True),
             ("sub/x.bin", False), ("~", False), ("~" + dev + "3", False)]
    for path, is_dev in cases:
        def thunk(path=path):
            dd = I.module_get("devices", "DEVICES")
            had = dict(dd)
            dd.clear()
            dd[dev] = {"wb": (None, None)}
            try:
                return (I.call(I.module_get("devices", "is_device_path"), [path], {}), I.call(I.module_get("devices", "is_absolute_path"), [path], {}),
                        I.call(I.module_get("devices", "resolve_relative_path"), [path, base], {}), sorted(dd))
            finally:
                dd.clear()
                dd.update(had)
        ps = I.explore(thunk)
        if len(ps) != 1 or ps[0].kind != "return":
            ck.incomplete("devices::open_device", f"path functions on {path!r}", ps)
            continue
        isdev, isabs, resolved, keys = ps[0].value
        want = path if is_dev else os.path.normpath(os.path.join(os.path.dirname(base), path))
        ck.instance(("device-path", path), {"path": path, "is_device_path": isdev, "resolved against dir/src.mac": resolved}, fn=where)
        if bool(isdev) != is_dev or bool(isabs) != is_dev:
            ck.violation("devices::is_device_path", f"with the devices {[dev]} registered, is_device_path({path!r}) is {isdev!r} and is_absolute_path is {isabs!r}; expected {is_dev}: "
                                                    "only '~' + a registered device name (any case, optionally followed by a space and arguments) is a device, every other '~name' is an ordinary file",
                         construct="device path recognition")
        if resolved != want:
            ck.violation(where, f"the directive path {path!r} in dir/src.mac resolves to {resolved!r}, expected {want!r} (relative to the source file unless it is absolute or a registered device)",
                         construct="directive path resolution", expected=want, found=repr(resolved))
        if keys != [dev]:
            ck.violation("devices::is_device_path", f"looking at the path {path!r} changes the device registry to {keys}", construct="device registry changed by lookup")
    # an ordinary file: open_device(path, mode) is open(path, mode) - that file, that mode, nothing else
    for path, mode in (("out/prog.bin", "wb"), ("~backup", "wb"), ("in.raw", "rb")):
        def thunk_o(path=path, mode=mode):
            n0 = len(I.effects)
            r = I.call(I.module_get("devices", "open_device"), [path, mode], {})
            return [e[1:] for e in I.effects[n0:] if e[0] == "open"], r
        ps = I.explore(thunk_o)
        ck.instance(("open-device", path, mode), {"open_device": [path, mode], "opens": repr(ps[0].value[0]) if ps and ps[0].kind == "return" else None}, fn="devices::open_device")
        if len(ps) != 1 or ps[0].kind != "return":
            ck.incomplete("devices::open_device", f"open_device({path!r}, {mode!r})", ps)
            continue
        opens, r = ps[0].value
        ok = len(opens) == 1 and (tuple(opens[0][0]) + tuple(v for k_, v in opens[0][1] if k_ in ("file", "mode")))[:2] == (path, mode) and r == sym.var("file", "obj")
        if not ok:
            ck.violation("devices::open_device", f"open_device({path!r}, {mode!r}) for an ordinary file opens {opens!r}; expected exactly open({path!r}, {mode!r}) and its file object returned", construct="open_device ordinary file")


def run(ck):
    from . import c18 as _c18
    ck.run_rule("G5.memo", "the list of requested outputs belongs to one assembly: no class-level or memoised container carries make_* requests into the next one", 40, _c18.rule_memo)
    ck.run_rule("C13.R10", "emit_files writes each output with its own format, arguments and path", 5, rule_R10)
    ck.run_rule("C13.R1", "bin/raw layouts; format registry and its users", 8, rule_R1)
    ck.run_rule("C13.R2", "RIFF header slots", 6, rule_R2)
    ck.run_rule("C13.R3", "tape stream segment order (normal and turbo)", 13, rule_R3)
    ck.run_rule("C13.R4", "bit order of encode_data_bits", 9, rule_R4)
    ck.run_rule("C13.R5", "pulse tables, levels, rates", 13, rule_R5)
    ck.run_rule("C13.R6", "checksum is an end-around-carry sum", 1, rule_R6)
    ck.run_rule("C13.R7", "output path derivation and suffix-strip agreement", 8, rule_R7)
    ck.run_rule("C13.R8", "tape name: encode, 16-byte bound, padding", 2, rule_R8)
    ck.run_rule("C13.R3b", "registry formats 'bk_wav' / 'bk_turbo_wav' and the default of encode_as_wav select the right pulse tables", 3, rule_R3b)
    ck.run_rule("C13.R7u", "default output paths: the .mac suffix is recognised in any letter case", 6, rule_R7u)
    ck.run_rule("C13.R8b", "tape name inferred from the output path: component, suffix, 16-byte bound", 7, rule_R8b)
    ck.run_rule("C13.R7d", "'~name' is a device only when registered; every other directive path is relative to the source file", 10, rule_device_paths)
    from ..rules import route
    ck.run_rule("DIR.route", "make_* statements, compiled the way a program reaches them, register one output of the right format at the right path", 11, route.rule_route, ("outputs",))
    from ..rules import climodel
    ck.run_rule("CLI", "main_cli over all output configurations: every requested output at its path with exactly the image", 500, climodel.rule_cli, ("writes",))
