"""C16 - structural directives preserve meaning."""
import ast

from ..engine import sym
from ..engine.interp import Rec, Raised, ExcVal, PyFn, ClassVal
from ..engine.loader import Unknown, norm_text, walk_local
from ..engine.sym import is_sym
from ..rules import treeimm, guards
from ..rules.world import STATE, DOT, Shapes, eager_interp, emit_report_summary, metacommand, metacommand_fn
from . import c02

EXPLANATION = (
    "R1 (G4): census of every attribute store in compile-phase code whose receiver is a parse-tree node; structural "
    "fields and state-dependent caches must not be written (the tree is shared by every '.repeat' iteration and every "
    "inclusion). R2: the '.repeat' implementation is abstractly executed with three iterations whose chunks have symbolic "
    "lengths: iteration k must be compiled at '.' + sum of the previous chunks' lengths, with the same body, a copy of the "
    "state marked 'repeat', and the result must be the concatenation in order (both for plain and for deferred chunks). "
    "R3: '.once' stops iff the per-file counter, incremented before the body is compiled, exceeds 1. R4: '.end': the only "
    "raiser of CompilerStopIteration is stop_iteration, the handler in compile_block returns the bytes so far; the parser "
    "stops at '.end' outside braces only. R5: insert_file reads the file in binary mode and returns it unmodified. "
    "R6: linking = concatenation (address chain, shared with C02).")
ASSUMPTIONS = ["equality of images for concrete bodies is not computed"]
TRUSTED = ["sa.engine.interp", "python ast"]
LEVEL_TEXT = "Immutability is a who-may-write fact over all compile-phase code; the repeat law is a normal-form identity for any chunk lengths."
LEVEL_NOTE = "necessary conditions; three iterations stand for any count (uniform loop body)"
TECHNIQUE = "mutation/ownership census of parse-tree nodes + abstract interpretation of .repeat/.once/.end/insert_file"


def rule_R2(ck):
    repo = ck.repo
    where = "metacommands::repeat"
    for deferred in (False, True):
        I = eager_interp(repo)
        if deferred:
            I.summaries = {"reports::emit_report": emit_report_summary}
        calls = []
        L = [sym.var(f"len{i}", "int") for i in range(3)]

        def compile_block(I_, fn, a, k):
            i = len(calls)
            calls.append(a)
            if deferred:
                SD = I_.module_get("deferred", "SizedDeferred")
                r = I_.instantiate(SD, [I_.builtin_types["bytes"], L[i], None], {})
                r.fields["name"] = f"chunk{i}"
                return r
            return sym.var(f"chunk{i}", "bytes")

        def thunk():
            del calls[:]
            sh = Shapes(I)
            comp = Rec(ClassVal("CompilerStub"))
            comp.cls.attrs["compile_block"] = PyFn(lambda I_, a, k: compile_block(I_, None, a, k))
            START = sym.var("DOT", "int")
            state = {"compiler": comp, "emit_address": START, "context": "file", "insn": sh.symbol(".repeat")}
            body = sh.mk(I.module_get("types", "CodeBlock"), None, None, [])
            r = I.call(metacommand_fn(I, ".repeat"), [state, 3, body], {})
            return r, list(calls), state, body
        ps = I.explore(thunk)
        if len(ps) != 1 or ps[0].kind != "return":
            ck.violation(where, f".repeat 3 does not complete on one path: {ps}", construct="repeat paths")
            continue
        r, cl, state, body = ps[0].value
        START = sym.var("DOT", "int")
        ck.instance(("repeat", deferred), {"deferred chunks": deferred, "iterations": len(cl), "start addresses": [repr(c[3]) if len(c) > 3 else None for c in cl]}, fn=where)
        if len(cl) != 3:
            ck.violation(where, f".repeat 3 compiles its body {len(cl)} times", construct="repeat count")
            continue
        acc = START
        for i, c in enumerate(cl):
            _self, st, blk, start = c
            want = acc
            if start != want:
                ck.violation(where, f"iteration {i + 1} of .repeat is compiled at {start!r}; its bytes land at {want!r} ('.' plus the lengths of the previous copies)", construct="repeat iteration address", expected=repr(want), found=repr(start))
            if blk is not body:
                ck.violation(where, "an iteration of .repeat does not compile the body it was given", construct="repeat body")
            if not isinstance(st, dict) or st is state or st.get("context") != "repeat":
                ck.violation(where, "an iteration of .repeat is not compiled with a copy of the state marked context='repeat'", construct="repeat state")
            acc = sym.add(acc, L[i] if deferred else sym.op("len", sym.var(f"chunk{i}", "bytes")))
        if deferred:
            lst = r.fields.get("lst") if isinstance(r, Rec) else None
            names = [x.fields.get("name") if hasattr(x, "fields") else repr(x) for x in lst] if isinstance(lst, (list, tuple)) and lst else (None if not lst else repr(lst))
            if names != ["chunk0", "chunk1", "chunk2"]:
                ck.violation(where, f".repeat returns {r!r}, expected the concatenation of the three copies in order", construct="repeat result")
        else:
            want = sym.cat(sym.cat(sym.var("chunk0", "bytes"), sym.var("chunk1", "bytes")), sym.var("chunk2", "bytes"))
            if r != want:
                ck.violation(where, f".repeat returns {r!r}, expected {want!r}", construct="repeat result", expected=repr(want), found=repr(r))
    # count 0: nothing
    I = eager_interp(repo)

    def thunk0():
        sh = Shapes(I)
        state = {"compiler": sym.var("comp", "obj"), "emit_address": sym.var("DOT", "int"), "context": "file"}
        return I.call(metacommand_fn(I, ".repeat"), [state, 0, sym.var("body", "obj")], {})
    ps = I.explore(thunk0)
    ck.instance(("repeat", "zero"), {".repeat 0": repr(ps[0].value)}, fn=where)
    if len(ps) != 1 or ps[0].value != b"":
        ck.violation(where, f".repeat 0 produces {ps[0].value!r}", construct="repeat zero")
    # the count operand is an unsigned integer, the body a code block
    I = eager_interp(repo)
    cmd = I.explore(lambda: metacommand(I, ".repeat"))[0].value
    info = [(oi["name"], getattr(oi["hint"], "name", None)) for oi in cmd.fields["operand_info"]]
    ck.instance(("repeat", "signature"), {"operands": info}, fn=where)
    if [h for _, h in info] != ["uint", "CodeBlock"] or not cmd.fields["takes_code_block"]:
        ck.violation(where, f".repeat operands are typed {info}, expected (uint count, code block)", construct="repeat signature")


def rule_R3(ck):
    repo = ck.repo
    where = "metacommands::once"
    I = eager_interp(repo)
    N = I.add_cellvar("times_compiled", 0, None)

    def thunk():
        stopped = []
        comp = Rec(ClassVal("CompilerStub"))
        comp.fields["times_file_compiled"] = {"a.mac": N}
        comp.cls.attrs["stop_iteration"] = PyFn(lambda I_, a, k: stopped.append(1))
        state = {"compiler": comp, "filename": "a.mac"}
        r = I.call(metacommand_fn(I, ".once"), [state], {})
        return bool(stopped)
    for p in I.explore(thunk):
        cell = p.cells[N]
        ck.instance(("once", repr(cell)), {"times this file was compiled (incl. now)": repr(cell), "stops": p.value}, fn=where)
        first = cell.hi is not None and cell.hi <= 1
        later = cell.lo is not None and cell.lo >= 2
        if not first and not later:
            ck.violation(where, f"'.once' threshold lies inside {cell}: the first inclusion (count 1) must contribute, every later one must stop", construct="once threshold")
        elif p.value != later:
            ck.violation(where, f"'.once' with compile count in {cell} {'stops' if p.value else 'does not stop'}", construct="once threshold", expected=f"stop iff count >= 2", found=f"{cell}: stops={p.value}")
    # compile_file counts before compiling the body
    I = eager_interp(repo)
    I.summaries = {"reports::emit_report": emit_report_summary}
    seen = []

    def cb(I_, fn, a, k):
        comp = a[0]
        seen.append(dict(comp.fields["times_file_compiled"]))
        return b""
    I.summaries["compiler::Compiler.compile_block"] = cb

    def thunk2():
        del seen[:]
        comp = I.instantiate(I.module_get("compiler", "Compiler"), [], {})
        f = Rec(ClassVal("FileStub"))
        f.fields.update(filename="a.mac", body=sym.var("body", "obj"))
        I.call_method(comp, "compile_file", [f, 0, {}])
        I.call_method(comp, "compile_file", [f, 0, {}])
        return list(seen)
    ps = I.explore(thunk2)
    ck.instance("count-before-body", {"counter seen by the body (1st, 2nd inclusion)": repr(ps[0].value)}, fn="compiler::Compiler.compile_file")
    if len(ps) != 1 or ps[0].kind != "return" or [d.get("a.mac") for d in ps[0].value] != [1, 2]:
        ck.violation("compiler::Compiler.compile_file", f"the per-file inclusion counter seen while the body is compiled is {ps[0].value!r}; it must be 1 on the first inclusion and 2 on the second", construct="times_file_compiled increment")


def rule_paths(ck):
    """resolve_relative_path: a relative path is joined to the directory of the including file AND normalised, so that the
    per-file key used by '.once' (and by diagnostics) does not depend on how the path was spelled"""
    repo = ck.repo
    where = "devices::resolve_relative_path"
    I = eager_interp(repo)
    REL, BASE_ = sym.var("relative_path", "str"), sym.var("base_file_path", "str")
    ps = I.explore(lambda: I.call(I.module_get("devices", "resolve_relative_path"), [REL, BASE_], {}))
    vals = {repr(p.value) for p in ps if p.kind == "return"}
    want_rel = sym.op("normpath", sym.op("join", sym.op("dirname", BASE_), REL))
    ck.instance("resolve_relative_path", {"results": sorted(vals)}, fn=where)
    if any(p.kind != "return" for p in ps):
        ck.violation(where, f"resolve_relative_path raises: {[p.value for p in ps if p.kind != 'return']}", construct="resolve_relative_path raises")
    if repr(want_rel) not in vals or not vals <= {repr(want_rel), repr(REL)}:
        ck.violation(where, f"a relative path resolves to {sorted(vals)}; expected the normalised join with the including file's directory ({want_rel!r}) - or the path itself when absolute: without normalisation "
                            "'lib.mac' and 'sub/../lib.mac' are different files for '.once'", construct="resolve_relative_path normalisation", expected=repr(want_rel), found=str(sorted(vals)))
    # '.once' and compile_file key the counter by the same file name
    fn = repo.func("compiler::Compiler.compile_file")
    keys = [norm_text(n.slice) for n in ast.walk(fn) if isinstance(n, ast.Subscript) and "times_file_compiled" in norm_text(n.value)]
    ck.instance("once-key", {"counter key in compile_file": keys}, fn="compiler::Compiler.compile_file")
    if keys != ["file.filename"]:
        ck.violation("compiler::Compiler.compile_file", f"the inclusion counter is keyed by {keys}, '.once' reads it by state['filename'] (= file.filename)", construct="once counter key")


def rule_R4(ck):
    repo = ck.repo
    # who raises CompilerStopIteration
    raisers = []
    handlers = []
    for q, fn in repo.all_functions():
        for n in walk_local(fn):
            if isinstance(n, ast.Raise) and n.exc is not None and guards.exc_name(n.exc) == "CompilerStopIteration":
                raisers.append(q)
            if isinstance(n, ast.ExceptHandler) and "CompilerStopIteration" in [x for x in guards.handler_names(n)]:
                handlers.append(q)
    ck.instance("raisers", {"raisers": raisers, "handlers": handlers}, fn="compiler::Compiler.stop_iteration")
    if raisers != ["compiler::Compiler.stop_iteration"]:
        ck.violation("compiler::Compiler.stop_iteration", f"CompilerStopIteration is raised by {raisers}; only stop_iteration may end a file early", construct="stop raisers")
    if handlers != ["compiler::Compiler.compile_block"]:
        ck.violation("compiler::Compiler.compile_block", f"CompilerStopIteration is handled in {handlers}; it must stop exactly the block being compiled", construct="stop handlers")
    # compile_block returns the bytes so far
    I = eager_interp(repo)
    I.summaries = {"reports::emit_report": emit_report_summary}
    n = []

    def ci(I_, fn, a, k):
        n.append(1)
        if len(n) == 2:
            raise Raised(ExcVal("CompilerStopIteration", cls=I_.module_get("compiler", "CompilerStopIteration")))
        return sym.var(f"chunk{len(n)}", "bytes")
    I.summaries["compiler::Compiler.compile_insn"] = ci

    def thunk():
        del n[:]
        sh = Shapes(I)
        comp = I.instantiate(I.module_get("compiler", "Compiler"), [], {})
        insns = [sh.mk(I.module_get("types", "Instruction"), None, None, sh.symbol(x), []) for x in ("nop", ".end", "halt")]
        block = sh.mk(I.module_get("types", "CodeBlock"), None, None, insns)
        state = {"context": "file", "link_base": {}}
        return I.call_method(comp, "compile_block", [state, block, 0]), len(n)
    ps = I.explore(thunk)
    ck.instance("end-bytes", {"block [A, .end, B] compiles to": repr(ps[0].value)}, fn="compiler::Compiler.compile_block")
    if len(ps) != 1 or ps[0].kind != "return" or ps[0].value != (sym.var("chunk1", "bytes"), 2):
        ck.violation("compiler::Compiler.compile_block", f"a block [A, .end, B] compiles to {ps[0].value!r}; expected A's bytes only, B never compiled", construct="end discards rest")
    # .end calls stop_iteration
    fn = I.explore(lambda: metacommand_fn(I, ".end"))[0].value
    calls = [c for c in ast.walk(fn.node) if isinstance(c, ast.Call) and isinstance(c.func, ast.Attribute) and c.func.attr == "stop_iteration"]
    ck.instance("end-calls", None, fn="metacommands::end")
    if not calls or any(isinstance(p, ast.If) for c in calls for p in [c._parent._parent]):
        ck.violation("metacommands::end", "'.end' does not unconditionally stop the compilation of its file", construct="end stop")
    # parser: stop at .end outside braces only - decided by running the real statement parser (abstractly) on texts with
    # junk after the directive
    from .c05 import run_parser
    I2 = eager_interp(repo)
    I2.explore(lambda: I2.module_get("metacommands", "end"))       # the directive registry must be complete
    def names(block):
        return [i.fields["name"].fields["name"].lower() if "name" in i.fields and isinstance(i.fields["name"], Rec) else i.cls.name for i in block.fields["insns"]]
    for text, want, why in (("nop\n.end\n*** junk $$$ (((\n", ["nop", ".end"], "the text after '.end' is not parsed"),
                            ("nop\nEND\n\"unterminated\n", ["nop", "end"], "'end' without the dot, in any case, ends the file too"),
                            ("nop\n.End\n", ["nop", ".end"], "'.End' in mixed case"),
                            ("nop\nhalt\n", ["nop", "halt"], "a file without '.end' is read to its end")):
        r, pos, errs, raised = run_parser(I2, "code", text)
        got = names(r) if isinstance(r, Rec) else None
        ck.instance(("parser-end", text), {"text": text, "statements": got, "errors": errs}, fn="parser::code")
        if raised or errs or got != want:
            ck.violation("parser::code", f"parsing {text!r} gives the statements {got} (errors {errs}, raised {raised}), expected {want}: {why}", construct="parser end test")
    # inside braces the parser reads on (the compiler discards the rest of the block: same file continues after '}')
    r, pos, errs, raised = run_parser(I2, "code", ".repeat 2 { nop\n.end\nhalt }\nclr r0\n")
    inner = None
    if isinstance(r, Rec) and r.fields["insns"]:
        ops = r.fields["insns"][0].fields.get("operands") or []
        inner = [names(o) for o in ops if isinstance(o, Rec) and o.cls.name == "CodeBlock"]
    outer = names(r) if isinstance(r, Rec) else None
    ck.instance(("parser-end", "braces"), {"outer": outer, "inner": inner, "errors": errs}, fn="parser::code")
    if raised or errs or outer != [".repeat", "clr"] or inner != [["nop", ".end", "halt"]]:
        ck.violation("parser::code", f"'.repeat 2 {{ nop / .end / halt }}' / 'clr r0' parses to outer {outer}, body {inner} (errors {errs}, raised {raised}); '.end' inside braces must not stop the parser: "
                                     "the closing brace and the rest of the file still belong to the program", construct="parser end test")


def rule_R5(ck):
    repo = ck.repo
    where = "metacommands::insert_file"
    I = eager_interp(repo, extra={"devices::resolve_relative_path": lambda I_, f, a, k: sym.op("relpath", a[0], a[1])})

    def thunk():
        state = {"filename": sym.var("SRC", "str"), "insn": sym.var("insn", "obj")}
        return I.call(metacommand_fn(I, "insert_file"), [state, sym.var("PATH", "str")], {})
    ps = I.explore(thunk)
    opens = [e for e in ps[0].effects if e[0] == "open"]
    ck.instance("insert_file", {"open": repr(opens[0][1]) if opens else None, "returns": repr(ps[0].value)}, fn=where)
    ok = len(ps) == 1 and ps[0].kind == "return" and opens and opens[0][1] == (sym.op("relpath", sym.var("PATH", "str"), sym.var("SRC", "str")), "rb") \
        and ps[0].value == sym.op("call", sym.op("attr", sym.var("file", "obj"), "read"))
    if not ok:
        ck.violation(where, f"insert_file does not return the raw bytes of the named file (path relative to the source file, binary mode): open{opens[0][1] if opens else '?'} -> {ps[0].value!r}", construct="insert_file raw")
    # unsized: its length is the file's length (a size= here would be wrong)
    cmd = I.explore(lambda: metacommand(I, "insert_file"))[0].value
    if cmd.fields.get("size") is not None:
        ck.violation(where, f"insert_file announces a constant size {cmd.fields.get('size')!r} for data-dependent content", construct="insert_file size")


def run(ck):
    ck.run_rule("G4", "the parse tree is read-only during compilation", 5, treeimm.rule_G4)
    ck.run_rule("G4.re", "an expression node resolved again at another '.' gives that copy's value (each copy of a repeated body sees its own '.')", 15, treeimm.rule_reresolve)
    ck.run_rule("G4.def", "deferred values (the image of a block, lengths, polynomials) are never updated in place", 30, treeimm.rule_deferred_immutable)
    ck.run_rule("C16.R2", ".repeat: iteration addresses, shared body, state copy, concatenation", 4, rule_R2)
    from ..rules import route
    ck.run_rule("DIR.route", "'.repeat n { body }' as a statement: count and body reach the handler, the one body is compiled n times", 1, route.rule_route, ("repeat",))
    ck.run_rule("C16.R3", ".once: threshold and counter increment before the body", 3, rule_R3)
    ck.run_rule("C16.R3p", "included file identity: relative paths are joined and normalised", 2, rule_paths)
    ck.run_rule("C16.R4", ".end: single raiser, single handler, bytes so far, parser stop", 4, rule_R4)
    ck.run_rule("C16.R5", "insert_file returns the file's bytes unmodified", 1, rule_R5)
    ck.run_rule("C02.R2", "bytes/address accumulator pairing (linking = concatenation)", 5, c02.rule_R2)
    ck.run_rule("C02.R6", "address continuation across included and linked files", 3, c02.rule_R6)
    ck.run_rule("C02.R7", "linking F1 F2 ... = concatenation at chained addresses", 3, c02.rule_R7)
    from . import c10
    ck.run_rule("G6.tab", "own-file and exported symbol tables fold case alike (a reference resolved across files resolves as it does inside one file)", 10, c10.rule_tables)
